(* Redundant tie, SOURCE-LEVEL COROLLARIES: the property theorems restated about the definitions TRANSLATED FROM THE SOURCE on this run
   (Gen/Decisions.v, Gen/Loops.v, Gen/loops_tracking.v, Gen/loops_passfail.v) instead of the hand models: each proof rewrites with the
   equation "generated definition = hand model" of Props/GenTie*.v and applies the property's lemma.  What these say: the filter the
   library's source defines today is an order-preserving, idempotent, monotone sub-list selection; the `is_better_than` it defines is
   monotone in the threshold; the area `_calculate_ap` computes is the all-point interpolation; the frame `get_now_frame` returns is
   the first nearest one within the inclusive tolerance; `CLEAR.__init__` yields well-formed counters -- for ALL inputs.
   Compiled by the harness like every other GenTie file (one theorem per file; lost when an equation it rests on is lost). *)
From Coq Require Import List Bool ZArith QArith Arith Lia String.
From PE Require Import Base.QUtil.
From PE Require Model.AP Model.Filter Model.PassFail Model.Clear Model.Lookup.
From PE Require Proofs.FilterProofs Proofs.APModel Proofs.APEnvelope Proofs.LookupProofs Proofs.ClearProofs.
From PE Require Proofs.GenTieLemmas Proofs.GenTieLoopsLemmas Proofs.GenTieTrackingLemmas Proofs.GenTiePassFailLemmas.
From PE Require Gen.Decisions Gen.Loops Gen.loops_tracking Gen.loops_passfail.
From PE Require Props.GenTie Props.GenTieLoops Props.GenTieTracking Props.GenTiePassFail.
Import ListNotations.

(* ---- C10 on the translated filter -------------------------------------------------------------------------------------- *)
Theorem GenTieSrc_C10_filter_sublist :
  forall c tf is_gt l l', loops_passfail.Gen_filter_objects.f c tf is_gt l = Filter.Ok l' -> Filter.Sublist l' l.
Proof. intros c tf is_gt l l'. rewrite GenTiePassFail.GenTie_filter_objects. apply FilterProofs.filter_sublist. Qed.
Print Assumptions GenTieSrc_C10_filter_sublist.

Theorem GenTieSrc_C10_filter_idempotent :
  forall c tf is_gt l l', loops_passfail.Gen_filter_objects.f c tf is_gt l = Filter.Ok l' ->
    loops_passfail.Gen_filter_objects.f c tf is_gt l' = Filter.Ok l'.
Proof. intros c tf is_gt l l'. rewrite !GenTiePassFail.GenTie_filter_objects. apply FilterProofs.filter_idempotent. Qed.
Print Assumptions GenTieSrc_C10_filter_idempotent.

Theorem GenTieSrc_C10_filter_results_sublist_idempotent :
  forall c tf rs rs', loops_passfail.Gen_filter_object_results.f c tf rs = Filter.Ok rs' ->
    Filter.Sublist rs' rs /\ loops_passfail.Gen_filter_object_results.f c tf rs' = Filter.Ok rs'.
Proof.
  intros c tf rs rs'. rewrite !GenTiePassFail.GenTie_filter_object_results. intros H.
  split; [exact (FilterProofs.filter_results_sublist _ _ _ _ H)|exact (FilterProofs.filter_results_idempotent _ _ _ _ H)].
Qed.
Print Assumptions GenTieSrc_C10_filter_results_sublist_idempotent.

Theorem GenTieSrc_C10_filter_monotone_in_bounds :
  forall c c' tf is_gt l l1 l2, Filter.wf_cfg c -> Filter.wf_cfg c' -> Filter.wider c c' ->
    (forall o, In o l -> Filter.obj_ok c is_gt o) ->
    loops_passfail.Gen_filter_objects.f c tf is_gt l = Filter.Ok l1 -> loops_passfail.Gen_filter_objects.f c' tf is_gt l = Filter.Ok l2 ->
    Filter.Sublist l1 l2.
Proof. intros c c' tf is_gt l l1 l2. rewrite !GenTiePassFail.GenTie_filter_objects. apply FilterProofs.filter_monotone_in_bounds. Qed.
Print Assumptions GenTieSrc_C10_filter_monotone_in_bounds.

Theorem GenTieSrc_C10_fp_label_always_kept :
  forall c tf is_gt o, Filter.lbl_is_fp (Filter.o_label o) = true -> Decisions.Gen__is_target_object.f c tf is_gt o = Filter.Ok true.
Proof. intros c tf is_gt o. rewrite GenTie.GenTie_is_target_object. apply FilterProofs.fp_label_always_kept. Qed.
Print Assumptions GenTieSrc_C10_fp_label_always_kept.

(* ---- C08 on the translated comparisons --------------------------------------------------------------------------------- *)
Theorem GenTieSrc_C08_is_better_than_monotone :
  forall v t t',
    (t <= t' -> Decisions.Gen_CenterDistanceMatching_is_better_than.f v t = true -> Decisions.Gen_CenterDistanceMatching_is_better_than.f v t' = true) /\
    (t <= t' -> Decisions.Gen_PlaneDistanceMatching_is_better_than.f v t = true -> Decisions.Gen_PlaneDistanceMatching_is_better_than.f v t' = true) /\
    (t' <= t -> Decisions.Gen_IOU2dMatching_is_better_than.f v t = true -> Decisions.Gen_IOU2dMatching_is_better_than.f v t' = true) /\
    (t' <= t -> Decisions.Gen_IOU3dMatching_is_better_than.f v t = true -> Decisions.Gen_IOU3dMatching_is_better_than.f v t' = true).
Proof.
  intros v t t'.
  pose proof (GenTie.GenTie_CenterDistanceMatching_is_better_than v) as E1.
  pose proof (GenTie.GenTie_PlaneDistanceMatching_is_better_than v) as E2.
  pose proof (GenTie.GenTie_IOU2dMatching_is_better_than v) as E3.
  pose proof (GenTie.GenTie_IOU3dMatching_is_better_than v) as E4.
  repeat split; intros L.
  - rewrite (E1 t), (E1 t'). apply (APModel.better_than_monotone AP.Minimize v t t'). exact L.
  - rewrite (E2 t), (E2 t'). apply (APModel.better_than_monotone AP.Minimize v t t'). exact L.
  - rewrite (E3 t), (E3 t'). apply (APModel.better_than_monotone AP.Maximize v t t'). exact L.
  - rewrite (E4 t), (E4 t'). apply (APModel.better_than_monotone AP.Maximize v t t'). exact L.
Qed.
Print Assumptions GenTieSrc_C08_is_better_than_monotone.

(* ---- C04 on the translated area computation ----------------------------------------------------------------------------- *)
Theorem GenTieSrc_C04_calculate_ap_is_all_point_interpolation :
  forall precision recall : list Q, List.length precision = List.length recall ->
    exists a, Loops.Gen__calculate_ap.f precision recall = Filter.Ok a /\ a == AP.ap_spec (rev (combine precision recall)).
Proof.
  intros p r H. exists (AP.ap_code (rev (combine p r))). split; [apply GenTieLoops.GenTie__calculate_ap; exact H|apply APEnvelope.ap_code_eq_spec].
Qed.
Print Assumptions GenTieSrc_C04_calculate_ap_is_all_point_interpolation.

(* ---- C17 on the translated lookup ---------------------------------------------------------------------------------------- *)
Theorem GenTieSrc_C17_get_now_frame_is_nearest_within_tol :
  forall l t tol, (t <= 10 ^ 17)%Z -> l <> [] ->
    exists i f,
      (nth_error l i = Some f /\
       (forall j g, nth_error l j = Some g -> (Lookup.dist t f <= Lookup.dist t g)%Z) /\
       (forall j g, (j < i)%nat -> nth_error l j = Some g -> (Lookup.dist t f < Lookup.dist t g)%Z)) /\
      loops_tracking.Gen_get_now_frame.f l t tol = Filter.Ok (if (Lookup.dist t f <=? tol)%Z then Some f else None).
Proof.
  intros l t tol Ht Hl.
  destruct (LookupProofs.now_frame_nearest l t tol Ht Hl) as (i & f & Hspec & Hres).
  exists i, f. split; [exact Hspec|].
  destruct GenTieTracking.GenTie_get_now_frame as (E & _ & _).
  assert (Hg : Z.gtb t Lookup.max_unix_time = false).
  { unfold Lookup.max_unix_time. rewrite Z.gtb_ltb. apply Z.ltb_ge. exact Ht. }
  rewrite (E l t tol Hg), Hres. unfold LookupProofs.first_nearest in Hspec. destruct Hspec as (Hn & _ & _).
  destruct (Lookup.dist t f <=? tol)%Z; simpl; [rewrite Hn|]; reflexivity.
Qed.
Print Assumptions GenTieSrc_C17_get_now_frame_is_nearest_within_tol.

(* ---- C05 on the translated CLEAR accumulation ----------------------------------------------------------------------------- *)
Theorem GenTieSrc_C05_clear_init_counts :
  forall m T numgt (h : list Clear.frame),
    exists num tp fp sw sc mota motp,
      loops_tracking.Gen_CLEAR___init__.f (fun _ => 1) m T numgt h = Filter.Ok (num, tp, fp, sw, sc, mota, motp) /\
      let a := Clear.clear_counts m T h in
      tp = Qnat (Clear.c_tp a) /\ fp = Qnat (Clear.c_fp a) /\
      (Clear.c_tp a + Clear.c_fp a = Clear.countb (Clear.is_target T) (Clear.evaluated h))%nat /\
      num = List.length (Clear.evaluated h).
Proof.
  intros m T numgt h. destruct GenTieTracking.GenTie_CLEAR___init__ as (_ & E).
  eexists _, _, _, _, _, _, _. split; [apply E|]. cbv zeta.
  destruct (ClearProofs.clear_partition m T h) as (P1 & P2).
  repeat split; try reflexivity; assumption.
Qed.
Print Assumptions GenTieSrc_C05_clear_init_counts.
