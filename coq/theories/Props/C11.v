From Coq Require Import List Bool Arith.
From PE Require Import Model.Classif Proofs.ClassifProofs.
Theorem C11_placeholder : True. Proof. exact placeholder. Qed.
Print Assumptions C11_placeholder.
