(* C11 -- Classification pairs objects by identity and scores them by label agreement.

   Model: Model/Classif.v (get_object_results for ROI-less DynamicObject2D: _get_object_results_with_id = [id_match],
   _get_object_results_for_tlr = [tlr_match]; ClassificationAccuracy = [classification_accuracy];
   ClassificationMetricsScore(...)._summarize() = [summarize (accuracies ...)]).  An object of the caller's list l is
   (i, facts) with i its position: [In (i, o) (indexed l) <-> nth_error l i = Some o] (ClassifProofs.In_indexed).
   A result is (estimate, Some ground-truth) or (estimate, None).  Only statements here; proofs in
   Proofs/ClassifProofs.v.  Vocabulary used below (all defined there or in the model, one line each):
     est_ids R / gt_ids R     positions of the estimates / of the ground truths used by the results R
     uuid_cam o               (o_uuid o, o_cam o)
     all_uuid_set l           no object of l has uuid None
     cnt f l                  length (filter f l)
     TPs rs / FPs rs          number of results with / without is_label_correct (GT present and equally labelled, or GT "FP")
     is_ratio s n d           (d == 0 -> s = Inf) /\ (~ d == 0 -> exists q, s = Fin q /\ q == n / d)
     in_unit s                s = Fin q -> 0 <= q <= 1        is_one s: exists q, s = Fin q /\ q == 1 *)
From Coq Require Import List Bool Arith ZArith QArith.
From PE Require Import Base.QUtil Model.Classif Proofs.ClassifProofs.
Import ListNotations.
Local Open Scope nat_scope.

(* ------------------------------------------------------------------------------------------ *)
(* dispatch                                                                                    *)
(* ------------------------------------------------------------------------------------------ *)
Theorem C11_no_estimates : forall tlr uf gts, get_object_results tlr uf [] gts = Ok [].
Proof. exact get_results_no_estimates. Qed.
Print Assumptions C11_no_estimates.

Theorem C11_no_ground_truth : forall tlr uf ests,
  ests <> [] -> get_object_results tlr uf ests [] = Ok (fp_results (indexed ests)).
Proof. exact get_results_no_ground_truth. Qed.
Print Assumptions C11_no_ground_truth.

Theorem C11_dispatch : forall tlr uf ests gts,
  ests <> [] -> gts <> [] ->
  get_object_results tlr uf ests gts = if tlr then tlr_match uf ests gts else id_match ests gts.
Proof. exact get_results_dispatch. Qed.
Print Assumptions C11_dispatch.

(* ------------------------------------------------------------------------------------------ *)
(* generic objects: paired iff same uuid and same camera, each object used at most once         *)
(* ------------------------------------------------------------------------------------------ *)
Theorem C11_id_match_spec : forall ests gts,
  all_uuid_set ests -> all_uuid_set gts -> NoDup (map uuid_cam ests) -> NoDup (map uuid_cam gts) ->
  exists R, id_match ests gts = Ok R /\
    (forall e g, In (e, Some g) R <->
       In e (indexed ests) /\ In g (indexed gts) /\
       o_uuid (snd e) = o_uuid (snd g) /\ o_cam (snd e) = o_cam (snd g)) /\
    NoDup (est_ids R) /\ NoDup (gt_ids R) /\
    (* ground-truth-less results: exactly the unpaired estimates, and only if none of them sits in CAM_TRAFFIC_LIGHT *)
    (forall e, In (e, None) R <->
       In e (id_unpaired (indexed ests) (indexed gts)) /\
       existsb (fun x => o_tlcam (snd x)) (id_unpaired (indexed ests) (indexed gts)) = false).
Proof. exact id_match_spec. Qed.
Print Assumptions C11_id_match_spec.

(* where "unpaired" means: no ground truth with the same uuid in the same camera *)
Theorem C11_id_unpaired_meaning : forall es gs e,
  In e (id_unpaired es gs) <->
  In e es /\ forall g, In g gs -> ~ (o_uuid (snd e) = o_uuid (snd g) /\ o_cam (snd e) = o_cam (snd g)).
Proof. exact In_id_unpaired. Qed.
Print Assumptions C11_id_unpaired_meaning.

(* the whole result list, in the order the code produces it *)
Theorem C11_id_match_is_spec : forall ests gts,
  all_uuid_set ests -> all_uuid_set gts -> NoDup (map uuid_cam ests) -> NoDup (map uuid_cam gts) ->
  id_match ests gts = Ok (id_spec ests gts).
Proof. exact id_match_eq_spec. Qed.
Print Assumptions C11_id_match_is_spec.

(* ------------------------------------------------------------------------------------------ *)
(* traffic lights (no hypothesis on uuids is needed beyond "the matcher returned")              *)
(* ------------------------------------------------------------------------------------------ *)
Theorem C11_tlr_one_to_one : forall uf ests gts R,
  tlr_match uf ests gts = Ok R ->
  NoDup (est_ids R) /\ NoDup (gt_ids R) /\
  forall r, In r R -> exists e g, r = (e, Some g) /\ In e (indexed ests) /\ In g (indexed gts).
Proof. exact tlr_one_to_one. Qed.
Print Assumptions C11_tlr_one_to_one.

Theorem C11_tlr_same_camera : forall uf ests gts R,
  tlr_match uf ests gts = Ok R ->
  forall e g, In (e, Some g) R -> o_cam (snd e) = o_cam (snd g).
Proof. exact tlr_same_camera. Qed.
Print Assumptions C11_tlr_same_camera.

(* label(+uuid)-equal pairs first, then uuid-equal pairs with different labels; each stage leaves nothing pairable *)
Theorem C11_tlr_stage_order : forall uf ests gts R,
  tlr_match uf ests gts = Ok R ->
  exists R1 R2, R = R1 ++ R2 /\
    (forall e g, In (e, Some g) R1 ->
       o_label (snd e) = o_label (snd g) /\ o_cam (snd e) = o_cam (snd g) /\
       (uf = true -> o_uuid (snd e) = o_uuid (snd g))) /\
    (forall e g, In (e, Some g) R2 ->
       o_uuid (snd e) = o_uuid (snd g) /\ o_cam (snd e) = o_cam (snd g) /\
       o_label (snd e) <> o_label (snd g)) /\
    (forall e g, In e (indexed ests) -> In g (indexed gts) -> cond_label uf (snd e) (snd g) = true ->
       In (fst e) (est_ids R1) \/ In (fst g) (gt_ids R1)) /\
    (forall e g, In e (indexed ests) -> In g (indexed gts) -> cond_id (snd e) (snd g) = true ->
       In (fst e) (est_ids R) \/ In (fst g) (gt_ids R)).
Proof. exact tlr_stage_order. Qed.
Print Assumptions C11_tlr_stage_order.

Theorem C11_cond_label_meaning : forall uf a b,
  cond_label uf a b = true <->
  o_label a = o_label b /\ o_cam a = o_cam b /\ (uf = true -> o_uuid a = o_uuid b).
Proof. exact cond_label_iff. Qed.
Print Assumptions C11_cond_label_meaning.

Theorem C11_cond_id_meaning : forall a b, cond_id a b = true <-> o_uuid a = o_uuid b /\ o_cam a = o_cam b.
Proof. exact cond_id_iff. Qed.
Print Assumptions C11_cond_id_meaning.

(* For EVERY one-to-one pairing P of estimates with ground truths whose pairs are in the same camera (and, with
   uuid_matching_first, carry the same uuid), the number of equally-labelled pairs of P is at most the model's. *)
Theorem C11_tlr_label_pairs_maximal : forall uf ests gts R,
  tlr_match uf ests gts = Ok R ->
  forall P : list (iobj * iobj),
    ((forall p, In p P -> In (fst p) (indexed ests) /\ In (snd p) (indexed gts)) /\
     NoDup (map (fun p : iobj * iobj => fst (fst p)) P) /\
     NoDup (map (fun p : iobj * iobj => fst (snd p)) P)) ->
    (forall p, In p P -> o_cam (snd (fst p)) = o_cam (snd (snd p)) /\
                         (uf = true -> o_uuid (snd (fst p)) = o_uuid (snd (snd p)))) ->
    cnt (fun p : iobj * iobj => label_eqb (snd (fst p)) (snd (snd p))) P <= cnt same_label_result R.
Proof. exact tlr_label_pairs_maximal. Qed.
Print Assumptions C11_tlr_label_pairs_maximal.

(* the guarded removals never fail: the only possible error is a missing uuid *)
Theorem C11_tlr_never_fails_on_remove : forall uf ests gts, tlr_match uf ests gts <> Error ErrRemove.
Proof. exact tlr_error_only_uuid. Qed.
Print Assumptions C11_tlr_never_fails_on_remove.

(* the matcher succeeds whenever every uuid is set, so the statements above are not vacuous ... *)
Theorem C11_tlr_succeeds : forall uf ests gts,
  all_uuid_set ests -> all_uuid_set gts -> exists R, tlr_match uf ests gts = Ok R.
Proof. exact tlr_match_ok. Qed.
Print Assumptions C11_tlr_succeeds.

(* ... and an object without uuid is never silently accepted by either matcher (both lists non-empty) *)
Theorem C11_uuid_none_rejected : forall tlr uf ests gts R,
  ests <> [] -> gts <> [] -> get_object_results tlr uf ests gts = Ok R ->
  all_uuid_set ests /\ all_uuid_set gts.
Proof. exact uuid_none_rejected. Qed.
Print Assumptions C11_uuid_none_rejected.

(* ------------------------------------------------------------------------------------------ *)
(* scores                                                                                      *)
(* ------------------------------------------------------------------------------------------ *)
(* ClassificationAccuracy: TP/FP are counts over the results; accuracy = TP/(N+G-TP), precision = TP/N,
   recall = TP/G, F1 = 2TP/(N+G); float("inf") exactly when the respective denominator is 0
   (F1: when precision or recall is undefined or TP = 0). *)
Theorem C11_scores_are_counting_defs : forall rs g,
  let a := classification_accuracy rs g in
  let N := length rs in
  let TP := TPs rs in
  a_num_res a = N /\ a_num_gt a = g /\ a_tp a = TP /\ a_fp a = FPs rs /\ TP + FPs rs = N /\
  is_ratio (a_accuracy a) (Qnat TP) (Qnat N + Qnat g - Qnat TP) /\
  is_ratio (a_precision a) (Qnat TP) (Qnat N) /\
  is_ratio (a_recall a) (Qnat TP) (Qnat g) /\
  ((N = 0 \/ g = 0 \/ TP = 0) -> a_f1 a = Inf) /\
  (N <> 0 -> g <> 0 -> TP <> 0 -> exists q, a_f1 a = Fin q /\ (q == 2 * Qnat TP / (Qnat N + Qnat g))%Q).
Proof. exact accuracy_counting_defs. Qed.
Print Assumptions C11_scores_are_counting_defs.

(* _summarize over the per-label accuracies built from divide_objects / divide_objects_to_num: the same
   definitions over the pooled counts; here F1 is nan (not inf) when precision or recall is undefined. *)
Theorem C11_summary_scores_are_counting_defs : forall T rs gts a p r f,
  summarize (accuracies T rs gts) = (a, p, r, f) ->
  let N := Ntot T rs in let G := Gtot T gts in let TP := TPtot T rs in
  TP + FPtot T rs = N /\
  is_ratio a (Qnat TP) (Qnat N + Qnat G - Qnat TP) /\
  is_ratio p (Qnat TP) (Qnat N) /\
  is_ratio r (Qnat TP) (Qnat G) /\
  ((N = 0 \/ G = 0) -> f = NaN) /\
  (N <> 0 -> G <> 0 -> TP = 0 -> f = Inf) /\
  (N <> 0 -> G <> 0 -> TP <> 0 -> exists q, f = Fin q /\ (q == 2 * Qnat TP / (Qnat N + Qnat G))%Q).
Proof. exact summary_counting_defs. Qed.
Print Assumptions C11_summary_scores_are_counting_defs.

Theorem C11_scores_unit_interval : forall rs g,
  TPs rs <= g ->
  let a := classification_accuracy rs g in
  in_unit (a_accuracy a) /\ in_unit (a_precision a) /\ in_unit (a_recall a) /\ in_unit (a_f1 a).
Proof. exact accuracy_unit_interval. Qed.
Print Assumptions C11_scores_unit_interval.

Theorem C11_summary_scores_unit_interval : forall T rs gts a p r f,
  summarize (accuracies T rs gts) = (a, p, r, f) ->
  TPtot T rs <= Gtot T gts ->
  in_unit a /\ in_unit p /\ in_unit r /\ in_unit f.
Proof. exact summary_unit_interval. Qed.
Print Assumptions C11_summary_scores_unit_interval.

(* the hypothesis TP <= number of ground truths holds for whatever the matchers return *)
Theorem C11_tlr_tp_le_gt : forall uf ests gts R, tlr_match uf ests gts = Ok R -> TPs R <= length gts.
Proof. exact tlr_tp_le_gt. Qed.
Print Assumptions C11_tlr_tp_le_gt.

Theorem C11_id_tp_le_gt : forall ests gts,
  all_uuid_set ests -> all_uuid_set gts -> NoDup (map uuid_cam ests) -> NoDup (map uuid_cam gts) ->
  exists R, id_match ests gts = Ok R /\ TPs R <= length gts.
Proof. exact id_tp_le_gt. Qed.
Print Assumptions C11_id_tp_le_gt.

(* per label and pooled: TP <= number of ground truths of the target labels (no ground truth carries the FP label),
   hence the summary scores of whatever the matchers return are in [0,1] whenever they are numbers *)
Theorem C11_tlr_summary_unit_interval : forall uf ests gts R T a p r f,
  tlr_match uf ests gts = Ok R -> (forall g, In g gts -> o_fp g = false) ->
  summarize (accuracies T R gts) = (a, p, r, f) ->
  in_unit a /\ in_unit p /\ in_unit r /\ in_unit f.
Proof. exact tlr_summary_unit_interval. Qed.
Print Assumptions C11_tlr_summary_unit_interval.

Theorem C11_id_summary_unit_interval : forall ests gts T,
  all_uuid_set ests -> all_uuid_set gts -> NoDup (map uuid_cam ests) -> NoDup (map uuid_cam gts) ->
  (forall g, In g gts -> o_fp g = false) ->
  exists R, id_match ests gts = Ok R /\
    forall a p r f, summarize (accuracies T R gts) = (a, p, r, f) ->
                    in_unit a /\ in_unit p /\ in_unit r /\ in_unit f.
Proof. exact id_summary_unit_interval. Qed.
Print Assumptions C11_id_summary_unit_interval.

(* every ground truth paired with an equally-labelled estimate and nothing else reported: N = G = TP > 0 *)
Theorem C11_scores_all_one_when_perfect : forall rs g,
  0 < g -> length rs = g -> (forall r, In r rs -> is_label_correct r = true) ->
  let a := classification_accuracy rs g in
  is_one (a_accuracy a) /\ is_one (a_precision a) /\ is_one (a_recall a) /\ is_one (a_f1 a).
Proof. exact accuracy_all_one_when_perfect. Qed.
Print Assumptions C11_scores_all_one_when_perfect.

Theorem C11_summary_all_one_when_perfect : forall T rs gts a p r f,
  summarize (accuracies T rs gts) = (a, p, r, f) ->
  0 < Gtot T gts -> Ntot T rs = Gtot T gts -> TPtot T rs = Gtot T gts ->
  is_one a /\ is_one p /\ is_one r /\ is_one f.
Proof. exact summary_all_one_when_perfect. Qed.
Print Assumptions C11_summary_all_one_when_perfect.

(* ------------------------------------------------------------------------------------------ *)
(* non-vacuity: the hypotheses are satisfiable on inputs that exercise the interesting branches  *)
(* ------------------------------------------------------------------------------------------ *)
(* cameras: 1 = CAM_TRAFFIC_LIGHT, 3 = CAM_TRAFFIC_LIGHT_NEAR; labels 0/1/2 *)
Definition ex_ests : list obj :=
  [mkObj (Some 1) 1 0 true false; mkObj (Some 2) 1 1 true false; mkObj (Some 3) 3 1 false false].
Definition ex_gts : list obj :=
  [mkObj (Some 1) 1 1 true false; mkObj (Some 2) 1 0 true false; mkObj (Some 3) 3 2 false false].

Example C11_nonvacuous_hypotheses :
  all_uuid_set ex_ests /\ all_uuid_set ex_gts /\ NoDup (map uuid_cam ex_ests) /\ NoDup (map uuid_cam ex_gts).
Proof.
  repeat split.
  - intros o [<-|[<-|[<-|[]]]]; discriminate.
  - intros o [<-|[<-|[<-|[]]]]; discriminate.
  - repeat constructor; simpl; intuition discriminate.
  - repeat constructor; simpl; intuition discriminate.
Qed.

(* label stage pairs (0,1),(1,0) crosswise, the uuid stage then pairs (2,2) with different labels *)
Example C11_nonvacuous_tlr :
  option_map ids_of (match tlr_match false ex_ests ex_gts with Ok R => Some R | Error _ => None end)
  = Some [(0, Some 1); (1, Some 0); (2, Some 2)] /\
  option_map ids_of (match tlr_match true ex_ests ex_gts with Ok R => Some R | Error _ => None end)
  = Some [(0, Some 0); (1, Some 1); (2, Some 2)].
Proof. split; vm_compute; reflexivity. Qed.

(* a competing admissible pairing (by uuid) with 0 equally-labelled pairs, against the model's 2 *)
Example C11_nonvacuous_maximal :
  let P := combine (indexed ex_ests) (indexed ex_gts) in
  ((forall p, In p P -> In (fst p) (indexed ex_ests) /\ In (snd p) (indexed ex_gts)) /\
   NoDup (map (fun p : iobj * iobj => fst (fst p)) P) /\
   NoDup (map (fun p : iobj * iobj => fst (snd p)) P)) /\
  (forall p, In p P -> o_cam (snd (fst p)) = o_cam (snd (snd p))) /\
  cnt (fun p : iobj * iobj => label_eqb (snd (fst p)) (snd (snd p))) P = 0 /\
  (match tlr_match false ex_ests ex_gts with Ok R => cnt same_label_result R | Error _ => 0 end) = 2.
Proof.
  cbv zeta. repeat split.
  - destruct H as [<-|[<-|[<-|[]]]]; simpl; auto.
  - destruct H as [<-|[<-|[<-|[]]]]; simpl; auto.
  - simpl. repeat constructor; simpl; intuition discriminate.
  - simpl. repeat constructor; simpl; intuition discriminate.
  - intros p [<-|[<-|[<-|[]]]]; reflexivity.
Qed.

(* generic matcher on the same objects: all three are paired by uuid; with a stranger estimate on CAM_FRONT (0)
   the stranger is reported without ground truth, on CAM_TRAFFIC_LIGHT (1) it is dropped *)
Example C11_nonvacuous_generic :
  option_map ids_of (match id_match (ex_ests ++ [mkObj (Some 9) 0 0 false false]) ex_gts with Ok R => Some R | Error _ => None end)
  = Some [(0, Some 0); (1, Some 1); (2, Some 2); (3, None)] /\
  option_map ids_of (match id_match (ex_ests ++ [mkObj (Some 9) 1 0 true false]) ex_gts with Ok R => Some R | Error _ => None end)
  = Some [(0, Some 0); (1, Some 1); (2, Some 2)].
Proof. split; vm_compute; reflexivity. Qed.

(* the hypotheses are needed: a duplicated (uuid, camera) makes list.remove fail, a missing uuid raises *)
Example C11_malformed_inputs_are_errors :
  id_match [mkObj (Some 1) 1 0 true false] [mkObj (Some 1) 1 0 true false; mkObj (Some 1) 1 1 true false] = Error ErrRemove /\
  id_match [mkObj None 1 0 true false] [mkObj (Some 1) 1 0 true false] = Error ErrUuidNone /\
  tlr_match false [mkObj (Some 1) 1 0 true false] [mkObj None 1 0 true false] = Error ErrUuidNone.
Proof. repeat split; vm_compute; reflexivity. Qed.

(* scores on the traffic-light example: 2 of 3 pairs are label-correct *)
Example C11_nonvacuous_scores :
  match tlr_match false ex_ests ex_gts with
  | Ok R => let a := classification_accuracy R (length ex_gts) in
            (a_tp a, a_fp a) = (2, 1) /\
            score_close (a_accuracy a) (Some (Some (1 # 2)%Q)) = true /\
            score_close (a_precision a) (Some (Some (2 # 3)%Q)) = true /\
            score_close (a_f1 a) (Some (Some (2 # 3)%Q)) = true
  | Error _ => False
  end.
Proof. vm_compute. repeat split; reflexivity. Qed.
