(* C14 -- Label names convert totally, case-insensitively and consistently with merging.
   Tables and loop shapes are regenerated from common/label.py (Gen/LabelTables.v);
   [label_table_ok] is defined in Proofs/LabelProofs.v and quantifies over ALL strings. *)
From Coq Require Import String List Bool.
From PE Require Import Base.StrUtil Gen.LabelTables Model.Label Proofs.LabelProofs.
Import ListNotations.
Open Scope string_scope.

Theorem C14_autoware_nomerge : label_table_ok AutowareLabel_members autoware_pairs_nomerge.
Proof. apply label_table_check_sound. vm_compute. reflexivity. Qed.
Print Assumptions C14_autoware_nomerge.

Theorem C14_autoware_merge : label_table_ok AutowareLabel_members autoware_pairs_merge.
Proof. apply label_table_check_sound. vm_compute. reflexivity. Qed.
Print Assumptions C14_autoware_merge.

Theorem C14_traffic_light_classification :
  label_table_ok TrafficLightLabel_members traffic_light_pairs_classification.
Proof. apply label_table_check_sound. vm_compute. reflexivity. Qed.
Print Assumptions C14_traffic_light_classification.

Theorem C14_traffic_light_other : label_table_ok TrafficLightLabel_members traffic_light_pairs_other.
Proof. apply label_table_check_sound. vm_compute. reflexivity. Qed.
Print Assumptions C14_traffic_light_other.

(* with merging enabled the result is exactly the merged image (truck, bus -> car;
   motorbike -> bicycle) of the result without merging, for every string *)
Theorem C14_merge_consistent : forall s,
  convert_label autoware_pairs_merge s = merge_map (convert_label autoware_pairs_nomerge s).
Proof. apply merge_consistent_from_tables. vm_compute. reflexivity. Qed.
Print Assumptions C14_merge_consistent.

(* every converter (family x merge x task) uses one of the four tables above *)
Theorem C14_every_converter : forall f merge task,
  label_table_ok (members_of f) (table_of f merge task).
Proof.
  intros [] merge task; simpl.
  - destruct merge; [apply C14_autoware_merge|apply C14_autoware_nomerge].
  - destruct (String.eqb task traffic_light_classification_task);
      [apply C14_traffic_light_classification|apply C14_traffic_light_other].
Qed.
Print Assumptions C14_every_converter.

Example C14_nonvacuous :
  In ("CAR", "vehicle.car") autoware_pairs_nomerge /\
  convert_label autoware_pairs_nomerge "VEHICLE.Car" = "CAR" /\
  convert_label autoware_pairs_nomerge "truck" = "TRUCK" /\
  convert_label autoware_pairs_merge "truck" = "CAR" /\
  convert_label autoware_pairs_merge "no such name" = "UNKNOWN".
Proof. repeat split; try reflexivity. vm_compute. tauto. Qed.
