(* C20 -- Configuration strings parse to the enum member they name.
   The enums and the *shape* of each parser are regenerated from /repo (Gen/Enums.v); the
   statements below are about the interpreter of those shapes (Model/EnumParse.v).
   Only statements, `exact`/computation over the generated finite tables, Print Assumptions. *)
From Coq Require Import String List Bool.
From PE Require Import Base.StrUtil Model.EnumParse Proofs.EnumParseProofs Gen.Enums.
Import ListNotations.
Open Scope string_scope.

(* [faithful E P c m] (Proofs/EnumParseProofs.v):
     - for every member (k, v) of E and every documented spelling s of v (exact, or any letter
       case), parsing s gives the member k itself (not its name, not None);
     - every other string gets the documented miss behaviour m (an exception, or the alias table
       with its fallback member). *)

Theorem C20_evaluation_task_from_value :
  faithful EvaluationTask_enum EvaluationTask_from_value Exact MissRaise.
Proof. apply faithful_check_sound. vm_compute. reflexivity. Qed.
Print Assumptions C20_evaluation_task_from_value.

Theorem C20_set_task : faithful EvaluationTask_enum set_task Exact MissRaise.
Proof. apply faithful_check_sound. vm_compute. reflexivity. Qed.
Print Assumptions C20_set_task.

(* documented: "This method allow that input value is upper case" *)
Theorem C20_frame_id_from_value : faithful FrameID_enum FrameID_from_value AnyCase MissRaise.
Proof. apply faithful_check_sound. vm_compute. reflexivity. Qed.
Print Assumptions C20_frame_id_from_value.

Theorem C20_visibility_from_value : faithful Visibility_enum Visibility_from_value Exact MissAlias.
Proof. apply faithful_check_sound. vm_compute. reflexivity. Qed.
Print Assumptions C20_visibility_from_value.

(* the documented aliases and the documented fallback for anything else *)
Definition documented_visibility_aliases : list (string * string) :=
  [("v0-40", "NONE"); ("v40-60", "PARTIAL"); ("v60-80", "MOST"); ("v80-100", "FULL")].

Theorem C20_visibility_alias_table :
  (forall a k, In (a, k) documented_visibility_aliases ->
     alias_lookup (aliases Visibility_enum) a = Some k) /\
  alias_default Visibility_enum = Some "UNAVAILABLE" /\
  (forall a k, In (a, k) (aliases Visibility_enum) -> In k (map fst (members Visibility_enum))) /\
  (forall a k v, In (a, k) (aliases Visibility_enum) -> In (k, v) (members Visibility_enum) ->
     ~ In a (map snd (members Visibility_enum))).
Proof.
  split; [|split; [|split]].
  - assert (H : forallb (fun ak => match alias_lookup (aliases Visibility_enum) (fst ak) with
                                   | Some k => String.eqb k (snd ak) | None => false end)
                        documented_visibility_aliases = true) by (vm_compute; reflexivity).
    rewrite forallb_forall in H. intros a k Hin. specialize (H _ Hin). cbv beta in H. cbn [fst snd] in H.
    destruct (alias_lookup _ a); [apply String.eqb_eq in H; congruence|discriminate].
  - vm_compute. reflexivity.
  - assert (H : forallb (fun ak => mem_str (snd ak) (map fst (members Visibility_enum)))
                        (aliases Visibility_enum) = true) by (vm_compute; reflexivity).
    rewrite forallb_forall in H. intros a k Hin. apply mem_str_In. apply (H _ Hin).
  - assert (H : forallb (fun ak => negb (mem_str (fst ak) (map snd (members Visibility_enum))))
                        (aliases Visibility_enum) = true) by (vm_compute; reflexivity).
    rewrite forallb_forall in H. intros a k v Hin _ Hm. specialize (H _ Hin). cbv beta in H. cbn [fst snd] in H.
    apply mem_str_In in Hm. rewrite Hm in H. discriminate.
Qed.
Print Assumptions C20_visibility_alias_table.

Theorem C20_sensor_modality_from_value :
  faithful SensorModality_enum SensorModality_from_value Exact MissRaise.
Proof. apply faithful_check_sound. vm_compute. reflexivity. Qed.
Print Assumptions C20_sensor_modality_from_value.

Theorem C20_shape_type_from_value : faithful ShapeType_enum ShapeType_from_value Exact MissRaise.
Proof. apply faithful_check_sound. vm_compute. reflexivity. Qed.
Print Assumptions C20_shape_type_from_value.

(* documented: the name is upper-cased first, so any letter case of a member name is accepted *)
Theorem C20_matching_label_policy_from_str :
  faithful MatchingLabelPolicy_enum MatchingLabelPolicy_from_str AnyCase MissRaise.
Proof. apply faithful_check_sound. vm_compute. reflexivity. Qed.
Print Assumptions C20_matching_label_policy_from_str.

(* objects that accept an enum-or-string argument behave identically for both spellings *)
Theorem C20_shape_str_or_enum : forall k v,
  In (k, v) (members ShapeType_enum) ->
  enum_or_str ShapeType_enum ShapeType_from_value Shape_init_str_branch (inl v)
  = enum_or_str ShapeType_enum ShapeType_from_value Shape_init_str_branch (inr k).
Proof.
  intros k v Hin. change Shape_init_str_branch with true.
  apply (enum_or_str_equiv _ _ Exact MissRaise k v v C20_shape_type_from_value Hin). reflexivity.
Qed.
Print Assumptions C20_shape_str_or_enum.

Theorem C20_transform_key_str_or_enum : forall k v s,
  In (k, v) (members FrameID_enum) -> lower v = lower s ->
  enum_or_str FrameID_enum FrameID_from_value TransformKey_init_str_branch (inl s)
  = enum_or_str FrameID_enum FrameID_from_value TransformKey_init_str_branch (inr k).
Proof.
  intros k v s Hin Hs. change TransformKey_init_str_branch with true.
  apply (enum_or_str_equiv _ _ AnyCase MissRaise k v s C20_frame_id_from_value Hin). exact Hs.
Qed.
Print Assumptions C20_transform_key_str_or_enum.

(* the whole property *)
Definition C20_statement : Prop :=
  faithful EvaluationTask_enum EvaluationTask_from_value Exact MissRaise /\
  faithful EvaluationTask_enum set_task Exact MissRaise /\
  faithful FrameID_enum FrameID_from_value AnyCase MissRaise /\
  faithful Visibility_enum Visibility_from_value Exact MissAlias /\
  faithful SensorModality_enum SensorModality_from_value Exact MissRaise /\
  faithful ShapeType_enum ShapeType_from_value Exact MissRaise /\
  faithful MatchingLabelPolicy_enum MatchingLabelPolicy_from_str AnyCase MissRaise /\
  Shape_init_str_branch = true /\ TransformKey_init_str_branch = true.

Theorem C20_all : C20_statement.
Proof.
  repeat split;
    first [ apply C20_evaluation_task_from_value | apply C20_set_task | apply C20_frame_id_from_value
          | apply C20_visibility_from_value | apply C20_sensor_modality_from_value
          | apply C20_shape_type_from_value | apply C20_matching_label_policy_from_str ].
Qed.
Print Assumptions C20_all.

(* non-vacuity: the tables are not empty and the interesting branches are exercised *)
Example C20_nonvacuous_members :
  members EvaluationTask_enum <> [] /\ members FrameID_enum <> [] /\ members Visibility_enum <> []
  /\ members SensorModality_enum <> [] /\ members ShapeType_enum <> []
  /\ members MatchingLabelPolicy_enum <> [].
Proof. repeat split; discriminate. Qed.

Example C20_nonvacuous_case_variant :
  exists k v, In (k, v) (members FrameID_enum) /\ lower v <> v
              /\ run_parser FrameID_enum FrameID_from_value (lower v) = Member k.
Proof. exists "RADAR_BACK", "RADAR_BACK". split; [vm_compute; tauto|]. split; [discriminate|reflexivity]. Qed.

Example C20_nonvacuous_non_member :
  run_parser EvaluationTask_enum set_task "zzz" = Raises /\
  run_parser Visibility_enum Visibility_from_value "v0-40" = Member "NONE" /\
  run_parser Visibility_enum Visibility_from_value "zzz" = Member "UNAVAILABLE".
Proof. repeat split; reflexivity. Qed.
