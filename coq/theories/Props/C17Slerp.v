(* C17, the rotation clause: "every object present in both neighbours lies on the ... shortest rotation arc between its two
   poses at the proportional time (reproducing a neighbour exactly at that neighbour's own timestamp)".

   Statements about pyquaternion's slerp as a function over the REAL numbers (Model/SlerpR.v: sign flip, the 0.9995 switch to
   normalised linear interpolation, the sine formula), the function common/geometry.py calls for object orientations
   (interpolate_quaternion) and for the ego pose (interpolate_homogeneous_matrix).  These are the only theorems of the
   development that are not closed under the global context: they depend on the axioms of the standard library's real numbers
       ClassicalDedekindReals.sig_forall_dec, ClassicalDedekindReals.sig_not_dec, FunctionalExtensionality.functional_extensionality_dep
   and on excluded middle, Classical_Prop.classic (used by the library's trigonometry)
   (what Print Assumptions reports below; the harness accepts exactly these four for this file and nothing else).
   The tie of this model to the code is numerical: harness/props/C17.py compares the orientation the implementation returns
   with [yaw_interp] (Model/Lookup.v), and C17_yaw_interp_is_slerp proves that specification equal to the slerp formula. *)
From Coq Require Import QArith Qreals ZArith.
From PE Require Import Model.Lookup Model.SlerpR Proofs.SlerpR Proofs.SlerpLookup.
From Coq Require Import Reals.
Open Scope R_scope.

(* the result is a unit quaternion whatever the inputs' relative position and whatever the amount (it is clipped to [0,1]) *)
Theorem C17_slerp_unit : forall q0 q1 a, qunit q0 -> qunit q1 -> qunit (slerp q0 q1 a).
Proof. exact slerp_unit. Qed.
Print Assumptions C17_slerp_unit.

(* reproducing a neighbour at its own stamp: amount 0 gives the first pose (as a rotation: the quaternion or its opposite,
   which is the same rotation), amount 1 gives the second quaternion itself *)
Theorem C17_slerp_reproduces_neighbours : forall q0 q1, qunit q0 -> qunit q1 ->
  same_rotation (slerp q0 q1 0) q0 /\ slerp q0 q1 1 = q1.
Proof. intros q0 q1 H0 H1. split; [apply slerp_start_same_rotation|apply slerp_end]; assumption. Qed.
Print Assumptions C17_slerp_reproduces_neighbours.

(* shortest arc at the proportional time, for ANY two unit quaternions (any rotation axes), sine branch: with
   theta0 = acos |<q0, q1>| -- at most pi/2, i.e. a rotation by at most pi: the shorter way -- the result makes the angle
   t theta0 with the start and (1 - t) theta0 with the end *)
Theorem C17_slerp_proportional_arc : forall q0 q1 t, qunit q0 -> qunit q1 -> 0 <= t <= 1 ->
  flip_dot q0 q1 <= slerp_switch ->
  let th0 := acos (flip_dot q0 q1) in
  0 < th0 <= PI / 2 /\
  qdot (flip_start q0 q1) (slerp q0 q1 t) = cos (t * th0) /\
  qdot (slerp q0 q1 t) q1 = cos ((1 - t) * th0).
Proof. exact slerp_sine_branch_arc. Qed.
Print Assumptions C17_slerp_proportional_arc.

(* the start slerp works with is the given one as a rotation, and its dot product with the end is the absolute value *)
Theorem C17_slerp_flip : forall q0 q1, qunit q0 -> qunit q1 ->
  same_rotation (flip_start q0 q1) q0 /\ flip_dot q0 q1 = qdot (flip_start q0 q1) q1 /\ 0 <= flip_dot q0 q1 <= 1.
Proof.
  intros q0 q1 H0 H1. split; [apply flip_start_same_rotation|]. split; [apply flip_dot_is_dot|apply flip_dot_range; assumption].
Qed.
Print Assumptions C17_slerp_flip.

(* nearly parallel neighbours (|dot| > 0.9995, less than 3.7 degrees apart): normalised linear interpolation; the result is
   between the two: at least as close to either end as the ends are to each other *)
Theorem C17_slerp_linear_branch_between : forall q0 q1 t, qunit q0 -> qunit q1 -> 0 <= t <= 1 ->
  slerp_switch < flip_dot q0 q1 ->
  flip_dot q0 q1 <= qdot (flip_start q0 q1) (slerp q0 q1 t) /\ flip_dot q0 q1 <= qdot (slerp q0 q1 t) q1.
Proof. exact slerp_linear_branch_between. Qed.
Print Assumptions C17_slerp_linear_branch_between.

(* the sign of either input quaternion (the same rotation) does not matter, except for exactly opposite poses (dot = 0,
   a half turn apart: both arcs are shortest) *)
Theorem C17_slerp_sign_independent : forall q0 q1 a, qdot q0 q1 <> 0 ->
  slerp (qneg q0) q1 a = slerp q0 q1 a /\ slerp q0 (qneg q1) a = qneg (slerp q0 q1 a).
Proof. intros q0 q1 a H. split; [apply slerp_neg_start|apply slerp_neg_end]; exact H. Qed.
Print Assumptions C17_slerp_sign_independent.

(* rotations about z (every object and ego pose the loader yields for a planar scene): for ANY two yaw angles, written
   a1 = a0 + delta + whole turns with -pi < delta < pi the shorter signed arc, slerp is the rotation by a0 + t delta *)
Theorem C17_slerp_yaw_shortest_arc : forall a0 delta (k : Z) t, - PI < delta < PI -> 0 <= t <= 1 ->
  cos (delta / 2) <= slerp_switch ->
  same_rotation (slerp (yawq a0) (yawq (a0 + delta + 2 * PI * IZR k)) t) (yawq (a0 + t * delta)).
Proof. exact slerp_yaw_general. Qed.
Print Assumptions C17_slerp_yaw_shortest_arc.

(* ... and never the long way round: an arc longer than pi is replaced by its complement *)
Theorem C17_slerp_yaw_never_long : forall a0 delta t, PI < delta < 2 * PI -> 0 <= t <= 1 ->
  cos ((delta - 2 * PI) / 2) <= slerp_switch ->
  slerp (yawq a0) (yawq (a0 + delta)) t = yawq (a0 + 2 * PI + t * (delta - 2 * PI)).
Proof. exact slerp_yaw_long_pos. Qed.
Print Assumptions C17_slerp_yaw_never_long.

(* yaw rotations stay yaw rotations in both branches *)
Theorem C17_slerp_yaw_stays_yaw : forall a0 a1 t,
  qx (slerp (yawq a0) (yawq a1) t) = 0 /\ qy (slerp (yawq a0) (yawq a1) t) = 0.
Proof. exact slerp_yaw_stays_yaw. Qed.
Print Assumptions C17_slerp_yaw_stays_yaw.

(* the rational specification the implementation is compared with IS the slerp formula: for the yaw angles (pi-units)
   and stamps of the lookup model, slerp at alpha = (t - t1) / (t2 - t1) is the rotation [yaw_interp] names *)
Theorem C17_yaw_interp_is_slerp : forall (t1 t2 t : Z) (u1 u2 : Q),
  (t1 <= t < t2)%Z ->
  (wrap1 (u2 - u1) < 1)%Q ->
  cos (PI * Q2R (wrap1 (u2 - u1)) / 2) <= slerp_switch ->
  same_rotation (slerp (yawq_pi u1) (yawq_pi u2) (Q2R (alpha t1 t2 t))) (yawq_pi (yaw_interp t1 t2 t u1 u2)).
Proof. exact yaw_interp_is_slerp. Qed.
Print Assumptions C17_yaw_interp_is_slerp.

(* non-vacuity: from 45 degrees to 315 degrees the shorter way passes through 0 at half time *)
Example C17_slerp_nonvacuous :
  same_rotation (slerp (yawq_pi (1 # 4)) (yawq_pi (7 # 4)) (Q2R (alpha 0 10 5))) (yawq_pi (yaw_interp 0 10 5 (1 # 4) (7 # 4)))
  /\ (yaw_interp 0 10 5 (1 # 4) (7 # 4) == 0)%Q.
Proof. exact yaw_interp_is_slerp_example. Qed.
