(* C16 -- Loading a dataset reproduces its annotations as ground-truth frames.

   [load d task frame_id merge] (Model/Dataset.v) models
       load_all_datasets([root], task, LabelConverter(task, merge, "autoware"), frame_id, False)
   on the ten tables [d] of a T4 / nuScenes dataset, INCLUDING the nuscenes-devkit calls it makes
   (modelled from the devkit's source; the tie to the real code is the correspondence of
   harness/props/C16.py, the weakest of all properties: see its level_note).

   Vocabulary (definitions in Model/Dataset.v and Proofs/DatasetProofs.v):
     annotations_of d s      the annotations of sample s, in the order of the sample_annotation table
     decimal n               str(n)
     key_lidar_of d s sd     sd is a key-frame sample_data of s whose sensor channel is LIDAR_TOP / LIDAR_CONCAT
     ego2map_of ego          the rigid transform (rotation, translation of the ego pose) BASE_LINK -> MAP
     sensor2ego_of cs src    the rigid transform of a calibrated sensor, src -> BASE_LINK
     apply_pose T (p, q)     (R(T) p + t(T), rot(T) * q)            inv T   the inverse rigid transform
     pose_eq                 component-wise == on position and quaternion
     prev_walk d a hs        hs = [prev(a); prev(prev(a)); ...]
     ann_time d a t          t is the timestamp of the sample of annotation a
     walk_stops d t0 lst     lst has no `prev`, or its `prev` is 3.15 s or more before t0
     wf d                    boolean well-formedness: unique tokens, references resolve, every sample
                             has a key-frame lidar sample_data, unit quaternions, an instance is
                             annotated at most once per sample, `prev` leads to the same instance in a
                             strictly earlier sample
   All theorems quantify over ALL datasets (any number of samples, sensors, annotations), both
   frame ids, the three tasks and both merge flags. *)
From Coq Require Import QArith ZArith List String Bool.
From PE Require Import Base.QUtil Base.StrUtil Model.EnumParse Gen.Enums Gen.LabelTables Model.Label
                       Model.Transform Model.Dataset Proofs.LabelProofs Proofs.DatasetProofs.
Import ListNotations.
Open Scope string_scope.

(* ---- frames ---------------------------------------------------------------------------------- *)
(* one frame per sample, in the order of the sample TABLE (not of the prev/next chain, not of the
   timestamps), named by its index, with one object per annotation of the sample *)
Theorem C16_one_frame_per_sample_in_order : forall d tk fid merge fs,
  load d tk fid merge = Ok fs ->
  List.length fs = List.length (samples d) /\
  forall n s, nth_error (samples d) n = Some s ->
    exists f, nth_error fs n = Some f /\ f_name f = decimal n /\ f_time f = s_timestamp s /\
              List.length (f_objects f) = List.length (annotations_of d s).
Proof. exact one_frame_per_sample_in_order. Qed.
Print Assumptions C16_one_frame_per_sample_in_order.

Theorem C16_frame_timestamp : forall d tk fid merge fs,
  load d tk fid merge = Ok fs -> map f_time fs = map s_timestamp (samples d).
Proof. exact frame_timestamp. Qed.
Print Assumptions C16_frame_timestamp.

Theorem C16_frame_names : forall d tk fid merge fs,
  load d tk fid merge = Ok fs -> map f_name fs = map decimal (seq 0 (List.length (samples d))).
Proof. exact frame_names. Qed.
Print Assumptions C16_frame_names.

(* ---- objects --------------------------------------------------------------------------------- *)
(* the j-th object of the n-th frame is made from the j-th annotation of the n-th sample and carries
   its instance token, the label of the instance's category name (through LabelConverter, C14),
   the attribute names, the (width, length, height) size, the lidar point count, the visibility
   (through Visibility.from_value, C20), the sample's timestamp and the requested frame id *)
Theorem C16_objects_are_annotations : forall d tk fid merge fs,
  load d tk fid merge = Ok fs ->
  forall n s f, nth_error (samples d) n = Some s -> nth_error fs n = Some f ->
    List.length (f_objects f) = List.length (annotations_of d s) /\
    forall j a o, nth_error (annotations_of d s) j = Some a -> nth_error (f_objects f) j = Some o ->
      o_ann o = a_token a /\
      o_uuid o = a_instance a /\
      (exists inst cat, In inst (instances d) /\ i_token inst = a_instance a /\
                        In cat (categories d) /\ c_token cat = i_category inst /\
                        o_name o = c_name cat /\
                        o_label o = convert_label (table_of Autoware merge "") (c_name cat)) /\
      Forall2 (fun t nm => exists at_, In at_ (attributes d) /\ at_token at_ = t /\ nm = at_name at_)
              (a_attrs a) (o_attrs o) /\
      o_size o = a_size a /\
      o_pts o = a_pts a /\
      match visibilities d with
      | [] => o_vis o = None
      | _ => exists r, In r (visibilities d) /\ v_token r = a_vis a /\
                       o_vis o = Some (run_parser Visibility_enum Visibility_from_value (v_level r))
      end /\
      o_time o = s_timestamp s /\ o_frame o = fid.
Proof. exact objects_are_annotations. Qed.
Print Assumptions C16_objects_are_annotations.

(* what the two conversions mean (consequences of C14 / C20 on the regenerated tables): a registered
   category name gives its table label whatever its letter case, any other name UNKNOWN, merging is
   the documented map; a visibility level always becomes a member of the enum *)
Theorem C16_label_conversion : forall merge,
  label_table_ok AutowareLabel_members (table_of Autoware merge "") /\
  forall name, convert_label (table_of Autoware true "") name
               = merge_map (convert_label (table_of Autoware false "") name).
Proof.
  intros merge. split.
  - destruct merge; apply label_table_check_sound; vm_compute; reflexivity.
  - apply merge_consistent_from_tables. vm_compute. reflexivity.
Qed.
Print Assumptions C16_label_conversion.

Theorem C16_visibility_is_member : forall level,
  exists k, run_parser Visibility_enum Visibility_from_value level = Member k /\
            In k (map fst (members Visibility_enum)).
Proof. exact visibility_is_member. Qed.
Print Assumptions C16_visibility_is_member.

(* ---- poses ----------------------------------------------------------------------------------- *)
(* map frame: exactly the annotated global pose *)
Theorem C16_map_pose_is_global_pose : forall d tk merge fs,
  load d tk MapFrame merge = Ok fs ->
  forall n s f, nth_error (samples d) n = Some s -> nth_error fs n = Some f ->
  forall j a o, nth_error (annotations_of d s) j = Some a -> nth_error (f_objects f) j = Some o ->
    o_pos o = a_trans a /\ o_ori o = a_rot a.
Proof. exact map_pose_is_global_pose. Qed.
Print Assumptions C16_map_pose_is_global_pose.

(* base_link frame: the annotated pose moved by the inverse ego pose of the sample's lidar key frame
   and then by the inverse calibration of that lidar (general statement); with the lidar calibrated
   at the ego origin (T4 data) it is the pose moved by the inverse ego pose *)
Theorem C16_ego_pose_is_inverse_ego_applied : forall d tk merge fs,
  load d tk BaseLink merge = Ok fs ->
  forall n s f, nth_error (samples d) n = Some s -> nth_error fs n = Some f ->
  exists sd ego cs,
    key_lidar_of d s sd /\
    In ego (ego_poses d) /\ e_token ego = sd_ego sd /\
    In cs (calibs d) /\ cs_token cs = sd_cs sd /\
    forall j a o, nth_error (annotations_of d s) j = Some a -> nth_error (f_objects f) j = Some o ->
      (forall src, pose_eq (o_pos o, o_ori o)
                     (apply_pose (inv (sensor2ego_of cs src)) (apply_pose (inv (ego2map_of ego)) (a_trans a, a_rot a)))) /\
      (identity_calibration cs ->
         pose_eq (o_pos o, o_ori o) (apply_pose (inv (ego2map_of ego)) (a_trans a, a_rot a))).
Proof. exact ego_pose_is_inverse_ego_applied. Qed.
Print Assumptions C16_ego_pose_is_inverse_ego_applied.

(* the transform stored with the frame under (BASE_LINK, MAP) is the ego pose of the lidar key frame,
   the same whichever frame id was requested, and it maps the base_link pose of every object onto
   its map pose: position and orientation quaternion component-wise (after the lidar calibration in
   general; directly when the lidar is calibrated at the ego origin) *)
Theorem C16_ego2map_maps_ego_pose_to_map_pose : forall d tk tk' merge merge' fsE fsM,
  wf d = true ->
  load d tk BaseLink merge = Ok fsE -> load d tk' MapFrame merge' = Ok fsM ->
  forall n s fE fM, nth_error (samples d) n = Some s -> nth_error fsE n = Some fE -> nth_error fsM n = Some fM ->
  exists sd ego cs,
    key_lidar_of d s sd /\
    In ego (ego_poses d) /\ e_token ego = sd_ego sd /\ In cs (calibs d) /\ cs_token cs = sd_cs sd /\
    reg_get (f_transforms fE) "BASE_LINK" "MAP" = Some (ego2map_of ego) /\
    reg_get (f_transforms fM) "BASE_LINK" "MAP" = Some (ego2map_of ego) /\
    List.length (f_objects fE) = List.length (f_objects fM) /\
    forall j oE oM, nth_error (f_objects fE) j = Some oE -> nth_error (f_objects fM) j = Some oM ->
      o_ann oE = o_ann oM /\ o_uuid oE = o_uuid oM /\
      (forall src, pose_eq (apply_pose (ego2map_of ego) (apply_pose (sensor2ego_of cs src) (o_pos oE, o_ori oE)))
                           (o_pos oM, o_ori oM)) /\
      (identity_calibration cs -> pose_eq (apply_pose (ego2map_of ego) (o_pos oE, o_ori oE)) (o_pos oM, o_ori oM)).
Proof. exact ego2map_maps_ego_pose_to_map_pose. Qed.
Print Assumptions C16_ego2map_maps_ego_pose_to_map_pose.

(* ---- tracking history ------------------------------------------------------------------------ *)
(* tracking: the history of an object is the chain prev(a), prev(prev(a)), ... of the SAME instance
   (most recent first), each entry carrying the translation / rotation / size stored in that
   annotation (the GLOBAL pose, whichever frame id is requested), all less than 3.15 s older than the
   sample, at most 6, and maximal: the walk ends only at 6 entries, at an annotation without `prev`,
   or when the next one is 3.15 s or more back *)
Theorem C16_tracking_history_is_prev_chain : forall d fid merge fs,
  wf d = true -> load d Tracking fid merge = Ok fs ->
  forall n s f, nth_error (samples d) n = Some s -> nth_error fs n = Some f ->
  forall j a o, nth_error (annotations_of d s) j = Some a -> nth_error (f_objects f) j = Some o ->
  exists hs,
    o_history o = Some (map (fun h => mkPast (a_trans h) (a_rot h) (a_size h) (a_token h)) hs) /\
    prev_walk d a hs /\
    (List.length hs <= 6)%nat /\
    Forall (fun h => In h (anns d) /\ a_instance h = a_instance a /\
                     exists th, ann_time d h th /\ (0 < s_timestamp s - th < 3150000)%Z) hs /\
    (List.length hs = 6%nat \/ walk_stops d (s_timestamp s) (last hs a)).
Proof. exact tracking_history_is_prev_chain. Qed.
Print Assumptions C16_tracking_history_is_prev_chain.

Theorem C16_history_only_for_tracking : forall d tk fid merge fs,
  load d tk fid merge = Ok fs -> tk <> Tracking ->
  forall n s f, nth_error (samples d) n = Some s -> nth_error fs n = Some f ->
  forall j a o, nth_error (annotations_of d s) j = Some a -> nth_error (f_objects f) j = Some o ->
    o_history o = None.
Proof. exact history_only_for_tracking. Qed.
Print Assumptions C16_history_only_for_tracking.

(* ---- non-vacuity ----------------------------------------------------------------------------- *)
(* two samples (table order = reverse time order), LIDAR_CONCAT at the ego origin + a camera, a car
   annotated in both samples (prev link), a pedestrian in the later one only *)
Open Scope Q_scope.
Definition ex_ds : dataset := mkDataset
  [mkSample "s2" 1600000001000000%Z "s1" ""; mkSample "s1" 1600000000000000%Z "" "s2"]
  [mkSD "d1" "s1" "e1" "c_lidar" true; mkSD "d2" "s2" "e2" "c_lidar" true; mkSD "d3" "s2" "e3" "c_cam" true;
   mkSD "d4" "s2" "e3" "c_lidar" false]
  [mkEgo "e1" (mkQuat (3#5) 0 0 (4#5)) (mkVec 10 20 0); mkEgo "e2" (mkQuat 1 0 0 0) (mkVec 12 20 (1#2));
   mkEgo "e3" (mkQuat 0 0 0 1) (mkVec 0 0 0)]
  [mkCS "c_lidar" "sn_lidar" (mkQuat 1 0 0 0) (mkVec 0 0 0); mkCS "c_cam" "sn_cam" (mkQuat (1#2) (1#2) (1#2) (1#2)) (mkVec 1 0 2)]
  [mkSensor "sn_lidar" "LIDAR_CONCAT" "lidar"; mkSensor "sn_cam" "CAM_FRONT" "camera"]
  [mkAnn "a2" "s2" "i_car" "v1" ["at1"] (mkVec 15 24 1) (mkVec 2 (9#2) (3#2)) (mkQuat (4#5) 0 0 (3#5)) "a1" "" 40%Z;
   mkAnn "a3" "s2" "i_ped" "v2" [] (mkVec 8 18 1) (mkVec (1#2) (1#2) (7#4)) (mkQuat 1 0 0 0) "" "" 3%Z;
   mkAnn "a1" "s1" "i_car" "v2" [] (mkVec 13 24 1) (mkVec 2 (9#2) (3#2)) (mkQuat 1 0 0 0) "" "a2" 55%Z]
  [mkInst "i_car" "cat_truck"; mkInst "i_ped" "cat_ped"]
  [mkCat "cat_truck" "vehicle.Truck"; mkCat "cat_ped" "human.pedestrian.adult"]
  [mkAttr "at1" "vehicle.moving"]
  [mkVis "v1" "v60-80"; mkVis "v2" "full"].

Example C16_nonvacuous_wellformed : wf ex_ds = true /\ identity_calibration (mkCS "c_lidar" "sn_lidar" (mkQuat 1 0 0 0) (mkVec 0 0 0)).
Proof. split; [vm_compute; reflexivity|]. unfold identity_calibration, qeq, veq; simpl. repeat split; reflexivity. Qed.

(* what is loaded: frames in table order, labels (merge on/off, unregistered name), visibility (alias
   and plain level), the base_link pose of the car in sample s1 (ego yaw: (3/5, 4/5) quaternion),
   the tracking history of the car in s2 *)
Example C16_nonvacuous_load :
  match load ex_ds Tracking BaseLink true, load ex_ds Detection MapFrame false with
  | Ok [f2; f1], Ok [g2; g1] =>
      map f_name [f2; f1] = ["0"; "1"] /\ map f_time [f2; f1] = [1600000001000000%Z; 1600000000000000%Z] /\
      map o_uuid (f_objects f2) = ["i_car"; "i_ped"] /\ map o_label (f_objects f2) = ["CAR"; "UNKNOWN"] /\
      map o_label (f_objects g2) = ["TRUCK"; "UNKNOWN"] /\
      map o_vis (f_objects g2) = [Some (Member "MOST"); Some (Member "FULL")] /\
      map o_attrs (f_objects g2) = [["vehicle.moving"]; []] /\
      map (fun o => List.length (match o_history o with Some h => h | None => [] end)) (f_objects f2) = [1%nat; 0%nat] /\
      map o_history (f_objects g2) = [None; None] /\
      match f_objects f1, f_objects g1 with
      | [oE], [oM] => o_pos oM = mkVec 13 24 1 /\ veq (o_pos oE) (mkVec 3 (-4) 1)
      | _, _ => False
      end
  | _, _ => False
  end.
Proof. vm_compute. repeat split; try reflexivity. Qed.

(* malformed datasets are rejected the way the implementation rejects them (KeyError / ValueError) *)
Example C16_nonvacuous_errors :
  load (mkDataset (samples ex_ds) (sample_datas ex_ds) [] (calibs ex_ds) (sensors ex_ds) (anns ex_ds) (instances ex_ds)
                  (categories ex_ds) (attributes ex_ds) (visibilities ex_ds)) Detection MapFrame false = Err KeyError /\
  load (mkDataset (samples ex_ds) [] (ego_poses ex_ds) (calibs ex_ds) (sensors ex_ds) (anns ex_ds) (instances ex_ds)
                  (categories ex_ds) (attributes ex_ds) (visibilities ex_ds)) Detection MapFrame false = Err ValueError.
Proof. split; vm_compute; reflexivity. Qed.
