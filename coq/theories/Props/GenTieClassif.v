(* Redundant tie, CLASSIFICATION layer (C11): the scores of evaluation/metrics/classification (ClassificationAccuracy: counting,
   the formulas with their zero guards; ClassificationMetricsScore._summarize) and the identity-based matchers of
   evaluation/result/object_result.py (_get_fp_object_results, _get_object_results_with_id, _get_object_results_for_tlr) are
   re-translated from the Python `ast` on every run (translator/loops_classif.py -> Gen/loops_classif.v) and every theorem below says
   that a generated definition EQUALS the hand-model definition of Model/Classif.v the C11 theorems are about, for ALL inputs (lists of
   any length: the induction is in the loop rules of Proofs/GenTieClassifLemmas.v; one iteration is closed by the tactic [ctie]).

   The generated functions return [res _]: a value, or the CLASS of the exception.  [of_res] embeds the model's result (ErrUuidNone ->
   RuntimeError, ErrRemove -> ValueError); [of_score] embeds the model's scores into the generated floats [fl] (Fin q -> F q, Inf ->
   PInf, NaN -> FNaN); so each equation also says: no ZeroDivisionError / IndexError is ever raised (every division is dominated by
   its guard, `object_results[0]` by the emptiness test).  Every theorem is compiled on its own by harness/lib/core.gen_tie (header +
   block): a theorem about a caller re-establishes the equations of its callees by the scripts of this header. *)
From Coq Require Import List Bool ZArith Arith QArith Lia.
From PE Require Import Base.QUtil Proofs.GenTieClassifLemmas.
From PE Require Model.Classif.
From PE Require Gen.loops_classif.
Import Gen.loops_classif.
Import ListNotations.
Open Scope list_scope.

Ltac script_tp_fp :=
  intros rs; unfold Gen_calculate_tp_fp.f; cbv zeta;
  rewrite loop_tp_fp; [apply bind_ret_pair|]; intros tp fp r; unfold count_step; ctie.
Ltac script_accuracy :=
  intros n g tp; unfold Gen_calculate_accuracy.f, Classif.accuracy_of, Classif.ratio, Qnat; ctie.
Ltac script_precision_recall :=
  intros n g tp; unfold Gen_calculate_precision_recall.f, Classif.ratio, Qnat; cbv zeta; ctie.
Ltac script_f1score :=
  intros p r; unfold Gen_calculate_f1score.f, Classif.f1_accuracy; change (1 ^ 2)%Q with 1%Q; destruct p, r; ctie.
(* the rest of the constructor once `all_object_results` is known to be `map inl <results>`: its four callees, in whatever order *)
Ltac init_rest H1 H2 H3 H4 :=
  rewrite ?map_length; unfold Classif.classification_accuracy, acc_tuple; rewrite H1; cbn [bind];
  destruct (Classif.tp_fp _ 0 0) as [tp fp];
  repeat (cbn [bind Classif.a_num_res Classif.a_num_gt Classif.a_tp Classif.a_fp Classif.a_accuracy Classif.a_precision Classif.a_recall Classif.a_f1];
          first [rewrite H2 | rewrite H3 | rewrite H4]);
  reflexivity.
Ltac script_fp :=
  intros es; unfold Gen__get_fp_object_results.f; cbv zeta; rewrite loop_fp; [reflexivity|]; intros acc e; reflexivity.
(* one iteration of a matching loop = the model's step; the inner loop = Classif.inner; the outer loop = Classif.outer *)
Ltac matching_loop guard cnd gs :=
  rewrite (loop_outer guard cnd gs);
  [ | let e := fresh "e" in intros ? ? ? e; cbn [bind];
      rewrite (loop_inner guard cnd e);
      [ apply bind_ret_triple
      | intros [[? ?] ?] ?; cbn [bind];
        unfold inner_step, Classif.uuid_is_none, Classif.cond_id, Classif.cond_label, Classif.uuid_eqb, Classif.cam_eqb, Classif.label_eqb;
        ctie
      | reflexivity ]
    | reflexivity ].

(* ---- ClassificationAccuracy.calculate_tp_fp = Classif.tp_fp (TP iff is_label_correct, FP otherwise; nothing is skipped) ---------------- *)
Theorem GenTie_calculate_tp_fp :
  forall rs : list Classif.result, Gen_calculate_tp_fp.f (map inl rs) = Ok (Classif.tp_fp rs 0 0).
Proof. script_tp_fp. Qed.
Print Assumptions GenTie_calculate_tp_fp.

(* outside: an element that is itself a list (a nested list that was not flattened) -- AttributeError, whatever precedes it *)
Theorem GenTie_calculate_tp_fp_outside :
  forall (xs : list dyn) (l : list Classif.result), In (inr l) xs -> Gen_calculate_tp_fp.f xs = Err AttributeError.
Proof.
  intros xs l Hin. unfold Gen_calculate_tp_fp.f. cbv zeta.
  rewrite loop_tp_fp_outside with (l := l); [reflexivity| | | |exact Hin].
  - intros tp fp r. unfold count_step. ctie.
  - reflexivity.
  - reflexivity.
Qed.
Print Assumptions GenTie_calculate_tp_fp_outside.

Example GenTie_calculate_tp_fp_nonvacuous :
  let o l := (0%nat, Classif.mkObj (Some 1%nat) 0 l false false) in
  let fpgt := (0%nat, Classif.mkObj (Some 1%nat) 0 9 false true) in
  let rs := [(o 1%nat, Some (o 1%nat)); (o 1%nat, Some (o 2%nat)); (o 1%nat, None); (o 3%nat, Some fpgt)] in
  Gen_calculate_tp_fp.f (map inl rs) = Ok (2%nat, 2%nat) /\ Classif.tp_fp rs 0 0 = (2%nat, 2%nat) /\
  Gen_calculate_tp_fp.f [inl (o 1%nat, None); inr []] = Err AttributeError.
Proof. vm_compute. repeat split. Qed.

(* ---- calculate_accuracy = Classif.accuracy_of: TP / (results + GT - TP), inf exactly when that integer is 0 --------------------------- *)
Theorem GenTie_calculate_accuracy :
  forall n g tp : nat, Gen_calculate_accuracy.f n g tp = Ok (of_score (Classif.accuracy_of n g tp)).
Proof. script_accuracy. Qed.
Print Assumptions GenTie_calculate_accuracy.

Example GenTie_calculate_accuracy_nonvacuous :
  rmap fred (Gen_calculate_accuracy.f 3 2 1) = Ok (F (1 # 4)) /\ Gen_calculate_accuracy.f 0 0 0 = Ok PInf /\
  Gen_calculate_accuracy.f 1 1 2 = Ok PInf /\                      (* TP beyond both counts: the guard is on the difference *)
  rmap fred (Gen_calculate_accuracy.f 1 1 3) = Ok (F (- (3 # 1))) /\           (* ... and a negative denominator is divided by *)
  Classif.accuracy_of 3 2 1 = Classif.Fin (1 # 4).
Proof. vm_compute. repeat split. Qed.

(* ---- calculate_precision_recall: precision = TP / RESULTS (inf iff there is no result), recall = TP / GT (inf iff no GT) ------------- *)
Theorem GenTie_calculate_precision_recall :
  forall n g tp : nat,
    Gen_calculate_precision_recall.f n g tp =
      Ok (of_score (Classif.ratio tp (Z.of_nat n)), of_score (Classif.ratio tp (Z.of_nat g))).
Proof. script_precision_recall. Qed.
Print Assumptions GenTie_calculate_precision_recall.

Example GenTie_calculate_precision_recall_nonvacuous :
  rmap fred2 (Gen_calculate_precision_recall.f 4 2 1) = Ok (F (1 # 4), F (1 # 2)) /\
  rmap fred2 (Gen_calculate_precision_recall.f 0 2 0) = Ok (PInf, F 0) /\ rmap fred2 (Gen_calculate_precision_recall.f 3 0 0) = Ok (F 0, PInf).
Proof. vm_compute. repeat split. Qed.

(* ---- calculate_f1score (beta = 1.0, its default) = Classif.f1_accuracy: inf when either input is inf or when p + r == 0 ------------- *)
Theorem GenTie_calculate_f1score :
  forall p r : Classif.score, Gen_calculate_f1score.f (of_score p) (of_score r) 1 = Ok (of_score (Classif.f1_accuracy p r)).
Proof. script_f1score. Qed.
Print Assumptions GenTie_calculate_f1score.

(* outside (another beta, finite inputs; an input that is -inf): the general formula; -inf gives nan unless the other is +inf *)
Theorem GenTie_calculate_f1score_outside :
  (forall (p r beta : Q),
     Gen_calculate_f1score.f (F p) (F r) beta =
       Ok (if Qeqb (beta ^ 2 * p + r) 0 then PInf else F ((1 + beta ^ 2) * p * r / (beta ^ 2 * p + r)))%Q) /\
  (forall r : fl, Gen_calculate_f1score.f NInf r 1 = Ok (match r with PInf => PInf | _ => FNaN end)) /\
  (forall p : fl, Gen_calculate_f1score.f p NInf 1 = Ok (match p with PInf => PInf | _ => FNaN end)).
Proof.
  split; [|split].
  - intros p r beta. unfold Gen_calculate_f1score.f. ctie.
  - intros r. unfold Gen_calculate_f1score.f. change (1 ^ 2)%Q with 1%Q. destruct r; ctie.
  - intros p. unfold Gen_calculate_f1score.f. change (1 ^ 2)%Q with 1%Q. destruct p; ctie.
Qed.
Print Assumptions GenTie_calculate_f1score_outside.

Example GenTie_calculate_f1score_nonvacuous :
  rmap fred (Gen_calculate_f1score.f (F (1 # 2)) (F (1 # 2)) 1) = Ok (F (1 # 2)) /\ Gen_calculate_f1score.f (F 0) (F 0) 1 = Ok PInf /\
  Gen_calculate_f1score.f PInf (F 1) 1 = Ok PInf /\ Gen_calculate_f1score.f FNaN (F 1) 1 = Ok FNaN /\
  fred (of_score (Classif.f1_accuracy (Classif.Fin (1 # 2)) (Classif.Fin (1 # 2)))) = F (1 # 2).
Proof. vm_compute. repeat split. Qed.

(* ---- ClassificationAccuracy.__init__ = Classif.classification_accuracy: a flat list of results as it is, a (non-empty) list of lists
   flattened in order; the eight attributes ------------------------------------------------------------------------------------------------ *)
Theorem GenTie_ClassificationAccuracy___init__ :
  forall (num_ground_truth : nat),
    (forall rs : list Classif.result,
       Gen_ClassificationAccuracy___init__.f (map inl rs) num_ground_truth = Ok (acc_tuple (Classif.classification_accuracy rs num_ground_truth))) /\
    (forall rss : list (list Classif.result), rss <> [] ->
       Gen_ClassificationAccuracy___init__.f (map inr rss) num_ground_truth =
         Ok (acc_tuple (Classif.classification_accuracy (concat rss) num_ground_truth))).
Proof.
  assert (H1 : forall rs, Gen_calculate_tp_fp.f (map inl rs) = Ok (Classif.tp_fp rs 0 0)) by script_tp_fp.
  assert (H2 : forall n g tp, Gen_calculate_accuracy.f n g tp = Ok (of_score (Classif.accuracy_of n g tp))) by script_accuracy.
  assert (H3 : forall n g tp, Gen_calculate_precision_recall.f n g tp =
                 Ok (of_score (Classif.ratio tp (Z.of_nat n)), of_score (Classif.ratio tp (Z.of_nat g)))) by script_precision_recall.
  assert (H4 : forall p r, Gen_calculate_f1score.f (of_score p) (of_score r) 1 = Ok (of_score (Classif.f1_accuracy p r))) by script_f1score.
  intros g. split.
  - intros rs. unfold Gen_ClassificationAccuracy___init__.f. cbv zeta.
    match goal with |- context [Nat.eqb (length ?X) 0] => destruct (head_flat X rs eq_refl) as [E|[r [E1 E2]]] end;
      rewrite ?E, ?E1, ?E2; cbn [bind dyn_is_list]; init_rest H1 H2 H3 H4.
  - intros rss Hne. destruct rss as [|l rss]; [congruence|].
    unfold Gen_ClassificationAccuracy___init__.f. cbv zeta. cbn [map length Nat.eqb nth_error bind dyn_is_list].
    change (inr l :: map inr rss) with (map (@inr Classif.result (list Classif.result)) (l :: rss)).
    rewrite loop_flatten; [|reflexivity]. cbn [bind app]. init_rest H1 H2 H3 H4.
Qed.
Print Assumptions GenTie_ClassificationAccuracy___init__.

(* outside: results and lists mixed.  Only the FIRST element decides which reading is taken: a list after a first result is read as a
   result (AttributeError), a result after a first list is added to a list (TypeError) *)
Theorem GenTie_ClassificationAccuracy___init___outside :
  forall (num_ground_truth : nat) (x : dyn) (xs : list dyn),
    (forall r l, x = inl r -> In (inr l) xs -> Gen_ClassificationAccuracy___init__.f (x :: xs) num_ground_truth = Err AttributeError) /\
    (forall l r, x = inr l -> In (inl r) xs -> Gen_ClassificationAccuracy___init__.f (x :: xs) num_ground_truth = Err TypeError).
Proof.
  intros g x xs. split.
  - intros r l -> Hin. unfold Gen_ClassificationAccuracy___init__.f. cbv zeta. cbn [length Nat.eqb nth_error bind dyn_is_list].
    unfold Gen_calculate_tp_fp.f. cbv zeta.
    rewrite loop_tp_fp_outside with (l := l); [reflexivity| | | |right; exact Hin].
    + intros tp fp r0. unfold count_step. ctie.
    + reflexivity.
    + reflexivity.
  - intros l r -> Hin. unfold Gen_ClassificationAccuracy___init__.f. cbv zeta. cbn [length Nat.eqb nth_error bind dyn_is_list].
    rewrite loop_flatten_outside with (r := r); [reflexivity|reflexivity|reflexivity|reflexivity|right; exact Hin].
Qed.
Print Assumptions GenTie_ClassificationAccuracy___init___outside.

Example GenTie_ClassificationAccuracy___init___nonvacuous :
  let o l := (0%nat, Classif.mkObj (Some 1%nat) 0 l false false) in
  let r1 := (o 1%nat, Some (o 1%nat)) in let r2 := (o 1%nat, Some (o 2%nat)) in let r3 := (o 1%nat, None) in
  rmap fred8 (Gen_ClassificationAccuracy___init__.f (map inl [r1; r2; r3]) 2) = Ok (3%nat, 2%nat, 1%nat, 2%nat, F (1 # 4), F (1 # 3), F (1 # 2), F (2 # 5)) /\
  rmap fred8 (Gen_ClassificationAccuracy___init__.f [inr [r1]; inr []; inr [r2; r3]] 2) = Ok (3%nat, 2%nat, 1%nat, 2%nat, F (1 # 4), F (1 # 3), F (1 # 2), F (2 # 5)) /\
  Gen_ClassificationAccuracy___init__.f [] 0 = Ok (0%nat, 0%nat, 0%nat, 0%nat, PInf, PInf, PInf, PInf) /\
  rmap fred8 (Gen_ClassificationAccuracy___init__.f [inl r2] 0) = Ok (1%nat, 0%nat, 0%nat, 1%nat, F 0, F 0, PInf, PInf) /\   (* results, no ground truth *)
  Gen_ClassificationAccuracy___init__.f [inl r1; inr [r2]] 2 = Err AttributeError /\
  Gen_ClassificationAccuracy___init__.f [inr [r1]; inl r2] 2 = Err TypeError.
Proof. vm_compute. repeat split. Qed.

(* ---- ClassificationMetricsScore._summarize = Classif.summarize: the four sums over the per-label accuracies, then accuracy on the
   totals, precision = TP / (TP + FP), recall = TP / GT, and f1 WITHOUT an inf test: an inf precision or recall gives nan ------------------ *)
Theorem GenTie__summarize :
  forall accs : list Classif.accuracy, Gen__summarize.f accs = Ok (score4 (Classif.summarize accs)).
Proof.
  intros accs. unfold Gen__summarize.f. cbv zeta.
  rewrite (loop_sums Classif.a_num_res Classif.a_num_gt Classif.a_tp Classif.a_fp Classif.sum_by); try reflexivity.
  cbn [bind Nat.add]. unfold Classif.summarize, score4, Classif.accuracy_of, Classif.ratio, Classif.f1_summary, Qnat. cbv zeta.
  generalize (Classif.sum_by Classif.a_num_res accs) (Classif.sum_by Classif.a_num_gt accs) (Classif.sum_by Classif.a_tp accs)
             (Classif.sum_by Classif.a_fp accs).
  intros e g t f. ctie.
Qed.
Print Assumptions GenTie__summarize.

Example GenTie__summarize_nonvacuous :
  let a n g tp fp := Classif.mkAcc n g tp fp Classif.NaN Classif.NaN Classif.NaN Classif.NaN in
  rmap fred4 (Gen__summarize.f [a 3 2 1 2; a 1 2 1 0]%nat) = Ok (F (1 # 3), F (1 # 2), F (1 # 2), F (1 # 2)) /\
  Gen__summarize.f [] = Ok (PInf, PInf, PInf, FNaN) /\                          (* f1 of (inf, inf) is nan, not inf *)
  rmap fred4 (Gen__summarize.f [a 2 0 0 2]%nat) = Ok (F 0, F 0, PInf, FNaN) /\               (* results but no ground truth: recall inf, f1 nan *)
  rmap fred4 (Gen__summarize.f [a 0 2 0 0]%nat) = Ok (F 0, PInf, F 0, FNaN) /\               (* ground truth but no result: precision inf, f1 nan *)
  rmap fred4 (Gen__summarize.f [a 2 2 0 2]%nat) = Ok (F 0, F 0, F 0, PInf) /\                (* p + r == 0: the documented inf *)
  fred4 (score4 (Classif.summarize [a 3 2 1 2; a 1 2 1 0]%nat)) = (F (1 # 3), F (1 # 2), F (1 # 2), F (1 # 2)).
Proof. vm_compute. repeat split. Qed.

(* ---- _get_fp_object_results = Classif.fp_results (one result without ground truth per estimate, in order) ------------------------------ *)
Theorem GenTie__get_fp_object_results :
  forall es : list Classif.iobj, Gen__get_fp_object_results.f es = Ok (Classif.fp_results es).
Proof. script_fp. Qed.
Print Assumptions GenTie__get_fp_object_results.

Example GenTie__get_fp_object_results_nonvacuous :
  let o i := (i, Classif.mkObj None 0 1 false false) in
  Gen__get_fp_object_results.f [o 0%nat; o 1%nat] = Ok [(o 0%nat, None); (o 1%nat, None)].
Proof. vm_compute. reflexivity. Qed.

(* ---- _get_object_results_with_id = Classif.id_match ----------------------------------------------------------------------------------------
   every (estimate, ground truth) pair in row-major order over the CALLER's lists: RuntimeError when either uuid is None (tested before
   anything else, for every pair visited); a pair with equal uuid and equal frame_id is appended and both members are removed from the
   copies -- NO membership test, so a second partner of the same estimate raises ValueError from list.remove; the unmatched estimates
   become FP results unless one of them is on the traffic-light camera (then none of them does).  Stated for lists of (identity, facts)
   of any shape and, as its instance, for the model's numbering of the caller's lists *)
Theorem GenTie__get_object_results_with_id :
  (forall es gs : list Classif.iobj,
     Gen__get_object_results_with_id.f es gs =
       of_res (match Classif.outer false Classif.cond_id es gs [] es gs with
               | Classif.Error x => Classif.Error x
               | Classif.Ok (R, E, _) =>
                   if Nat.ltb 0 (length E) && negb (existsb (fun e => Classif.o_tlcam (snd e)) E)
                   then Classif.Ok (R ++ Classif.fp_results E) else Classif.Ok R
               end)) /\
  (forall ests gts : list Classif.obj,
     Gen__get_object_results_with_id.f (Classif.indexed ests) (Classif.indexed gts) = of_res (Classif.id_match ests gts)).
Proof.
  assert (HF : forall es, Gen__get_fp_object_results.f es = Ok (Classif.fp_results es)) by script_fp.
  assert (G : forall es gs : list Classif.iobj,
     Gen__get_object_results_with_id.f es gs =
       of_res (match Classif.outer false Classif.cond_id es gs [] es gs with
               | Classif.Error x => Classif.Error x
               | Classif.Ok (R, E, _) =>
                   if Nat.ltb 0 (length E) && negb (existsb (fun e => Classif.o_tlcam (snd e)) E)
                   then Classif.Ok (R ++ Classif.fp_results E) else Classif.Ok R
               end)).
  { intros es gs. unfold Gen__get_object_results_with_id.f. cbv zeta.
    matching_loop false Classif.cond_id gs.
    apply bind_of_res. intros [[R E] G]. rewrite HF. ctie. }
  split; [exact G|]. intros ests gts. rewrite G. reflexivity.
Qed.
Print Assumptions GenTie__get_object_results_with_id.

Example GenTie__get_object_results_with_id_nonvacuous :
  let o u c l tl := Classif.mkObj u c l tl false in
  let e0 := o (Some 7%nat) 1%nat 1%nat false in let e1 := o (Some 8%nat) 1%nat 1%nat false in
  let g0 := o (Some 8%nat) 1%nat 2%nat false in let g1 := o (Some 7%nat) 2%nat 1%nat false in
  Gen__get_object_results_with_id.f (Classif.indexed [e0; e1]) (Classif.indexed [g0; g1]) =
    Ok [((1%nat, e1), Some (0%nat, g0)); ((0%nat, e0), None)] /\                                  (* e0: same uuid on another camera: FP *)
  Classif.id_match [e0; e1] [g0; g1] = Classif.Ok [((1%nat, e1), Some (0%nat, g0)); ((0%nat, e0), None)] /\
  Gen__get_object_results_with_id.f (Classif.indexed [e0; o None 1%nat 1%nat false]) (Classif.indexed [g0]) = Err RuntimeError /\
  Gen__get_object_results_with_id.f (Classif.indexed [e1]) (Classif.indexed [g0; g0]) = Err ValueError /\      (* two ground truths with its uuid *)
  Gen__get_object_results_with_id.f (Classif.indexed [e1; e1]) (Classif.indexed [g0]) = Err ValueError /\      (* two estimates with one uuid *)
  Gen__get_object_results_with_id.f (Classif.indexed [e0; o (Some 9%nat) 3%nat 1%nat true]) (Classif.indexed [g0]) = Ok [].
Proof. vm_compute. repeat split. Qed.

(* ---- _get_object_results_for_tlr = Classif.tlr_match ------------------------------------------------------------------------------------------
   stage 1 over the CALLER's lists: same label (and same uuid when uuid_matching_first), same frame_id, and both members still in the
   shrinking copies; stage 2 over SNAPSHOTS of what stage 1 left: same uuid, same frame_id, both still in the copies; a None uuid is a
   RuntimeError for every pair VISITED (stage 2 only visits the leftovers); the estimates left over at the end are DROPPED: there is
   no FP remainder in this function *)
Theorem GenTie__get_object_results_for_tlr :
  (forall (uf : bool) (es gs : list Classif.iobj),
     Gen__get_object_results_for_tlr.f es gs uf =
       of_res (match Classif.outer true (Classif.cond_label uf) es gs [] es gs with
               | Classif.Error x => Classif.Error x
               | Classif.Ok (R1, E1, G1) =>
                   match Classif.outer true Classif.cond_id E1 G1 R1 E1 G1 with
                   | Classif.Error x => Classif.Error x
                   | Classif.Ok (R2, _, _) => Classif.Ok R2
                   end
               end)) /\
  (forall (uf : bool) (ests gts : list Classif.obj),
     Gen__get_object_results_for_tlr.f (Classif.indexed ests) (Classif.indexed gts) uf = of_res (Classif.tlr_match uf ests gts)).
Proof.
  assert (G : forall (uf : bool) (es gs : list Classif.iobj),
     Gen__get_object_results_for_tlr.f es gs uf =
       of_res (match Classif.outer true (Classif.cond_label uf) es gs [] es gs with
               | Classif.Error x => Classif.Error x
               | Classif.Ok (R1, E1, G1) =>
                   match Classif.outer true Classif.cond_id E1 G1 R1 E1 G1 with
                   | Classif.Error x => Classif.Error x
                   | Classif.Ok (R2, _, _) => Classif.Ok R2
                   end
               end)).
  { intros uf es gs. unfold Gen__get_object_results_for_tlr.f. cbv zeta.
    matching_loop true (Classif.cond_label uf) gs.
    apply bind_of_res. intros [[R1 E1] G1].
    matching_loop true Classif.cond_id G1.
    apply bind_of_res. intros [[R2 E2] G2]. reflexivity. }
  split; [exact G|]. intros uf ests gts. rewrite G. reflexivity.
Qed.
Print Assumptions GenTie__get_object_results_for_tlr.

Example GenTie__get_object_results_for_tlr_nonvacuous :
  let o u c l := Classif.mkObj u c l true false in
  let e0 := o (Some 7%nat) 1%nat 1%nat in let e1 := o (Some 8%nat) 1%nat 2%nat in let e2 := o (Some 9%nat) 1%nat 5%nat in
  let g0 := o (Some 8%nat) 1%nat 1%nat in let g1 := o (Some 7%nat) 1%nat 3%nat in
  (* label first: e0 takes g0 (label 1) although g1 carries its uuid; stage 2 cannot pair e1 (uuid 8) with g1 (uuid 7); e2 is dropped *)
  Gen__get_object_results_for_tlr.f (Classif.indexed [e0; e1; e2]) (Classif.indexed [g0; g1]) false = Ok [((0%nat, e0), Some (0%nat, g0))] /\
  Classif.tlr_match false [e0; e1; e2] [g0; g1] = Classif.Ok [((0%nat, e0), Some (0%nat, g0))] /\
  (* uuid first: stage 1 needs label AND uuid: nothing; stage 2 pairs by uuid, in the order of the estimates *)
  Gen__get_object_results_for_tlr.f (Classif.indexed [e0; e1; e2]) (Classif.indexed [g0; g1]) true =
    Ok [((0%nat, e0), Some (1%nat, g1)); ((1%nat, e1), Some (0%nat, g0))] /\
  (* two estimates with one uuid: the first takes the ground truth, the second is silently dropped (no ValueError here) *)
  Gen__get_object_results_for_tlr.f (Classif.indexed [e1; e1]) (Classif.indexed [g0]) false = Ok [((0%nat, e1), Some (0%nat, g0))] /\
  Gen__get_object_results_for_tlr.f (Classif.indexed [e0; o None 1%nat 1%nat]) (Classif.indexed [g0]) false = Err RuntimeError.
Proof. vm_compute. repeat split. Qed.
