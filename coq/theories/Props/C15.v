(* C15 -- Configurations are validated; thresholds normalised to one value per label.
   Part 1: common/threshold.py (Model/Threshold.v).  Part 2: configuration acceptance (Model/Config.v).
   Only statements, `exact <lemma>`, Print Assumptions and non-vacuity examples. *)
From Coq Require Import String List Bool Arith.
From PE Require Import Base.QUtil Base.StrUtil Gen.ConfigTables Model.PyVal Model.Threshold Model.Config
                       Proofs.ThresholdProofs Proofs.ConfigProofs.
Import ListNotations.
Open Scope string_scope.
Open Scope nat_scope.

(* Vocabulary (Proofs/ThresholdProofs.v):
     mkseq tup l      = if tup then Tuple l else List l
     bcast r n        = match r with [x] => repeat x n | _ => r end      (singletons broadcast, nothing else changes)
     all_real l       = every item satisfies isinstance(_, Real) (bool counts, as in Python)
     rejected r       = exists e, r = Err e                              (an exception, no value) *)

(* ---- 1. shape: success => exactly one real value per target label *)
Theorem C15_set_thresholds_shape_flat : forall v n w,
  set_thresholds v n false = Ok w ->
  exists tup l, w = mkseq tup l /\ length l = n /\ all_real l = true.
Proof. exact set_thresholds_shape_flat. Qed.
Print Assumptions C15_set_thresholds_shape_flat.

(* ... and the value is a list unless the caller passed a tuple *)
Theorem C15_set_thresholds_flat_is_list : forall v n w,
  set_thresholds v n false = Ok w -> (forall l, v <> Tuple l) -> exists l, w = List l.
Proof. exact set_thresholds_flat_list. Qed.
Print Assumptions C15_set_thresholds_flat_is_list.

Theorem C15_set_thresholds_shape_nested : forall v n w,
  set_thresholds v n true = Ok w ->
  1 <= n /\
  exists rows, w = List (map List rows) /\ rows <> [] /\
               (forall r, In r rows -> length r = n /\ all_real r = true).
Proof. exact set_thresholds_shape_nested. Qed.
Print Assumptions C15_set_thresholds_shape_nested.

(* ---- 2. normalising a normalised value changes nothing (for every configuration the number of
   target labels is >= 1: set_target_lists maps an empty selection to all labels) *)
Theorem C15_set_thresholds_idempotent : forall v n nest w,
  1 <= n -> set_thresholds v n nest = Ok w -> set_thresholds w n nest = Ok w.
Proof. exact set_thresholds_idempotent. Qed.
Print Assumptions C15_set_thresholds_idempotent.

(* the guard is exact: with zero labels the flat normal form [] is itself rejected, and nothing
   nested is accepted at all *)
Theorem C15_zero_labels :
  (set_thresholds (Num 1) 0 false = Ok (List []) /\ set_thresholds (List []) 0 false = Err ThresholdError) /\
  (forall v w, set_thresholds v 0 true <> Ok w).
Proof. exact (conj zero_labels_flat_not_idempotent zero_labels_nested). Qed.
Print Assumptions C15_zero_labels.

(* ---- 3. scalars and singletons broadcast *)
Theorem C15_broadcast_scalar_singleton : forall x n,
  is_real x = true ->
  set_thresholds x n false = Ok (List (repeat x n)) /\
  set_thresholds (List [x]) n false = Ok (List (repeat x n)) /\
  (1 <= n ->
   set_thresholds x n true = Ok (List [List (repeat x n)]) /\
   set_thresholds (List [x]) n true = Ok (List [List (repeat x n)]) /\
   set_thresholds (List [List [x]]) n true = Ok (List [List (repeat x n)])).
Proof. exact broadcast_scalar_singleton. Qed.
Print Assumptions C15_broadcast_scalar_singleton.

Theorem C15_broadcast_value_list : forall l n,
  l <> [] -> all_real l = true -> length l <> n -> 1 <= n ->
  set_thresholds (List l) n true = Ok (List (map (fun t => List (repeat t n)) l)).
Proof. exact broadcast_value_list. Qed.
Print Assumptions C15_broadcast_value_list.

(* ---- 4. exactly the well-formed specifications are accepted, and this is what they give.
   Flat: a real number, or a non-empty list/tuple of real numbers of length 1 or n. *)
Theorem C15_set_thresholds_accepts_iff_wellformed_flat : forall v n w,
  set_thresholds v n false = Ok w <->
  (is_real v = true /\ w = List (repeat v n)) \/
  (exists tup l, v = mkseq tup l /\ l <> [] /\ all_real l = true /\
                 (length l = 1 \/ length l = n) /\ w = mkseq tup (bcast l n)).
Proof. exact flat_accepts_iff. Qed.
Print Assumptions C15_set_thresholds_accepts_iff_wellformed_flat.

(* Nested (n >= 1): a real number; a non-empty list/tuple of k <> n real numbers (one constant row
   each); a list of n real numbers (one row); a non-empty list/tuple of list rows of real numbers,
   each of length 1 or n. *)
Theorem C15_set_thresholds_accepts_iff_wellformed_nested : forall v n w,
  set_thresholds v n true = Ok w <->
  1 <= n /\
  ((is_real v = true /\ w = List [List (repeat v n)]) \/
   (exists tup l, v = mkseq tup l /\ l <> [] /\ all_real l = true /\ length l <> n /\
                  w = List (map (fun t => List (repeat t n)) l)) \/
   (exists l, v = List l /\ all_real l = true /\ length l = n /\ w = List [List l]) \/
   (exists tup rows, v = mkseq tup (map List rows) /\ rows <> [] /\
                     (forall r, In r rows -> all_real r = true /\ (length r = 1 \/ length r = n)) /\
                     w = List (map (fun r => List (bcast r n)) rows))).
Proof. exact nested_accepts_iff. Qed.
Print Assumptions C15_set_thresholds_accepts_iff_wellformed_nested.

(* ---- 5. the malformed classes, each rejected with an error (corollaries of 4) *)
Theorem C15_flat_rejects_wrong_length : forall tup l n,
  length l <> 1 -> length l <> n -> rejected (set_thresholds (mkseq tup l) n false).
Proof. exact flat_rejects_wrong_length. Qed.
Print Assumptions C15_flat_rejects_wrong_length.

Theorem C15_flat_rejects_non_numeric : forall tup l n,
  all_real l = false -> rejected (set_thresholds (mkseq tup l) n false).
Proof. exact flat_rejects_non_numeric. Qed.
Print Assumptions C15_flat_rejects_non_numeric.

Theorem C15_nested_rejects_bad_row : forall tup rows r n,
  In r rows -> (length r <> 1 /\ length r <> n) \/ all_real r = false ->
  rejected (set_thresholds (mkseq tup (map List rows)) n true).
Proof. exact nested_rejects_bad_row. Qed.
Print Assumptions C15_nested_rejects_bad_row.

Theorem C15_nested_rejects_mixed : forall tup l n,
  (exists x, In x l /\ is_real x = false) -> (exists y, In y l /\ is_list y = false) ->
  rejected (set_thresholds (mkseq tup l) n true).
Proof. exact nested_rejects_mixed. Qed.
Print Assumptions C15_nested_rejects_mixed.

Theorem C15_rejects_empty_str_none : forall n s nest,
  rejected (set_thresholds (List []) n nest) /\ rejected (set_thresholds (Tuple []) n nest) /\
  rejected (set_thresholds (Str s) n nest) /\ rejected (set_thresholds NoneV n nest).
Proof.
  intros n s []; [exact (nested_rejects_empty_str_none n s)|exact (flat_rejects_empty_str_none n s)].
Qed.
Print Assumptions C15_rejects_empty_str_none.

(* ---- 6. a normalised list answers every per-label lookup (no IndexError in get_label_threshold) *)
Theorem C15_label_threshold_total : forall (A : Type) label ts (th : list A),
  length th = length ts ->
  get_label_threshold label (Some ts) (Some th) <> IndexErr /\
  (In label ts -> exists a, get_label_threshold label (Some ts) (Some th) = Found a /\ In a th).
Proof. exact @label_threshold_total. Qed.
Print Assumptions C15_label_threshold_total.

Example C15_nonvacuous_thresholds :
  set_thresholds (List [Num 1; Num 2]) 3 true
    = Ok (List [List [Num 1; Num 1; Num 1]; List [Num 2; Num 2; Num 2]]) /\
  set_thresholds (List [List [Num 2]; List [Num 3; Num 4]]) 2 true
    = Ok (List [List [Num 2; Num 2]; List [Num 3; Num 4]]) /\
  set_thresholds (List [Num 1; Bool true; Num (1#2)]) 3 false = Ok (List [Num 1; Bool true; Num (1#2)]) /\
  set_thresholds (List [Num 1; Num 2]) 3 false = Err ThresholdError /\
  set_thresholds (List [List [Num 1; Str "a"]]) 2 true = Err ThresholdError /\
  set_thresholds (List [List [List [Num 1]]]) 1 true = Err ThresholdError /\
  set_thresholds (List [Num 1; NoneV]) 2 false = Err ThresholdError.
Proof. vm_compute. repeat split; reflexivity. Qed.

(* ======================================================================================
   Part 2 -- configuration acceptance.  [accept sw c frames] (Model/Config.v) follows
   PerceptionEvaluationConfig(dataset_paths, frames, root, c); [sw] carries the two defect
   switches: [current] is the code as it is today, [repaired] the documented behaviour.
     task_supported c      = exists s, lookup "evaluation_task" c = Some (Str s) /\ In s perception_support_tasks
     xy_given c            = max_x_position and max_y_position are both not None
     dist_given c          = max_distance and min_distance are both not None
     mandatory_present c a = evaluation_task and label_prefix are present, and min_point_numbers
                             is not None when the task is DETECTION
     has_unknown_key c     = some key of c is not among the 21 keys the constructor reads
     normal_flat n w       = w is a list/tuple of exactly n real numbers
     metric_shape n w      = w is a list of list rows, each of exactly n real numbers
   ====================================================================================== *)

(* the statement of the property, at full strength *)
Definition C15_config_accept_sound_statement (sw : repairs) : Prop :=
  forall c fr a, accept sw c fr = Ok a ->
    task_supported c /\
    (task_is_3d (a_task a) = true -> xorb (xy_given c) (dist_given c) = true) /\
    mandatory_present c a /\
    has_unknown_key c = false.

(* it holds for the documented behaviour (both defect switches on) ... *)
Theorem C15_config_accept_sound :
  forall sw, rejects_both_ranges sw = true -> rejects_unknown_keys sw = true ->
  C15_config_accept_sound_statement sw.
Proof. intros sw Hb Hk c fr a H. exact (config_accept_sound_when_repaired sw c fr a Hb Hk H). Qed.
Print Assumptions C15_config_accept_sound.

(* ... and is refuted for the code as it is: both range kinds given (F7), unknown parameter (F8) *)
Theorem C15_config_accept_sound_refuted : ~ C15_config_accept_sound_statement current.
Proof. exact config_accept_sound_refuted. Qed.
Print Assumptions C15_config_accept_sound_refuted.

Theorem C15_config_accept_sound_refuted_F7 :
  exists a, accept current both_ranges ["base_link"] = Ok a /\ task_is_3d (a_task a) = true /\
            xy_given both_ranges = true /\ dist_given both_ranges = true.
Proof. exact refuted_both_range_kinds. Qed.
Print Assumptions C15_config_accept_sound_refuted_F7.

Theorem C15_config_accept_sound_refuted_F8 :
  exists a, accept current unknown_parameter ["base_link"] = Ok a /\ has_unknown_key unknown_parameter = true.
Proof. exact refuted_unknown_parameter. Qed.
Print Assumptions C15_config_accept_sound_refuted_F8.

(* what holds for every variant: supported task, at least one range kind and exactly one frame id
   for 3D, mandatory parameters present *)
Theorem C15_config_accept_sound_partial : forall sw c fr a,
  accept sw c fr = Ok a ->
  task_supported c /\
  (task_is_3d (a_task a) = true -> (xy_given c = true \/ dist_given c = true) /\ length fr = 1) /\
  mandatory_present c a.
Proof. exact config_accept_sound_partial. Qed.
Print Assumptions C15_config_accept_sound_partial.

(* the exact guard: an accepted configuration satisfies the full conclusion if and only if it does
   not give both range kinds (3D) and has no unknown key *)
Theorem C15_config_accept_sound_guard_exact : forall sw c fr a,
  accept sw c fr = Ok a ->
  ((task_supported c /\
    (task_is_3d (a_task a) = true -> xorb (xy_given c) (dist_given c) = true) /\
    mandatory_present c a /\ has_unknown_key c = false)
   <->
   ((task_is_3d (a_task a) = true -> xy_given c && dist_given c = false) /\ has_unknown_key c = false)).
Proof. exact config_accept_sound_guarded. Qed.
Print Assumptions C15_config_accept_sound_guard_exact.

(* F7 precisely: x/y wins and the distance bounds are dropped.  F8 precisely: a key that is not
   read has no influence on acceptance or on the result. *)
Theorem C15_range_kind_selection : forall sw c fr a,
  accept sw c fr = Ok a ->
  let f := a_filters a in
  (xy_given c = true -> f_max_x f <> None /\ f_max_y f <> None /\ f_max_dist f = None /\ f_min_dist f = None) /\
  (xy_given c = false -> dist_given c = true ->
     f_max_x f = None /\ f_max_y f = None /\ f_max_dist f <> None /\ f_min_dist f <> None) /\
  (xy_given c = false -> dist_given c = false ->
     f_max_x f = None /\ f_max_y f = None /\ f_max_dist f = None /\ f_min_dist f = None).
Proof. exact range_kind_selection. Qed.
Print Assumptions C15_range_kind_selection.

Theorem C15_unknown_keys_ignored : forall sw c k v fr,
  rejects_unknown_keys sw = false ->
  ~ In k read_keys -> accept sw ((k, v) :: c) fr = accept sw c fr.
Proof. exact unknown_keys_ignored. Qed.
Print Assumptions C15_unknown_keys_ignored.

(* every accepted configuration exposes per-label lists of exactly len(target_labels) >= 1 values:
   the seven filter lists (those that are set) and every row of the four metric threshold lists *)
Theorem C15_accepted_lists_have_target_length : forall sw c fr a,
  accept sw c fr = Ok a ->
  1 <= a_n a /\
  (forall w, In (Some w) (filters_list (a_filters a)) ->
     exists tup l, w = mkseq tup l /\ length l = a_n a /\ all_real l = true) /\
  (forall ms, a_metrics a = Some ms ->
     length ms = 4 /\
     forall w, In w ms ->
       exists rows, w = List (map List rows) /\
                    (forall r, In r rows -> length r = a_n a /\ all_real r = true)).
Proof. exact accepted_lists_have_target_length. Qed.
Print Assumptions C15_accepted_lists_have_target_length.

(* CriticalObjectFilterConfig / PerceptionPassFailConfig: an accepted per-frame configuration holds
   only lists of exactly len(target_labels) real numbers (so any other length is an error), and for a
   3D task one complete range kind *)
Theorem C15_critical_and_passfail_length_checked :
  (forall is2d n_all a k,
     critical_accept is2d n_all a = Ok k -> 1 <= n_all ->
     1 <= k_n k /\
     (forall w, In (Some w) [k_max_x k; k_max_y k; k_max_dist k; k_min_dist k; k_min_points k; k_conf k] ->
        exists l, py_items w = Some l /\ length l = k_n k /\ all_real l = true) /\
     (is2d = false -> (k_max_x k <> None /\ k_max_y k <> None) \/ (k_max_dist k <> None /\ k_min_dist k <> None))) /\
  (forall n_all a p,
     passfail_accept n_all a = Ok p -> 1 <= n_all ->
     1 <= p_n p /\
     (forall w, In (Some w) [p_matching p; p_conf p] ->
        exists l, py_items w = Some l /\ length l = p_n p /\ all_real l = true)) /\
  (forall v n l, py_items v = Some l -> length l <> n \/ all_real l = false ->
     exists e, opt_check v n = Err e).
Proof. exact (conj critical_length_checked (conj passfail_length_checked opt_check_rejects)). Qed.
Print Assumptions C15_critical_and_passfail_length_checked.

(* non-vacuity: a valid detection dictionary is accepted with 4 labels and satisfies the full
   conclusion; the repaired variant still accepts it and rejects the two witnesses; min_distance
   (repaired in /repo) is validated like the other bounds *)
Example C15_nonvacuous_config :
  (exists a, accept current valid_detection ["base_link"] = Ok a /\
             full_conclusion valid_detection ["base_link"] a /\ a_n a = 4) /\
  (accept repaired both_ranges ["base_link"] = Err RuntimeError /\
   accept repaired unknown_parameter ["base_link"] = Err MetricsParameterError /\
   exists a, accept repaired valid_detection ["base_link"] = Ok a) /\
  (accept current min_distance_str ["base_link"] = Err ThresholdError /\
   exists a, accept current min_distance_per_label ["base_link"] = Ok a /\
             f_min_dist (a_filters a) = Some (List [Num 0; Num 1])).
Proof. exact (conj valid_detection_accepted (conj witnesses_rejected_when_repaired min_distance_validated)). Qed.
