(* Redundant tie, OBJECT MATCHER layer (C01 / C02): evaluation/result/object_result.py `get_object_results` (3D objects, 2D objects with
   a ROI), `_get_score_table`, `_get_matching_module`, `_get_fp_object_results` are re-translated from the Python `ast` on every run
   (translator/loops_matcher.py -> Gen/loops_matcher.v) and every theorem below says that a generated definition EQUALS, for ALL inputs
   (any number of estimates / ground truths, any facts), the hand-model definition of Model/Matching.v the C01 / C02 theorems are about.

   Rendering.  An object is its identity (its index in the caller's list); what the code reads from objects are fact FUNCTIONS
   (est_frame, gt_frame, thr = get_label_threshold of the GROUND TRUTH's label, value = <Mode>Matching(est, gt).value with None for
   None / NaN, okf = matching_label_policy.is_matchable).  The numpy score table is a list of rows of `option Q` (NaN = None); the
   numpy operations are the definitions of the generated file's fixed prelude, characterised in Proofs/GenTieMatcherLemmas.v
   ([pick_spec]: nanargmin / nanargmax + unravel_index = the model's row-major first-best [argbest]; pop / np.delete at that position =
   removal of the chosen identities; [isnan_all_tab]: np.isnan(..).all() <-> no candidate).  The source's greedy loops are
   `for _ in range(<rows>): if <all NaN>: break ...` (there is no `while`): a fold with a break flag = bounded iteration [iterl] =
   Matching.stage with fuel <rows>; C01_fuel_suffices (Props/C01.v) says that this bound is never what ends a loop.
   The generated functions return [res _]: `= Ok ..` also says that no IndexError (pop / delete / item assignment), no ValueError
   (all-NaN arg-best, unravel out of range) and no ShapeError (shape of a table without rows) is ever raised.
   Every theorem is compiled on its own by harness/lib/core.gen_tie (header + block): a theorem about a caller re-establishes the
   equations of its callees by the scripts of this header. *)
From Coq Require Import List Bool Arith Lia.
From PE Require Import Base.QUtil Model.Matching Proofs.MatchingProofs Proofs.GenTieMatcherLemmas.
From PE Require Gen.loops_matcher.
Import Gen.loops_matcher.
Import ListNotations.
Close Scope Q_scope.
Open Scope list_scope.

Ltac script_matching_module := intros md; destruct md; reflexivity.
Ltac script_fp :=
  intros es; unfold Gen__get_fp_object_results.f; cbv zeta;
  rewrite (fold_list_rule _ (fun seen => map unpaired seen)); [reflexivity|];
  intros seen x; cbn [bind]; rewrite map_app; reflexivity.
Ltac script_score_table :=
  intros ef gf thr thr_est value okf es gs mm; unfold Gen__get_score_table.f; cbv zeta;
  rewrite (fill_table _ (cell2 mm ef gf thr value okf) (None, false)); [reflexivity|];
  let done := fresh "done" in let i := fresh "i" in let e := fresh "e" in let rest := fresh "rest" in let Hi := fresh "Hi" in
  intros done i e rest Hi; cbn [bind];
  rewrite (fill_row _ (cell2 mm ef gf thr value okf e) (None, false) done rest gs); [reflexivity|];
  let pre := fresh "pre" in let j := fresh "j" in let g := fresh "g" in let post := fresh "post" in let Hj := fresh "Hj" in
  intros pre j g post Hj; cbn [bind]; subst i j; unfold cell2;
  destruct (Nat.eqb (ef e) (gf g)); destruct (thr g) as [?t|]; try destruct (meth_better value (mm, e, g) t);
  cbn [andb orb negb bind]; rewrite ?np_setitem2_at; reflexivity.
(* the part of get_object_results after the dispatch: score table, two stages, remainder *)
Ltac script_matcher_core Hfp Hst fpv mx md ef gf thr value okf n m :=
  rewrite Hst; cbn [bind];
  rewrite ?masked_tab, ?scores_tab, ?tab_length, ?seq_length;
  rewrite fold_break; [ | intros; destruct_pairs; reflexivity | intros; reflexivity ];
  rewrite (stage1_loop _ mx (masked (mcell md ef gf thr value) okf) (cell2 md ef gf thr value okf));
  [ | greedy_body mx (masked (mcell md ef gf thr value) okf) | apply seq_nodup | apply seq_nodup ];
  rewrite seq_length; unfold match_stages;
  rewrite <- (stagef_stage n mx (masked (mcell md ef gf thr value) okf));
  let b1 := fresh "b" in let p1 := fresh "p" in let es1 := fresh "es" in let gs1 := fresh "gs" in let S1 := fresh "S" in
  destruct (stagef n mx (masked (mcell md ef gf thr value) okf) (seq 0 n) (seq 0 m)) as [b1 [[p1 es1] gs1]] eqn:S1;
  let ND1 := fresh "ND" in let ND2 := fresh "ND" in
  destruct (stagef_nodup _ _ _ _ _ _ _ _ _ S1 (seq_nodup n) (seq_nodup m)) as [ND1 ND2];
  cbn [bind snd]; rewrite ?scores_tab, ?tab_length;
  rewrite fold_break; [ | intros; destruct_pairs; reflexivity | intros; reflexivity ];
  rewrite (stage2_loop _ mx (mcell md ef gf thr value));
  [ | greedy_body mx (mcell md ef gf thr value) | exact ND1 | exact ND2 ];
  rewrite seq_length, <- (stagef_stage (length es1) mx (mcell md ef gf thr value));
  let b2 := fresh "b" in let p2 := fresh "p" in let es2 := fresh "es" in let gs2 := fresh "gs" in
  destruct (stagef (length es1) mx (mcell md ef gf thr value) es1 gs1) as [b2 [[p2 es2] gs2]];
  cbn [bind snd st_pairs1 st_pairs2 st_rest_est app]; rewrite ?Hfp;
  destruct fpv; destruct es2; cbn [length Nat.ltb Nat.leb andb orb negb bind map list_is_empty]; rewrite ?app_nil_r, ?map_app; reflexivity.

(* ---- _get_matching_module: the class of the mode (rendered as the mode) and the direction; the final `raise ValueError` is dead -------- *)
Theorem GenTie__get_matching_module :
  forall md : Mode, Gen__get_matching_module.f md = Ok (md, maximize_of md).
Proof. script_matching_module. Qed.
Print Assumptions GenTie__get_matching_module.

(* ---- _get_fp_object_results: one result without ground truth per estimate, in order --------------------------------------------------- *)
Theorem GenTie__get_fp_object_results :
  forall es : list nat, Gen__get_fp_object_results.f es = Ok (map unpaired es).
Proof. script_fp. Qed.
Print Assumptions GenTie__get_fp_object_results.

(* ---- _get_score_table: cell (i, j) of the (score, flag) table is written iff estimate i and ground truth j are in the same frame and
   (the GROUND TRUTH's label has no radius or the value is strictly better than it); its score is Matching.score_cell, and the scores
   masked by the flag are Matching.masked of the policy's is_matchable.  No IndexError whatever the lists. ------------------------------------ *)
Theorem GenTie__get_score_table :
  forall (ef gf : nat -> nat) (thr thr_est : nat -> option Q) (value : Mode -> nat -> nat -> option Q) (okf : nat -> nat -> bool)
         (es gs : list nat) (mm : Mode),
    Gen__get_score_table.f ef gf thr thr_est value okf es gs mm = Ok (tab (cell2 mm ef gf thr value okf) es gs)
    /\ np_last0 (tab (cell2 mm ef gf thr value okf) es gs)
       = tab (fun e g => score_cell (maximize_of mm) (Nat.eqb (ef e) (gf g)) (thr g) (value mm e g)) es gs
    /\ np_where_nan (np_last1 (tab (cell2 mm ef gf thr value okf) es gs)) (np_last0 (tab (cell2 mm ef gf thr value okf) es gs))
       = tab (masked (fun e g => score_cell (maximize_of mm) (Nat.eqb (ef e) (gf g)) (thr g) (value mm e g)) okf) es gs.
Proof.
  intros ef gf thr thr_est value okf es gs mm. split; [|split].
  - revert ef gf thr thr_est value okf es gs mm. script_score_table.
  - apply scores_tab.
  - apply masked_tab.
Qed.
Print Assumptions GenTie__get_score_table.

Example GenTie__get_score_table_nonvacuous :
  let ef := fun e : nat => match e with 2 => 1 | _ => 0 end in
  let thr := fun g : nat => match g with 0 => Some 1%Q | _ => None end in
  let value := fun (_ : Mode) (e g : nat) => match e, g with 0, 0 => Some 1%Q | 1, 0 => Some (1 # 2)%Q | 3, _ => None | _, _ => Some 2%Q end in
  let okf := fun e g : nat => Nat.eqb e g in
  (* est 0 exactly on the radius of GT 0 (not written), est 1 inside, est 2 in another frame, est 3 without a value but no radius for GT 1 *)
  Gen__get_score_table.f ef (fun _ => 0) thr (fun _ => None) value okf [0; 1; 2; 3] [0; 1] CENTERDISTANCE
  = Ok [[(None, false); (Some 2%Q, false)]; [(Some (1 # 2)%Q, false); (Some 2%Q, true)];
        [(None, false); (None, false)]; [(None, false); (None, false)]].
Proof. vm_compute. reflexivity. Qed.

(* ---- the best cell: np.isnan(t).all() / np.nanargmin | nanargmax + np.unravel_index on the table of `key` over the remaining
   identities = Matching.argbest (row-major, FIRST occurrence of the best value), and pop / np.delete there remove exactly that pair --------- *)
Theorem GenTie_best_cell :
  forall (mx : bool) (key : nat -> nat -> option Q) (es gs : list nat), NoDup es -> NoDup gs ->
    np_isnan_all (tab key es gs) = match argbest mx key es gs with None => true | Some _ => false end
    /\ forall e g, argbest mx key es gs = Some (e, g) ->
         exists i j,
           bind (if mx then np_nanargmax (tab key es gs) else np_nanargmin (tab key es gs))
                (fun k => bind (np_shape2 (tab key es gs)) (fun sh => np_unravel_index k sh)) = Ok (i, j)
           /\ list_pop es i = Ok (e, remove_first e es) /\ list_pop gs j = Ok (g, remove_first g gs)
           /\ bind (np_delete0 (tab key es gs) i) (fun t => np_delete1 t j) = Ok (tab key (remove_first e es) (remove_first g gs)).
Proof.
  intros mx key es gs NDe NDg. split; [apply isnan_all_tab|].
  intros e g A. destruct (pick_spec mx key es gs e g NDe NDg A) as (k & i & j & Hk & Hsh & Hij & Hpe & Hpg & Hd0 & Hd1).
  exists i, j. repeat split; try assumption.
  - destruct mx; rewrite ?np_nanargmax_eq, ?np_nanargmin_eq, Hk; cbn [bind]; rewrite Hsh; cbn [bind]; exact Hij.
  - rewrite Hd0. cbn [bind]. apply Hd1.
Qed.
Print Assumptions GenTie_best_cell.

Example GenTie_best_cell_nonvacuous :
  (* a tie (the value 1 twice: the row-major first one wins) and a better cell hidden by NaN *)
  let t := [[None; Some 1%Q; Some 3%Q]; [Some 1%Q; None; Some 1%Q]] in
  t = tab (fun e g => nth g (nth e t []) None) [0; 1] [0; 1; 2]
  /\ bind (np_nanargmin t) (fun k => bind (np_shape2 t) (fun sh => np_unravel_index k sh)) = Ok (0, 1)
  /\ bind (np_nanargmax t) (fun k => bind (np_shape2 t) (fun sh => np_unravel_index k sh)) = Ok (0, 2)
  /\ argbest false (fun e g => nth g (nth e t []) None) [0; 1] [0; 1; 2] = Some (0, 1)
  /\ np_isnan_all t = false /\ np_isnan_all [[None; None]] = true /\ np_nanargmin [[None; None]] = Err ValueError
  /\ np_shape2 (@nil (list (option Q))) = Err ShapeError.
Proof. vm_compute. repeat split; reflexivity. Qed.

(* ---- get_object_results, 3D objects / 2D objects with a ROI (the dispatch to the identity matchers is not taken) = Matching.match_core
   on the cells of Matching.score_cell: early returns, two greedy stages (label-compatible cells first, then any cell; the SAME working
   lists and the score table with the rows / columns of stage 1 deleted), the unmatched estimates unless FP validation ----------------------- *)
Theorem GenTie_get_object_results :
  forall (fpv is2d est_noroi gt_noroi tlr : bool) (r_tlr r_id : res (list (nat * option nat)))
         (ef gf : nat -> nat) (thr thr_est : nat -> option Q) (value : Mode -> nat -> nat -> option Q) (okf : nat -> nat -> bool)
         (n m : nat) (md : Mode),
    is2d && (est_noroi || gt_noroi) = false ->
    Gen_get_object_results.f fpv is2d est_noroi gt_noroi tlr r_tlr r_id ef gf thr thr_est value okf (seq 0 n) (seq 0 m) md
    = Ok (match_core (maximize_of md) fpv
            (fun e g => score_cell (maximize_of md) (Nat.eqb (ef e) (gf g)) (thr g) (value md e g)) okf n m).
Proof.
  assert (Hmm : forall md, Gen__get_matching_module.f md = Ok (md, maximize_of md)) by script_matching_module.
  assert (Hfp : forall es, Gen__get_fp_object_results.f es = Ok (map unpaired es)) by script_fp.
  assert (Hst : forall ef gf thr thr_est value okf es gs mm,
             Gen__get_score_table.f ef gf thr thr_est value okf es gs mm = Ok (tab (cell2 mm ef gf thr value okf) es gs))
    by script_score_table.
  intros fpv is2d est_noroi gt_noroi tlr r_tlr r_id ef gf thr thr_est value okf n m md H.
  change (fun e g => score_cell (maximize_of md) (Nat.eqb (ef e) (gf g)) (thr g) (value md e g)) with (mcell md ef gf thr value).
  unfold Gen_get_object_results.f, match_core. rewrite !list_is_empty_seq.
  destruct (Nat.eqb n 0); [reflexivity|].
  destruct (Nat.eqb m 0); [destruct fpv; cbn [bind]; rewrite ?Hfp; reflexivity|].
  match goal with |- context [bind (Gen__get_matching_module.f ?a) ?K] => set (REST := bind (Gen__get_matching_module.f a) K) end.
  assert (HR : REST = Ok (let s := match_stages (maximize_of md) (mcell md ef gf thr value) okf n m in
                          map paired (st_pairs1 s ++ st_pairs2 s) ++ (if fpv then [] else map unpaired (st_rest_est s)))).
  { subst REST. rewrite Hmm. cbn [bind]. remember (maximize_of md) as mx eqn:Emx. cbv zeta.
    script_matcher_core Hfp Hst fpv mx md ef gf thr value okf n m. }
  clearbody REST. destruct is2d, est_noroi, gt_noroi, tlr; try discriminate H; cbn [andb orb]; exact HR.
Qed.
Print Assumptions GenTie_get_object_results.

(* outside the guard (a 2D object without ROI heads a list): after the two early returns, the identity matchers decide *)
Theorem GenTie_get_object_results_outside :
  forall (fpv is2d est_noroi gt_noroi tlr : bool) (r_tlr r_id : res (list (nat * option nat)))
         (ef gf : nat -> nat) (thr thr_est : nat -> option Q) (value : Mode -> nat -> nat -> option Q) (okf : nat -> nat -> bool)
         (n m : nat) (md : Mode),
    is2d && (est_noroi || gt_noroi) = true ->
    Gen_get_object_results.f fpv is2d est_noroi gt_noroi tlr r_tlr r_id ef gf thr thr_est value okf (seq 0 n) (seq 0 m) md
    = if Nat.eqb n 0 then Ok []
      else if Nat.eqb m 0 then Ok (if fpv then [] else map unpaired (seq 0 n))
      else if tlr then r_tlr else r_id.
Proof.
  assert (Hfp : forall es, Gen__get_fp_object_results.f es = Ok (map unpaired es)) by script_fp.
  intros fpv is2d est_noroi gt_noroi tlr r_tlr r_id ef gf thr thr_est value okf n m md H.
  unfold Gen_get_object_results.f. rewrite !list_is_empty_seq.
  destruct (Nat.eqb n 0); [reflexivity|].
  destruct (Nat.eqb m 0); [destruct fpv; cbn [bind]; rewrite ?Hfp; reflexivity|].
  match goal with |- context [bind (Gen__get_matching_module.f ?a) ?K] => generalize (bind (Gen__get_matching_module.f a) K) end.
  intros REST. destruct is2d, est_noroi, gt_noroi, tlr; try discriminate H; cbn [andb orb]; rewrite bind_ok_r; reflexivity.
Qed.
Print Assumptions GenTie_get_object_results_outside.

Example GenTie_get_object_results_nonvacuous :
  (* 3 estimates, 3 ground truths, one frame, no radius.  The best cell overall is (est 0, GT 0) with 1/4 but it is label-INCOMPATIBLE;
     among the compatible cells the value 1 occurs twice ((0, 1) and (1, 0)): the row-major first one, (0, 1), is taken in stage 1,
     then (1, 0); stage 2 pairs what is left, (2, 2), regardless of the label; with a radius of 1 for GT 2 nothing is left for est 2 *)
  let value := fun (_ : Mode) (e g : nat) =>
                 match e, g with 0, 0 => Some (1 # 4)%Q | 0, 1 => Some 1%Q | 1, 0 => Some 1%Q | 2, 2 => Some 5%Q | _, _ => Some 9%Q end in
  let okf := fun e g : nat => match e, g with 0, 0 => false | 2, 2 => false | _, _ => true end in
  let run fpv thr := Gen_get_object_results.f fpv false false false false (Err ValueError) (Err ValueError)
                       (fun _ => 0) (fun _ => 0) thr (fun _ => None) value okf [0; 1; 2] [0; 1; 2] CENTERDISTANCE in
  run false (fun _ => None) = Ok [(0, Some 1); (1, Some 0); (2, Some 2)]
  /\ run false (fun g : nat => match g with 2 => Some 1%Q | _ => None end) = Ok [(0, Some 1); (1, Some 0); (2, None)]
  /\ run true (fun g : nat => match g with 2 => Some 1%Q | _ => None end) = Ok [(0, Some 1); (1, Some 0)]
  /\ match_core false false (fun e g => score_cell false true None (value CENTERDISTANCE e g)) okf 3 3
     = [(0, Some 1); (1, Some 0); (2, Some 2)]
  /\ Gen_get_object_results.f false true true false true (Ok [(7, None)]) (Err ValueError)
       (fun _ => 0) (fun _ => 0) (fun _ => None) (fun _ => None) value okf [0; 1; 2] [0; 1; 2] CENTERDISTANCE = Ok [(7, None)]
  /\ Gen_get_object_results.f true true true false true (Ok [(7, None)]) (Err ValueError)
       (fun _ => 0) (fun _ => 0) (fun _ => None) (fun _ => None) value okf [0; 1; 2] [] CENTERDISTANCE = Ok [].
Proof. vm_compute. repeat split; reflexivity. Qed.

(* ---- the same function read through the FACTS record of Model/Matching.v (what the C01 / C02 correspondence feeds the model with):
   = Matching.get_object_results, the function the property theorems are about ----------------------------------------------------------- *)
Theorem GenTie_get_object_results_facts :
  forall (md : Mode) (p : Policy) (fpv is2d est_noroi gt_noroi tlr : bool) (r_tlr r_id : res (list (nat * option nat)))
         (thr_est : nat -> option Q) (F : Facts),
    facts_wf F = true -> is2d && (est_noroi || gt_noroi) = false ->
    Gen_get_object_results.f fpv is2d est_noroi gt_noroi tlr r_tlr r_id (est_frame_of F) (gt_frame_of F) (thr_of F) thr_est (value_of F)
      (ok_of p F) (seq 0 (length (f_est_frame F))) (seq 0 (length (f_gt_frame F))) md
    = Ok (get_object_results md p fpv F).
Proof.
  assert (Hmm : forall md, Gen__get_matching_module.f md = Ok (md, maximize_of md)) by script_matching_module.
  assert (Hfp : forall es, Gen__get_fp_object_results.f es = Ok (map unpaired es)) by script_fp.
  assert (Hst : forall ef gf thr thr_est value okf es gs mm,
             Gen__get_score_table.f ef gf thr thr_est value okf es gs mm = Ok (tab (cell2 mm ef gf thr value okf) es gs))
    by script_score_table.
  intros md p fpv is2d est_noroi gt_noroi tlr r_tlr r_id thr_est F WF H.
  unfold get_object_results.
  rewrite <- (match_core_ext (maximize_of md) fpv (mcell md (est_frame_of F) (gt_frame_of F) (thr_of F) (value_of F)) _ (ok_of p F) _ _ _)
    by (intros; try apply cell_of_facts; auto).
  generalize (est_frame_of F) (gt_frame_of F) (thr_of F) (value_of F) (ok_of p F) (length (f_est_frame F)) (length (f_gt_frame F)).
  intros ef gf thr value okf n m.
  unfold Gen_get_object_results.f, match_core. rewrite !list_is_empty_seq.
  destruct (Nat.eqb n 0); [reflexivity|].
  destruct (Nat.eqb m 0); [destruct fpv; cbn [bind]; rewrite ?Hfp; reflexivity|].
  match goal with |- context [bind (Gen__get_matching_module.f ?a) ?K] => set (REST := bind (Gen__get_matching_module.f a) K) end.
  assert (HR : REST = Ok (let s := match_stages (maximize_of md) (mcell md ef gf thr value) okf n m in
                          map paired (st_pairs1 s ++ st_pairs2 s) ++ (if fpv then [] else map unpaired (st_rest_est s)))).
  { subst REST. rewrite Hmm. cbn [bind]. remember (maximize_of md) as mx eqn:Emx. cbv zeta.
    script_matcher_core Hfp Hst fpv mx md ef gf thr value okf n m. }
  clearbody REST. destruct is2d, est_noroi, gt_noroi, tlr; try discriminate H; cbn [andb orb]; exact HR.
Qed.
Print Assumptions GenTie_get_object_results_facts.

(* outside the guards: the dispatch guard is the one of GenTie_get_object_results_outside (which holds for any facts, these included);
   facts that are not well-formed describe no call (facts_wf is checked on every generated case of the correspondence) *)
Example GenTie_get_object_results_facts_nonvacuous :
  (* Props/C01.v's example: est 0 exactly on the radius of GT 0, est 2 in another frame, est 3 compatible with GT 2 only *)
  let F := mkFacts [0; 0; 1; 0] [0; 0; 0] [Some 1%Q; Some 1%Q; None] [false; false; false; false] [false; false; false]
             [[Some 1%Q; Some 3%Q; Some 5%Q]; [Some (1#2)%Q; Some 2%Q; Some 4%Q]; [None; None; None]; [Some 3%Q; Some (1#4)%Q; Some 2%Q]]
             [[true; false; false]; [true; false; false]; [true; false; false]; [false; false; true]] in
  let run p fpv := Gen_get_object_results.f fpv false false false false (Err ValueError) (Err ValueError) (est_frame_of F) (gt_frame_of F)
                     (thr_of F) (fun _ => None) (value_of F) (ok_of p F) (seq 0 4) (seq 0 3) CENTERDISTANCE in
  facts_wf F = true
  /\ run P_DEFAULT false = Ok [(1, Some 0); (3, Some 2); (0, None); (2, None)]
  /\ run P_DEFAULT true = Ok [(1, Some 0); (3, Some 2)]
  /\ run P_ALLOW_ANY false = Ok [(3, Some 1); (1, Some 0); (0, Some 2); (2, None)]
  /\ get_object_results CENTERDISTANCE P_ALLOW_ANY false F = [(3, Some 1); (1, Some 0); (0, Some 2); (2, None)].
Proof. vm_compute. repeat split; reflexivity. Qed.
