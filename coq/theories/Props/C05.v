(* C05 -- CLEAR tracking scores follow their definitions for every history.
   Model: Model/Clear.v (CLEAR.__init__, _calculate_tp_fp, _is_id_switched, _is_same_match,
   _calculate_score, TrackingMetricsScore._sum_clear).  Proofs: Proofs/ClearProofs.v.
   Every theorem quantifies over all histories (any number of frames, any number of results),
   all matching modes, all target-label/threshold lists.
   Only statements, `exact`, Print Assumptions and non-vacuity examples here. *)
From Coq Require Import List Bool Arith ZArith QArith Lia Lqa.
From PE Require Import Base.QUtil Model.Clear Proofs.ClearProofs Proofs.ClearBounds.
Import ListNotations.
Open Scope Q_scope.

(* ---------------------------------------------------------------------------------------------
   clear_partition: every result of an evaluated label in every frame after the first adds exactly
   1 to TP or to FP; results of other labels add nothing.
   --------------------------------------------------------------------------------------------- *)
Theorem C05_step_partition : forall m T prevs a c,
  let a' := apply_dec a (decide m T prevs c) in
  if is_target T c
  then (c_tp a' = S (c_tp a) /\ c_fp a' = c_fp a) \/ (c_tp a' = c_tp a /\ c_fp a' = S (c_fp a))
  else a' = a.
Proof. exact step_partition. Qed.
Print Assumptions C05_step_partition.

Theorem C05_clear_partition : forall m T (h : list frame),
  let a := clear_counts m T h in
  (c_tp a + c_fp a = countb (is_target T) (evaluated h))%nat /\ c_num a = length (evaluated h).
Proof. exact clear_partition. Qed.
Print Assumptions C05_clear_partition.

(* ---------------------------------------------------------------------------------------------
   clear_refines_spec.  Under per-frame uniqueness of estimated tracks and of ground-truth ids
   (more generally: the TPs of each frame form a consistent pairing), the loop computes exactly
     TP r     <->  correct r \/ exists p in prev, correct p /\ same pairing (est id, est label, GT id)
     FP r     <->  neither
     switch r <->  correct r /\ not carried r /\ exists p in prev, correct p /\ the pairings differ
                   (same estimated track with another GT, or same GT with another estimated track)
     assigned score = the previous frame's score for a carried pairing, the result's own otherwise
   ("correct p" is judged with the threshold of r's label, as the code does).
   --------------------------------------------------------------------------------------------- *)
Theorem C05_decide_spec : forall m T prevs c t,
  label_threshold T (thr_label c) = Some t -> pairing_consistent m t prevs ->
  decide m T prevs c =
  match find (fun p => is_correct m t p && is_same c p) prevs with
  | Some p => DCarry (score_of p)
  | None => if is_correct m t c then DNew (score_of c) (switchedb m t prevs c) else DFp
  end.
Proof. exact decide_spec. Qed.
Print Assumptions C05_decide_spec.

Theorem C05_spec_meaning : forall m t prevs r,
  (carriedb m t prevs r = true <-> exists p, In p prevs /\ is_correct m t p = true /\ is_same r p = true) /\
  (switchedb m t prevs r = true <-> exists p, In p prevs /\ is_correct m t p = true /\ is_switched r p = true) /\
  (forall p, is_switched r p =
     match r_gt r, r_gt p with
     | Some gr, Some gp => xorb (same_est r p) (Nat.eqb (g_id gr) (g_id gp))
     | _, _ => false
     end) /\
  (forall p, is_same r p = true -> is_switched r p = false).
Proof.
  intros m t prevs r. split; [apply carriedb_iff|split; [apply switchedb_iff|split; [intros p; apply is_switched_xor|intros p; apply same_not_switched]]].
Qed.
Print Assumptions C05_spec_meaning.

Theorem C05_clear_refines_spec : forall m T (h : list frame),
  (forall f, In f h -> forall t, pairing_consistent m t f) ->
  counters_eq (clear_counts m T h) (spec_counts m T h).
Proof. exact clear_refines_spec. Qed.
Print Assumptions C05_clear_refines_spec.

Theorem C05_clear_refines_spec_unique : forall m T (h : list frame),
  (forall f, In f h -> NoDup (map est_key f) /\ NoDup (gt_ids f)) ->
  counters_eq (clear_counts m T h) (spec_counts m T h).
Proof. exact clear_refines_spec_unique. Qed.
Print Assumptions C05_clear_refines_spec_unique.

(* the matching score is only read from results that have a ground truth (no default is used) *)
Theorem C05_score_reads_guarded : forall m t c prevs,
  (forall p sw, scan m t c prevs false = (Some p, sw) ->
     In p prevs /\ is_correct m t p = true /\ is_same c p = true /\ exists g, r_gt p = Some g /\ score_of p = g_score g) /\
  (is_correct m t c = true -> exists g, r_gt c = Some g /\ score_of c = g_score g).
Proof.
  intros m t c prevs. split; [|apply own_score_guarded].
  intros p sw H. destruct (scan_same_sound m t c prevs p sw H) as (H1 & H2 & H3 & _).
  repeat split; auto. exact (carried_score_guarded m t c prevs p sw H).
Qed.
Print Assumptions C05_score_reads_guarded.

(* ---------------------------------------------------------------------------------------------
   mota_formula, motp_formula
   --------------------------------------------------------------------------------------------- *)
Theorem C05_mota_formula : forall m T numgt (h : list frame),
  let a := clear_counts m T h in
  k_mota (make_clear m T numgt h) =
    match numgt with
    | O => None                                                  (* float("inf") *)
    | _ => Some (max0 ((Qnat (c_tp a) - Qnat (c_fp a) - Qnat (c_sw a)) / Qnat numgt))
    end.
Proof. exact mota_formula. Qed.
Print Assumptions C05_mota_formula.

Theorem C05_max0_is_max : forall x, 0 <= max0 x /\ x <= max0 x /\ ((0 < x /\ max0 x = x) \/ (x <= 0 /\ max0 x = 0)).
Proof. intros x. split; [apply max0_nonneg|split; [apply max0_ge|apply max0_cases]]. Qed.
Print Assumptions C05_max0_is_max.

(* MOTP is the mean of the scores assigned to the TPs (None = inf when there is no TP) *)
Theorem C05_motp_formula : forall m T numgt (h : list frame),
  let l := tp_score_list m T h in
  c_tp (clear_counts m T h) = length l /\
  oq_eq (k_motp (make_clear m T numgt h))
        (match l with [] => None | _ => Some (qsum l / Qnat (length l)) end).
Proof. exact motp_formula. Qed.
Print Assumptions C05_motp_formula.

(* ---------------------------------------------------------------------------------------------
   sum_clear_weighted: the total MOTA is the ground-truth-weighted mean of the label MOTAs
   (= sum of max(0, TP-FP-IDsw) over labels with ground truths / total ground truths), the total
   MOTP the TP-weighted mean of the label MOTPs (= total TP score / total TP), switches add up.
   --------------------------------------------------------------------------------------------- *)
Theorem C05_sum_clear_weighted : forall ks : list clear,
  Forall wf_clear ks ->
  let G := sumN k_numgt ks in
  let Tp := sumN k_tp ks in
  oq_eq (fst (fst (sum_clear ks))) (match G with O => None | _ => Some (sumQ mota_weight ks / Qnat G) end) /\
  oq_eq (snd (fst (sum_clear ks))) (match Tp with O => None | _ => Some (sumQ motp_weight ks / Qnat Tp) end) /\
  snd (sum_clear ks) = sumN k_sw ks /\
  sumQ mota_weight ks == sumQ clamp_num ks /\
  sumQ motp_weight ks == sumQ (fun k => c_score (k_cnt k)) ks.
Proof. exact sum_clear_weighted. Qed.
Print Assumptions C05_sum_clear_weighted.

Theorem C05_make_clear_wf : forall m T numgt h, wf_clear (make_clear m T numgt h).
Proof. exact make_clear_wf. Qed.
Print Assumptions C05_make_clear_wf.

(* ---------------------------------------------------------------------------------------------
   clear_rename_invariant: any injective renaming of estimated ids and of ground-truth ids leaves
   every counter and score unchanged (no uniqueness assumption).
   --------------------------------------------------------------------------------------------- *)
Theorem C05_clear_rename_invariant : forall fe fg : nat -> nat,
  (forall x y, fe x = fe y -> x = y) -> (forall x y, fg x = fg y -> x = y) ->
  forall m T numgt (h : list frame),
  make_clear m T numgt (rename_history fe fg h) = make_clear m T numgt h.
Proof. exact clear_rename_invariant. Qed.
Print Assumptions C05_clear_rename_invariant.

(* ---------------------------------------------------------------------------------------------
   Tracker shapes.  A frame is given by the ground truths present in it ((uuid, label, score),
   uuids unique per frame, label determined by the uuid, every score within its label's threshold);
   the tracker reports ground truth g under the estimated uuid [trk g] with g's label.
   Any number of frames, any number of targets, targets may appear and disappear.
   --------------------------------------------------------------------------------------------- *)
Theorem C05_perfect_tracker : forall m T lab trk (l : list (list gtobj)),
  (forall x y, trk x = trk y -> x = y) ->
  (forall gs, In gs l -> all_matched m T gs /\ gt_frame_ok lab gs) ->
  let h := map (tracked_frame trk) l in
  let a := clear_counts m T h in
  c_sw a = 0%nat /\ c_fp a = 0%nat /\ c_tp a = length (evaluated h) /\
  (length (evaluated h) <> 0%nat -> oq_eq (k_mota (make_clear m T (length (evaluated h)) h)) (Some 1)).
Proof. exact perfect_tracker. Qed.
Print Assumptions C05_perfect_tracker.

(* ground truth g0, present in the last frame before and the first frame after the change, gets the
   brand-new estimated id b from some frame on: exactly one switch, whatever the other targets do *)
Theorem C05_new_id_costs_one : forall m T lab trk g0 b pre gsa gsb post,
  (forall x y, trk x = trk y -> x = y) -> (forall x, trk x <> b) ->
  (forall gs, In gs (pre ++ gsa :: gsb :: post) -> all_matched m T gs /\ gt_frame_ok lab gs) ->
  In g0 (map o_id gsa) -> In g0 (map o_id gsb) ->
  let h := map (tracked_frame trk) pre ++ tracked_frame trk gsa ::
           tracked_frame (upd trk g0 b) gsb :: map (tracked_frame (upd trk g0 b)) post in
  let a := clear_counts m T h in
  c_sw a = 1%nat /\ c_fp a = 0%nat /\ c_tp a = length (evaluated h).
Proof. exact new_id_costs_one. Qed.
Print Assumptions C05_new_id_costs_one.

(* the estimated ids of g1 and g2 are exchanged from some frame on: exactly two switches *)
Theorem C05_swap_costs_two : forall m T lab trk g1 g2 pre gsa gsb post,
  (forall x y, trk x = trk y -> x = y) -> g1 <> g2 ->
  (forall gs, In gs (pre ++ gsa :: gsb :: post) -> all_matched m T gs /\ gt_frame_ok lab gs) ->
  In g1 (map o_id gsa) -> In g2 (map o_id gsa) -> In g1 (map o_id gsb) -> In g2 (map o_id gsb) ->
  let h := map (tracked_frame trk) pre ++ tracked_frame trk gsa ::
           tracked_frame (swap_trk trk g1 g2) gsb :: map (tracked_frame (swap_trk trk g1 g2)) post in
  let a := clear_counts m T h in
  c_sw a = 2%nat /\ c_fp a = 0%nat /\ c_tp a = length (evaluated h).
Proof. exact swap_costs_two. Qed.
Print Assumptions C05_swap_costs_two.

(* ---------------------------------------------------------------------------------------------
   Reading not implemented by the code (reported as a finding): "the pairing a TP had in the previous
   frame" with the previous result judged as the previous frame's evaluation judged it -- by its OWN
   label's threshold, and only if its label is evaluated.  The code judges the previous result with
   the CURRENT result's threshold, whatever the previous result's label.
   --------------------------------------------------------------------------------------------- *)
Definition C05_prev_tp_by_own_label_statement : Prop :=
  forall m T (prevs curs : frame),
  (NoDup (map est_key prevs) /\ NoDup (gt_ids prevs)) -> (NoDup (map est_key curs) /\ NoDup (gt_ids curs)) ->
  let a := calc_tp_fp m T prevs curs in
  c_tp a = countb (spec_tp_own m T prevs) curs /\ c_sw a = countb (spec_sw_own m T prevs) curs.

(* witness 1 (labels CAR=1 thr 1, PEDESTRIAN=6 thr 2, policy ALLOW_UNKNOWN): estimate 0 (UNKNOWN) was a
   PEDESTRIAN TP at 1.5 m and is now a CAR TP on another ground truth: no switch is counted.
   witness 2 (label CAR only, policy ALLOW_ANY): estimate 0 (CAR) was matched to a TRUCK ground truth
   (not an evaluated result: neither TP nor FP) and is now a CAR TP: a switch IS counted. *)
Theorem C05_prev_tp_by_own_label_refuted :
  (exists m T prevs curs,
     (NoDup (map est_key prevs) /\ NoDup (gt_ids prevs)) /\ (NoDup (map est_key curs) /\ NoDup (gt_ids curs)) /\
     c_sw (calc_tp_fp m T prevs curs) = 0%nat /\ countb (spec_sw_own m T prevs) curs = 1%nat) /\
  (exists m T prevs curs,
     (NoDup (map est_key prevs) /\ NoDup (gt_ids prevs)) /\ (NoDup (map est_key curs) /\ NoDup (gt_ids curs)) /\
     c_sw (calc_tp_fp m T prevs curs) = 1%nat /\ countb (spec_sw_own m T prevs) curs = 0%nat /\
     countb (is_target T) prevs = 0%nat).
Proof.
  split.
  - exists Dist, [(1%nat, 1); (6%nat, 2)], [mkR 0 0 (Some (mkG 0 6 false true (3#2)))], [mkR 0 0 (Some (mkG 1 1 false true (1#2)))].
    repeat split; try (vm_compute; reflexivity); repeat constructor; simpl; intuition.
  - exists Dist, [(1%nat, 1)], [mkR 0 1 (Some (mkG 0 2 false true (1#4)))], [mkR 0 1 (Some (mkG 1 1 false true (1#4)))].
    repeat split; try (vm_compute; reflexivity); repeat constructor; simpl; intuition.
Qed.
Print Assumptions C05_prev_tp_by_own_label_refuted.

Theorem C05_prev_tp_by_own_label_contradicts : ~ C05_prev_tp_by_own_label_statement.
Proof.
  intros H. destruct C05_prev_tp_by_own_label_refuted as [(m & T & prevs & curs & U1 & U2 & E1 & E2) _].
  destruct (H m T prevs curs U1 U2) as [_ Hs]. cbv zeta in Hs. rewrite E1, E2 in Hs. discriminate.
Qed.
Print Assumptions C05_prev_tp_by_own_label_contradicts.

(* the two readings coincide when all evaluated labels share one threshold and every previous result
   is of an evaluated label (e.g. a per-label history under the default label policy) *)
Theorem C05_prev_tp_by_own_label_partial : forall m T t0 (prevs curs : frame),
  (forall l t, In (l, t) T -> t = t0) -> (forall p, In p prevs -> is_target T p = true) ->
  (forall t, pairing_consistent m t prevs) ->
  let a := calc_tp_fp m T prevs curs in
  c_tp a = countb (spec_tp_own m T prevs) curs /\ c_sw a = countb (spec_sw_own m T prevs) curs.
Proof. exact prev_tp_own_partial. Qed.
Print Assumptions C05_prev_tp_by_own_label_partial.

(* ---------------------------------------------------------------------------------------------
   Non-vacuity: concrete histories that satisfy the hypotheses and exercise the interesting branches
   --------------------------------------------------------------------------------------------- *)
(* ---------------------------------------------------------------------------------------------
   range of the scores: whenever no more TPs are counted than there are ground truths (what a one-to-one
   matcher guarantees), MOTA lies in [0, 1]; it is 1 exactly when every ground truth is tracked with no FP
   and no switch; the ground-truth-weighted total of _sum_clear lies in [0, 1] as well.
   --------------------------------------------------------------------------------------------- *)
Theorem C05_mota_unit_interval : forall m T numgt (h : list frame) x,
  (c_tp (clear_counts m T h) <= numgt)%nat ->
  k_mota (make_clear m T numgt h) = Some x -> 0 <= x <= 1.
Proof. intros m T numgt h x Hle H. exact (mota_of_unit numgt (clear_counts m T h) x Hle H). Qed.
Print Assumptions C05_mota_unit_interval.

Theorem C05_mota_one_iff : forall m T numgt (h : list frame),
  let a := clear_counts m T h in
  (c_tp a <= numgt)%nat -> (0 < numgt)%nat ->
  (oq_eq (k_mota (make_clear m T numgt h)) (Some 1) <-> (c_tp a = numgt /\ c_fp a = 0 /\ c_sw a = 0)%nat).
Proof. intros m T numgt h a Hle Hpos. exact (mota_of_one_iff numgt a Hle Hpos). Qed.
Print Assumptions C05_mota_one_iff.

Theorem C05_sum_clear_mota_unit_interval : forall (ks : list clear) x,
  Forall wf_clear ks -> Forall (fun k => (k_tp k <= k_numgt k)%nat) ks ->
  fst (fst (sum_clear ks)) = Some x -> 0 <= x <= 1.
Proof. exact sum_clear_mota_unit. Qed.
Print Assumptions C05_sum_clear_mota_unit_interval.

Definition ex_T : targets := [(1%nat, 1); (6%nat, 1 # 2)].
Definition R (e lab g : nat) (s : Q) : result := mkR e lab (Some (mkG g lab false true s)).

Definition cnt4 (a : counters) : nat * nat * nat * nat := (c_tp a, c_fp a, c_sw a, c_num a).

(* carry-over beyond the threshold with the previous score, one switch, one FP, MOTA and MOTP *)
Example C05_nonvacuous_history :
  let h := [[R 0 1 0 (1#2)]; [R 1 1 0 (1#4); mkR 7 1 None]; [R 1 1 0 3]; [R 1 1 0 3]] in
  (forall f, In f h -> NoDup (map est_key f) /\ NoDup (gt_ids f)) /\
  cnt4 (clear_counts Dist ex_T h) = (2, 2, 1, 4)%nat /\
  c_score (clear_counts Dist ex_T h) == 1#2 /\
  tp_score_list Dist ex_T h = [1#4; 1#4] /\
  oq_eq (k_mota (make_clear Dist ex_T 3 h)) (Some 0) /\
  oq_eq (k_motp (make_clear Dist ex_T 3 h)) (Some (1#4)).
Proof.
  cbv zeta. split; [|vm_compute; repeat split; reflexivity].
  intros f [<-|[<-|[<-|[<-|[]]]]]; vm_compute; split; repeat constructor; simpl; intuition discriminate.
Qed.

Definition ex_gs (s : Q) : list gtobj := [mkGT 0 1 s; mkGT 1 6 (1#4); mkGT 2 1 0].
Definition ex_trk (g : nat) : nat := (g + 10)%nat.
Example C05_nonvacuous_shapes :
  let l := [ex_gs (1#2); [mkGT 1 6 0]; ex_gs (1#8); ex_gs (3#4)] in
  (forall gs, In gs l -> all_matched Dist ex_T gs /\ gt_frame_ok (fun g => if Nat.eqb g 1 then 6%nat else 1%nat) gs) /\
  (forall x y, ex_trk x = ex_trk y -> x = y) /\ (forall x, ex_trk x <> 5%nat) /\
  cnt4 (clear_counts Dist ex_T (map (tracked_frame ex_trk) l)) = (7, 0, 0, 7)%nat /\
  cnt4 (clear_counts Dist ex_T (map (tracked_frame ex_trk) [ex_gs 0; ex_gs 0] ++
                                map (tracked_frame (upd ex_trk 0 5)) [ex_gs 0; ex_gs 0])) = (9, 0, 1, 9)%nat /\
  cnt4 (clear_counts Dist ex_T (map (tracked_frame ex_trk) [ex_gs 0; ex_gs 0] ++
                                map (tracked_frame (swap_trk ex_trk 0 1)) [ex_gs 0; ex_gs 0])) = (9, 0, 2, 9)%nat.
Proof.
  cbv zeta. split; [|split; [unfold ex_trk; intros; lia|split; [unfold ex_trk; intros; lia|vm_compute; repeat split; reflexivity]]].
  intros gs [<-|[<-|[<-|[<-|[]]]]]; (split; [intros o Ho; simpl in Ho; repeat (destruct Ho as [<-|Ho]; [vm_compute; eauto|]); destruct Ho
    |split; [vm_compute; repeat constructor; simpl; intuition discriminate
            |intros o Ho; simpl in Ho; repeat (destruct Ho as [<-|Ho]; [reflexivity|]); destruct Ho]]).
Qed.

(* labels with and without ground truths, with and without TPs: total MOTA = (1*2 + 0*4)/6, total MOTP = (1/2)/2 *)
Example C05_nonvacuous_sum :
  let ks := [make_clear Dist ex_T 2 [[R 0 1 0 0]; [R 0 1 0 (1#2)]; [R 0 1 0 (1#2)]];
             make_clear Dist ex_T 0 [[]; [mkR 3 6 None]];
             make_clear Dist ex_T 4 [[]; [mkR 3 6 None]]] in
  Forall wf_clear ks /\ Forall (fun k => (k_tp k <= k_numgt k)%nat) ks /\
  oq_eq (fst (fst (sum_clear ks))) (Some (2 # 6)) /\ oq_eq (snd (fst (sum_clear ks))) (Some (1 # 4)) /\ snd (sum_clear ks) = 0%nat.
Proof.
  cbv zeta. split; [repeat constructor; apply make_clear_wf|]. split; [repeat constructor; vm_compute; lia|]. vm_compute. repeat split; reflexivity.
Qed.
