(* C18 -- Coordinate transforms compose and invert consistently.
   Model: Model/Transform.v (HomogeneousMatrix = rational quaternion + translation + frame labels;
   TransformDict = list of matrices, later entries replace earlier ones with the same labels).
   All statements are for ALL rational quaternions of unit norm (hypothesis [qnorm2 q == 1] where it
   is needed; the composition / matrix laws are polynomial identities and need no hypothesis), all
   translations, all registries.  [veq]/[qeq]/[meq] are component-wise [==] on Q.
   Only statements, `exact`, Print Assumptions and non-vacuity examples here. *)
From Coq Require Import QArith List String Bool.
From PE Require Import Base.QUtil Base.StrUtil Model.EnumParse Gen.Enums Model.Transform Proofs.TransformProofs.
Import ListNotations.
Open Scope list_scope.
Open Scope Q_scope.

(* ---- inverse ------------------------------------------------------------------------------ *)

(* transform, then transform with inv(): the original position and the original orientation
   (exactly, not only up to the sign of the quaternion); and the other way round *)
Theorem C18_inv_apply_cancel : forall (T : rigid) (p : vec3) (r : quat),
  qnorm2 (rq T) == 1 ->
  veq (fst (apply_pose (inv T) (apply_pose T (p, r)))) p /\
  qeq (snd (apply_pose (inv T) (apply_pose T (p, r)))) r.
Proof. exact inv_apply_cancel. Qed.
Print Assumptions C18_inv_apply_cancel.

Theorem C18_apply_inv_cancel : forall (T : rigid) (p : vec3) (r : quat),
  qnorm2 (rq T) == 1 ->
  veq (fst (apply_pose T (apply_pose (inv T) (p, r)))) p /\
  qeq (snd (apply_pose T (apply_pose (inv T) (p, r)))) r.
Proof. exact apply_inv_cancel. Qed.
Print Assumptions C18_apply_inv_cancel.

(* inv() swaps the labels, keeps unit norm, and is an involution *)
Theorem C18_inv_frames_involutive : forall T : rigid,
  qnorm2 (rq T) == 1 ->
  rsrc (inv T) = rdst T /\ rdst (inv T) = rsrc T /\ qnorm2 (rq (inv T)) == 1 /\
  qeq (rq (inv (inv T))) (rq T) /\ veq (rt (inv (inv T))) (rt T) /\
  rsrc (inv (inv T)) = rsrc T /\ rdst (inv (inv T)) = rdst T.
Proof.
  intros T H. destruct (inv_frames T) as (A&B). destruct (inv_involutive T H) as (C&D&E&F).
  split; [exact A|]. split; [exact B|]. split; [apply inv_unit, H|].
  split; [exact C|]. split; [exact D|]. split; [exact E|exact F].
Qed.
Print Assumptions C18_inv_frames_involutive.

(* the closed form used for inv() is the two-sided inverse of the 4x4 matrix (what np.linalg.inv returns) *)
Theorem C18_inv_is_matrix_inverse : forall T : rigid,
  qnorm2 (rq T) == 1 ->
  meq (mmul (to_matrix (inv T)) (to_matrix T)) meye /\ meq (mmul (to_matrix T) (to_matrix (inv T))) meye.
Proof. exact inv_is_matrix_inverse. Qed.
Print Assumptions C18_inv_is_matrix_inverse.

(* ---- composition -------------------------------------------------------------------------- *)

(* self.dot(other): other first, then self *)
Theorem C18_compose_is_two_steps : forall (self other C : rigid) (p : vec3) (r : quat),
  dot self other = DotOk C ->
  veq (fst (apply_pose C (p, r))) (fst (apply_pose self (apply_pose other (p, r)))) /\
  qeq (snd (apply_pose C (p, r))) (snd (apply_pose self (apply_pose other (p, r)))).
Proof. exact compose_is_two_steps. Qed.
Print Assumptions C18_compose_is_two_steps.

(* A->B (other) with B->C (self) exists and is labelled A->C *)
Theorem C18_compose_frames : forall self other : rigid,
  rsrc self = rdst other ->
  exists C, dot self other = DotOk C /\ rsrc C = rsrc other /\ rdst C = rdst self /\
            (qnorm2 (rq self) == 1 -> qnorm2 (rq other) == 1 -> qnorm2 (rq C) == 1).
Proof.
  intros self other H. destruct (proj2 (dot_ok_iff self other) H) as [C HC]. exists C.
  destruct (compose_frames _ _ _ HC) as (A&B).
  split; [exact HC|]. split; [exact A|]. split; [exact B|]. apply compose_unit, HC.
Qed.
Print Assumptions C18_compose_frames.

Theorem C18_compose_mismatch_rejected : forall self other : rigid,
  rsrc self <> rdst other -> dot self other = DotValueError.
Proof. exact compose_mismatch_rejected. Qed.
Print Assumptions C18_compose_mismatch_rejected.

(* a chain F0->F1->...->Fn folded with transform(matrix) acts like the single steps in order and is
   labelled F0->Fn *)
Theorem C18_chain_is_stepwise : forall (l : list rigid) (acc C : rigid) (p : vec3) (r : quat),
  chain_from acc l = DotOk C ->
  veq (fst (apply_pose C (p, r))) (fst (apply_chain_pose l (apply_pose acc (p, r)))) /\
  qeq (snd (apply_pose C (p, r))) (snd (apply_chain_pose l (apply_pose acc (p, r)))) /\
  rsrc C = rsrc acc /\ rdst C = last (map rdst l) (rdst acc).
Proof. exact chain_is_stepwise. Qed.
Print Assumptions C18_chain_is_stepwise.

(* ---- agreement with homogeneous matrices -------------------------------------------------- *)

Theorem C18_apply_agrees_with_matrix : forall (T : rigid) (p : vec3) (r : quat),
  (* position: column 3 of  M(T) . M(identity rotation, p) *)
  veq (mat_position (mmul (to_matrix T) (hm qone p))) (apply_point T p) /\
  (* pose: M(T) . M(r, p) is the matrix of the transformed pose *)
  meq (mmul (to_matrix T) (hm r p)) (hm (snd (apply_pose T (p, r))) (fst (apply_pose T (p, r)))) /\
  (* and M(T) applied to the homogeneous coordinates (p, 1) *)
  rdot (w0 (to_matrix T)) (vx p) (vy p) (vz p) 1 == vx (apply_point T p) /\
  rdot (w1 (to_matrix T)) (vx p) (vy p) (vz p) 1 == vy (apply_point T p) /\
  rdot (w2 (to_matrix T)) (vx p) (vy p) (vz p) 1 == vz (apply_point T p) /\
  rdot (w3 (to_matrix T)) (vx p) (vy p) (vz p) 1 == 1.
Proof.
  intros T p r. destruct (apply_agrees_with_matrix T p r) as (A&B). split; [exact A|]. split; [exact B|].
  apply matrix_times_point.
Qed.
Print Assumptions C18_apply_agrees_with_matrix.

Theorem C18_compose_agrees_with_mmul : forall self other C : rigid,
  dot self other = DotOk C -> meq (to_matrix C) (mmul (to_matrix self) (to_matrix other)).
Proof. exact compose_agrees_with_mmul. Qed.
Print Assumptions C18_compose_agrees_with_mmul.

(* the rotation block really is a rotation: lengths are preserved, q and -q give the same rotation,
   and rot q v is the vector part of q (0,v) q^* *)
Theorem C18_rotation_facts : forall (q : quat) (v : vec3),
  (qnorm2 q == 1 -> vdot (rot q v) (rot q v) == vdot v v) /\
  veq (rot (qneg q) v) (rot q v) /\
  qeq (qmul (qmul q (qpure v)) (qconj q)) (qpure (rot q v)).
Proof.
  intros q v. split; [|split; [apply rot_neg|apply rot_is_sandwich]].
  intros H. rewrite rot_preserves_norm, H. ring.
Qed.
Print Assumptions C18_rotation_facts.

(* the rotation block: orthonormal rows for a unit quaternion, and inv() transposes it *)
Theorem C18_rotation_block_orthogonal : forall q : quat,
  qnorm2 q == 1 ->
  vdot (k1 (rotm q)) (k1 (rotm q)) == 1 /\ vdot (k2 (rotm q)) (k2 (rotm q)) == 1 /\ vdot (k3 (rotm q)) (k3 (rotm q)) == 1 /\
  vdot (k1 (rotm q)) (k2 (rotm q)) == 0 /\ vdot (k1 (rotm q)) (k3 (rotm q)) == 0 /\ vdot (k2 (rotm q)) (k3 (rotm q)) == 0 /\
  m3eq (rotm (qconj q)) (transpose3 (rotm q)).
Proof.
  intros q H. destruct (rotm_orthogonal q) as (A&B&C&D&E&F). rewrite H in A, B, C.
  split; [rewrite A; ring|]. split; [rewrite B; ring|]. split; [rewrite C; ring|].
  split; [exact D|]. split; [exact E|]. split; [exact F|]. apply rotm_conj_transpose.
Qed.
Print Assumptions C18_rotation_block_orthogonal.

(* ---- registry ----------------------------------------------------------------------------- *)
(* [registered_last reg s d m]: m is the last matrix labelled s->d given to TransformDict;
   [not_registered reg s d]: no matrix labelled s->d was given. *)

Theorem C18_registry_direct : forall (reg : registry) (a b : spelling) (s d : string) (m : rigid) p pr,
  canon a = Member s -> canon b = Member d -> s <> d ->
  (exists l1 l2, reg = l1 ++ m :: l2 /\ rsrc m = s /\ rdst m = d /\
                 (forall m', In m' l2 -> ~ (rsrc m' = s /\ rdst m' = d))) ->
  reg_transform_point reg a b p = TOk (apply_point m p) /\
  reg_transform_pose reg a b pr = TOk (apply_pose m pr).
Proof.
  intros reg a b s d m p pr Ha Hb Hn Hm.
  assert (L := registry_direct reg a b s d m Ha Hb Hn Hm).
  split; [apply reg_transform_point_use|apply reg_transform_pose_use]; exact L.
Qed.
Print Assumptions C18_registry_direct.

(* only d->s registered: the query s->d is answered with its inverse, i.e. with the pre-image under m *)
Theorem C18_registry_inverse_fallback : forall (reg : registry) (a b : spelling) (s d : string) (m : rigid) p r,
  canon a = Member s -> canon b = Member d -> s <> d ->
  (forall m', In m' reg -> ~ (rsrc m' = s /\ rdst m' = d)) ->
  (exists l1 l2, reg = l1 ++ m :: l2 /\ rsrc m = d /\ rdst m = s /\
                 (forall m', In m' l2 -> ~ (rsrc m' = d /\ rdst m' = s))) ->
  reg_transform_point reg a b p = TOk (apply_point (inv m) p) /\
  reg_transform_pose reg a b (p, r) = TOk (apply_pose (inv m) (p, r)) /\
  (qnorm2 (rq m) == 1 ->
     veq (fst (apply_pose m (apply_pose (inv m) (p, r)))) p /\
     qeq (snd (apply_pose m (apply_pose (inv m) (p, r)))) r).
Proof.
  intros reg a b s d m p r Ha Hb Hn Hno Hm.
  assert (L := registry_inverse_fallback reg a b s d m Ha Hb Hn Hno Hm).
  split; [apply reg_transform_point_use; exact L|]. split; [apply reg_transform_pose_use; exact L|].
  apply apply_inv_cancel.
Qed.
Print Assumptions C18_registry_inverse_fallback.

(* a matrix argument M : d->e is composed with the answer m : s->d into s->e, acting as "m, then M" *)
Theorem C18_registry_matrix_argument : forall (reg : registry) (a b : spelling) (m M : rigid) p r,
  reg_lookup reg a b = LUse m -> rsrc M = rdst m ->
  exists C, reg_transform_matrix reg a b M = TOk C /\ rsrc C = rsrc m /\ rdst C = rdst M /\
            veq (fst (apply_pose C (p, r))) (fst (apply_pose M (apply_pose m (p, r)))) /\
            qeq (snd (apply_pose C (p, r))) (snd (apply_pose M (apply_pose m (p, r)))).
Proof.
  intros reg a b m M p r L H. destruct (reg_transform_matrix_use reg a b m M L H) as (C&HC&HD&HS&HT).
  exists C. split; [exact HC|]. split; [exact HS|]. split; [exact HT|]. apply compose_is_two_steps, HD.
Qed.
Print Assumptions C18_registry_matrix_argument.

(* X->X: the arguments come back unchanged whatever is registered and however X is spelt *)
Theorem C18_registry_identity : forall (reg : registry) (a b : spelling) (k : string) p pr M,
  canon a = Member k -> canon b = Member k ->
  reg_transform_point reg a b p = TOk p /\ reg_transform_pose reg a b pr = TOk pr /\
  reg_transform_matrix reg a b M = TOk M.
Proof.
  intros reg a b k p pr M Ha Hb. apply reg_transform_identity. apply (registry_identity reg a b k Ha Hb).
Qed.
Print Assumptions C18_registry_identity.

Theorem C18_registry_missing_raises : forall (reg : registry) (a b : spelling) (s d : string) p pr M,
  canon a = Member s -> canon b = Member d -> s <> d ->
  (forall m, In m reg -> ~ (rsrc m = s /\ rdst m = d)) ->
  (forall m, In m reg -> ~ (rsrc m = d /\ rdst m = s)) ->
  reg_transform_point reg a b p = TKeyError /\ reg_transform_pose reg a b pr = TKeyError /\
  reg_transform_matrix reg a b M = TKeyError.
Proof.
  intros reg a b s d p pr M Ha Hb Hn H1 H2. apply reg_transform_key_error.
  apply (registry_missing_raises reg a b s d Ha Hb Hn H1 H2).
Qed.
Print Assumptions C18_registry_missing_raises.

(* keys: the value of a member in any letter case and the member itself denote the same frame, for
   TransformDict keys and for the src/dst of a HomogeneousMatrix; a string that names no member is
   rejected; the registry's answer depends only on the frames denoted *)
Theorem C18_key_spellings_equivalent :
  (forall k v s, In (k, v) (members FrameID_enum) -> lower v = lower s ->
     canon (inl s) = Member k /\ canon (inr k) = Member k /\
     canon_hm (inl s) = Member k /\ canon_hm (inr k) = Member k) /\
  (forall s, (forall k v, In (k, v) (members FrameID_enum) -> lower v <> lower s) ->
     canon (inl s) = Raises /\ forall reg b, reg_lookup reg (inl s) b = LValueError) /\
  (forall reg a a' b b', canon a = canon a' -> canon b = canon b' -> reg_lookup reg a b = reg_lookup reg a' b').
Proof.
  split; [exact canon_spellings|]. split; [|exact registry_spelling_independent].
  intros s H. split; [apply canon_non_member, H|].
  intros reg b. apply registry_unknown_name_rejected. left. apply canon_non_member, H.
Qed.
Print Assumptions C18_key_spellings_equivalent.

(* ---- non-vacuity -------------------------------------------------------------------------- *)
Definition ex_q1 : quat := mkQuat (1#5) (2#5) (2#5) (4#5).
Definition ex_q2 : quat := mkQuat (-2#7) (3#7) (6#7) 0.
Definition ex_T1 : rigid := mkRigid ex_q1 (mkVec 1 2 3) "BASE_LINK" "MAP".
Definition ex_T2 : rigid := mkRigid ex_q2 (mkVec (-5#8) 4 (1#2)) "CAM_FRONT" "BASE_LINK".

Example C18_nonvacuous_unit : qnorm2 (rq ex_T1) == 1 /\ qnorm2 (rq ex_T2) == 1 /\ ~ qeq ex_q1 qone.
Proof.
  split; [reflexivity|]. split; [reflexivity|]. unfold qeq. cbn. intros (H&_). discriminate H.
Qed.

(* a genuinely 3-d rotation: the point (1,0,0) goes to (0.4, 2.64, 3.48) as the code computes *)
Example C18_nonvacuous_apply :
  veq (apply_point ex_T1 (mkVec 1 0 0)) (mkVec (2#5) (66#25) (87#25)).
Proof. unfold veq. vm_compute. repeat split; reflexivity. Qed.

Example C18_nonvacuous_compose :
  exists C, dot ex_T1 ex_T2 = DotOk C /\ rsrc C = "CAM_FRONT"%string /\ rdst C = "MAP"%string /\
            dot ex_T2 ex_T1 = DotValueError.
Proof. eexists. split; [reflexivity|]. repeat split. Qed.

Example C18_nonvacuous_registry :
  reg_lookup [ex_T2; ex_T1] (inl "MAP"%string) (inr "BASE_LINK"%string) = LUse (inv ex_T1) /\
  reg_lookup [ex_T2; ex_T1] (inl "Base_Link"%string) (inl "map"%string) = LUse ex_T1 /\
  reg_lookup [ex_T2; ex_T1] (inl "MAP"%string) (inl "map"%string) = LIdentity /\
  reg_lookup [ex_T2; ex_T1] (inl "map"%string) (inr "CAM_FRONT"%string) = LKeyError /\
  reg_lookup [ex_T2; ex_T1] (inl "zzz"%string) (inl "zzz"%string) = LValueError.
Proof. repeat split; vm_compute; reflexivity. Qed.

(* ---- the folds evaluated by the correspondence -------------------------------------------- *)
(* chain_from_n / apply_chain_pose_n reduce every intermediate fraction to lowest terms; they are
   the functions run against the implementation, and they compute the same values as the plain
   folds the theorems above speak about *)
Theorem C18_normalised_folds_equivalent : forall (acc : rigid) (l : list rigid) (p : vec3) (r : quat),
  match chain_from_n acc l, chain_from acc l with
  | DotOk A, DotOk B => qeq (rq A) (rq B) /\ veq (rt A) (rt B) /\ rsrc A = rsrc B /\ rdst A = rdst B
  | DotValueError, DotValueError => True
  | _, _ => False
  end /\
  veq (fst (apply_chain_pose_n l (p, r))) (fst (apply_chain_pose l (p, r))) /\
  qeq (snd (apply_chain_pose_n l (p, r))) (snd (apply_chain_pose l (p, r))).
Proof.
  intros acc l p r. split; [exact (chain_from_n_correct acc l)|exact (apply_chain_pose_n_correct l p r)].
Qed.
Print Assumptions C18_normalised_folds_equivalent.
