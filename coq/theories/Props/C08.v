(* C08 -- Loosening a matching threshold never loses a TP and never lowers AP.
   Same model as C04 (Model/AP.v).  Statements only; proofs in Proofs/APModel.v, Proofs/APKinds.v. *)
From Coq Require Import List Bool ZArith.
From PE Require Import Base.QUtil Model.AP Proofs.APEnvelope Proofs.APRanking Proofs.APKinds Proofs.APModel.
Import ListNotations.
Open Scope Q_scope.

(* [looser m t t']: larger distance threshold / smaller IoU threshold *)
Theorem C08_better_than_monotone : forall m v t t',
  looser m t t' -> better_than m v t = true -> better_than m v t' = true.
Proof. exact better_than_monotone. Qed.
Print Assumptions C08_better_than_monotone.

(* a result with ordinary ground truth that is correct at t is correct at every looser t' *)
Theorem C08_result_correct_monotone : forall m r t t',
  gt_fp r = false -> looser m t t' ->
  is_result_correct m (Some t) r = true -> is_result_correct m (Some t') r = true.
Proof. exact result_correct_monotone. Qed.
Print Assumptions C08_result_correct_monotone.

(* [loosening_ok m f rs]: every result with a ground truth has an ordinary one, TP weights are in
   [0,1], and the new threshold f r of each result is defined iff the old one is, and is looser. *)
Theorem C08_tp_set_monotone : forall m f rs r, loosening_ok m f rs -> In r rs ->
  is_tp (classify m r) = true -> is_tp (classify m (set_thr f r)) = true.
Proof. exact tp_set_monotone. Qed.
Print Assumptions C08_tp_set_monotone.

Theorem C08_tp_count_monotone : forall m f rs, loosening_ok m f rs ->
  (count_tp (map (classify m) rs) <= count_tp (map (fun r => classify m (set_thr f r)) rs))%nat.
Proof. exact tp_count_monotone. Qed.
Print Assumptions C08_tp_count_monotone.

(* pass/fail lists (get_positive_objects / get_negative_objects): a matched result that is a TP stays
   a TP, a matched ground truth that is an FN at the looser threshold was one at the stricter; an
   unmatched ground truth is an FN whatever the threshold, so FN counts never increase *)
Theorem C08_positive_tp_monotone : forall m f r,
  thr_looser m (thr r) (f r) -> positive_tp m r = true -> positive_tp m (set_thr f r) = true.
Proof. exact positive_tp_monotone. Qed.
Print Assumptions C08_positive_tp_monotone.

Theorem C08_matched_fn_antitone : forall m f r,
  thr_looser m (thr r) (f r) -> matched_fn m (set_thr f r) = true -> matched_fn m r = true.
Proof. exact matched_fn_antitone. Qed.
Print Assumptions C08_matched_fn_antitone.

Theorem C08_matched_gt_is_tp_xor_fn : forall m r, has_gt r = true -> gt_fp r = false ->
  xorb (positive_tp m r) (matched_fn m r) = true.
Proof. exact positive_or_fn. Qed.
Print Assumptions C08_matched_gt_is_tp_xor_fn.

(* AP and APH (any TP weights in [0,1]) of the same results never decrease *)
Theorem C08_ap_threshold_monotone : forall m n f rs, loosening_ok m f rs ->
  ap_of_kinds n (ranking m rs) <= ap_of_kinds n (ranking m (map (set_thr f) rs)).
Proof. exact ap_threshold_monotone. Qed.
Print Assumptions C08_ap_threshold_monotone.

(* the general lemma behind it: pointwise larger TP weights never lower the interpolated area *)
Theorem C08_ap_monotone_in_tp_weights : forall n ks ks',
  kinds_le ks ks' -> weights_ok ks -> weights_ok ks' -> ap_of_kinds n ks <= ap_of_kinds n ks'.
Proof. exact ap_monotone. Qed.
Print Assumptions C08_ap_monotone_in_tp_weights.

(* mAP: definedness of each per-label AP does not depend on the threshold, so the mean is over the
   same labels and is monotone *)
Theorem C08_map_threshold_monotone : forall l l',
  Forall2 (fun a b => match a, b with
                      | None, None => True
                      | Some x, Some y => x <= y
                      | _, _ => False end) l l' ->
  match mean_defined l, mean_defined l' with
  | None, None => True
  | Some x, Some y => x <= y
  | _, _ => False
  end.
Proof. exact mean_defined_monotone. Qed.
Print Assumptions C08_map_threshold_monotone.

(* why false-positive-labelled ground truth is excluded by the property *)
Example C08_fp_label_counterexample :
  let r := mkRes 0 1 true true true (Some 1) (Some (Some (3 # 2))) 1 in
  is_result_correct Minimize (Some 1) r = true /\ is_result_correct Minimize (Some 2) r = false.
Proof. exact fp_label_counterexample. Qed.

Example C08_nonvacuous :
  let rs := [mkRes 0 (9#10) true false true (Some 1) (Some (Some (3#2))) 1;
             mkRes 1 (8#10) true false true (Some 1) (Some (Some (1#2))) 1] in
  let f := fun _ => Some 2 in
  loosening_ok Minimize f rs /\
  ap_of_kinds 2 (ranking Minimize rs) < ap_of_kinds 2 (ranking Minimize (map (set_thr f) rs)).
Proof.
  cbv zeta. split; [|vm_compute; reflexivity].
  intros r [<-|[<-|[]]]; simpl; repeat split; try lra; auto.
Qed.
