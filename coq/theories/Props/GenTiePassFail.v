(* Redundant tie, FRAME BOOKKEEPING layer: the loops around the tied decision functions -- filtering (filter_objects,
   filter_object_results) and the pass / fail split of a frame (get_status, get_positive_objects, get_negative_objects) -- are
   re-translated from the Python `ast` on every run (translator/loops_passfail.py -> Gen/loops_passfail.v: a `for` is a fold_left in
   the error monad, conditions short-circuit and narrow Optionals as Python does) and every theorem below says that a generated
   definition EQUALS the hand-model definition the C10 / C03 / pipeline theorems are about, for ALL inputs (lists of any length: the
   induction is in the loop rules of Proofs/GenTiePassFailLemmas.v; one iteration is closed by the generic tactic [tie]).
   Each theorem is self-contained (compiled on its own by the harness): the equation it needs about a decision function of
   Gen/Decisions.v is re-established inside its proof by the script of Props/GenTie.v (the tactics of this header). *)
From Coq Require Import List Bool ZArith Arith Lia String.
From PE Require Import Base.QUtil Proofs.GenTieLemmas Proofs.GenTiePassFailLemmas.
From PE Require Model.Filter Model.PassFail.
From PE Require Gen.Decisions Gen.loops_passfail.
Import Gen.Decisions Gen.loops_passfail.
Import ListNotations.
Import Filter.
Import PassFail.
Open Scope list_scope.
Open Scope Q_scope.

(* the equations of Props/GenTie.v these loops rest on, by the scripts used there *)
Ltac tie_is_target_object :=
  intros;
  cbv beta iota zeta delta [Gen__is_target_object.f Filter.is_target Filter.step Filter.num_thr Filter.label_thr
    Filter.points_step Filter.uuid_step Filter.position_of Filter.use_unknown_threshold Filter.is_contained_unknown
    Filter.conf_list PassFail.get_label_threshold andb orb negb fst snd option_map];
  tie.
Ltac tie_get_label_threshold :=
  intros; cbv beta iota zeta delta [Gen_get_label_threshold.f PassFail.get_label_threshold andb orb negb]; tie.
Ltac tie_is_result_correct :=
  intros;
  cbv beta iota zeta delta [Gen_is_result_correct_passfail.f Gen_PlaneDistanceMatching_is_better_than.f
    PassFail.is_result_correct PassFail.is_better_than andb orb negb];
  tie.
(* one iteration of a generated loop body against "classify with the model, then append": unfold the model's per-element
   function, then the generic decision-function tactic *)
Ltac iteration := intros; cbv beta; cbn [bind]; tie.
(* brings both sides to the form `bind <first call that can raise> (fun v => ...)`, enters the continuation when the calls agree and
   replaces the generated callees by their models as soon as their arguments are no longer bound variables *)
Ltac enter_binds HL HS :=
  repeat first [ rewrite HL | rewrite HS | rewrite bind_assoc | progress cbn [bind] | apply bind_ext; [reflexivity | intro] ].

(* the scripts of the pass / fail equations below (a theorem about a caller re-establishes the equations of its callees) *)
Ltac script_get_status :=
  let HC := fresh "HC" in
  assert (HC : forall thr r, Gen_is_result_correct_passfail.f thr r = PassFail.is_result_correct thr r) by tie_is_result_correct;
  intros thr r; unfold Gen_get_status.f, PassFail.get_status; rewrite HC; tie.
Ltac script_get_positive_objects :=
  let HS := fresh "HS" in let HL := fresh "HL" in
  assert (HS : forall thr r, Gen_get_status.f thr r = Ok (PassFail.get_status thr r)) by script_get_status;
  assert (HL : forall targets lbl (lst : option (list Q)), Gen_get_label_threshold.f targets lbl lst = PassFail.get_label_threshold targets lbl lst)
    by tie_get_label_threshold;
  intros pf rs; unfold Gen_get_positive_objects.f; cbv zeta;
  rewrite (loop_positive pf); [apply bind_ret_pair | | reflexivity | reflexivity];
  intros tp fp x; cbv beta; cbn [bind]; unfold classify_positive, positive_step, reemit;
  destruct (r_gt x) as [g|] eqn:Hg; enter_binds HL HS;
  (* which pairs of statuses exist is get_status's own definition *)
  unfold PassFail.get_status; rewrite ?Hg; tie.
Ltac script_get_negative_objects :=
  let HS := fresh "HS" in let HL := fresh "HL" in
  assert (HS : forall thr r, Gen_get_status.f thr r = Ok (PassFail.get_status thr r)) by script_get_status;
  assert (HL : forall targets lbl (lst : option (list Q)), Gen_get_label_threshold.f targets lbl lst = PassFail.get_label_threshold targets lbl lst)
    by tie_get_label_threshold;
  intros pf gts rs; unfold Gen_get_negative_objects.f; cbv zeta;
  rewrite (loop_negative_from pf); [ | | reflexivity | reflexivity];
  [ apply negative_compose; intros a b c; cbv beta iota;
    rewrite (loop_negative_rest_from c); [reflexivity|];
    intros tn fn g; cbv beta; cbn [bind]; rewrite existsb_map_some; unfold rest_step, key_mem; tie
  | intros tn fn nc x; cbv beta; cbn [bind]; unfold negative_status; cbv zeta; enter_binds HL HS;
    (* `gt_status == TN` tells Python nothing about `ground_truth_object`: that it is not None there is get_status's own definition *)
    unfold negative_step, snd, PassFail.get_status; tie ].

(* ---- filter_objects = Filter.filter_objects (an object is kept iff _is_target_object says so; order kept; first exception wins) -- *)
Theorem GenTie_filter_objects :
  forall (c : Cfg) (tf is_gt : bool) (objects : list Obj),
    Gen_filter_objects.f c tf is_gt objects = Filter.filter_objects c tf is_gt objects.
Proof.
  assert (HT : forall c tf g o, Gen__is_target_object.f c tf g o = Filter.is_target c tf g o) by tie_is_target_object.
  intros c tf is_gt objects. destruct c as [a1 a2 a3 a4 a5 a6 a7 a8 a9].
  unfold Gen_filter_objects.f, Filter.filter_objects. cbv zeta. cbn [c_targets c_ignore c_max_x c_max_y c_max_dist c_min_dist c_min_pts c_conf c_uuids].
  rewrite (loop_filter (is_target (mkCfg a1 a2 a3 a4 a5 a6 a7 a8 a9) tf is_gt)); [apply bind_ret | | reflexivity | reflexivity].
  intros acc x. rewrite HT. iteration.
Qed.
Print Assumptions GenTie_filter_objects.

Example GenTie_filter_objects_nonvacuous :
  let c := mkCfg (Some [2; 7]%nat) None (Some [10; 20]) None None None None (Some [1 # 2; 1 # 2]) None in
  let o (i l : nat) (x cf : Q) := mkObj i l "car" [] cf None true (Some (x, 0, x)) None i in
  let objs := [o 0%nat 2%nat 9 1;            (* kept *)
               o 1%nat 2%nat 10 1;           (* |x| exactly on the bound of its label: dropped *)
               o 2%nat 7%nat 15 1;           (* second label, wider bound: kept *)
               o 3%nat 7%nat 15 (1 # 4);     (* confidence below the threshold: dropped *)
               o 4%nat 1%nat 99 0;           (* FP-labelled: always kept *)
               o 5%nat 3%nat 1 1] in         (* label not targeted: dropped *)
  Gen_filter_objects.f c true false objs = Ok [o 0%nat 2%nat 9 1; o 2%nat 7%nat 15 1; o 4%nat 1%nat 99 0] /\
  Filter.filter_objects c true false objs = Ok [o 0%nat 2%nat 9 1; o 2%nat 7%nat 15 1; o 4%nat 1%nat 99 0] /\
  Gen_filter_objects.f (mkCfg None None (Some [10]) None None None None None None) true true objs = ErrType.
Proof. vm_compute. repeat split. Qed.

(* ---- filter_object_results = Filter.filter_object_results ------------------------------------------------------------------------
   a result is kept iff its estimate is a target (arguments of the estimate side) AND its ground truth, when there is one, is a
   target (arguments of the ground-truth side, evaluated only when the estimate passed); without ground truth it is dropped when a
   non-empty uuid list is targeted *)
Theorem GenTie_filter_object_results :
  forall (c : Cfg) (tf : bool) (object_results : list Res),
    Gen_filter_object_results.f c tf object_results = Filter.filter_object_results c tf object_results.
Proof.
  assert (HT : forall c tf g o, Gen__is_target_object.f c tf g o = Filter.is_target c tf g o) by tie_is_target_object.
  intros c tf rs.
  unfold Gen_filter_object_results.f, Filter.filter_object_results. cbv zeta.
  rewrite (loop_filter (result_target c tf)); [apply bind_ret | | reflexivity | reflexivity].
  intros acc x. rewrite !HT. unfold result_target, est_side, gt_side, uuids_nonempty. iteration.
Qed.
Print Assumptions GenTie_filter_object_results.

Example GenTie_filter_object_results_nonvacuous :
  let c := mkCfg (Some [2; 7]%nat) None (Some [10; 20]) None None None (Some [3; 0]%Z) (Some [1 # 2; 1 # 2]) None in
  let o (i l : nat) (x cf : Q) p := mkObj i l "car" [] cf None true (Some (x, 0, x)) p i in
  let r e g := mkRes e g true (Some 1) in
  let r0 := r (o 0%nat 2%nat 9 1 None) (Some (o 10%nat 2%nat 9 1 (Some 5%Z))) in       (* both sides pass *)
  let r1 := r (o 1%nat 2%nat 9 1 None) (Some (o 11%nat 2%nat 9 1 (Some 2%Z))) in       (* ground truth has too few points *)
  let r2 := r (o 2%nat 2%nat 9 (1 # 4) None) (Some (o 12%nat 2%nat 9 1 None)) in       (* estimate below its confidence threshold: the
                                                                                          ground truth (no point count) is not looked at *)
  let r3 := r (o 3%nat 7%nat 15 1 None) None in                                        (* no ground truth *)
  Gen_filter_object_results.f c true [r0; r1; r2; r3] = Ok [r0; r3] /\
  Filter.filter_object_results c true [r0; r1; r2; r3] = Ok [r0; r3] /\
  Gen_filter_object_results.f c true [r (o 2%nat 2%nat 9 1 None) (Some (o 12%nat 2%nat 9 1 None))] = ErrType.
Proof. vm_compute. repeat split. Qed.

(* ---- DynamicObjectWithPerceptionResult.get_status = PassFail.get_status ------------------------------------------------------------
   (estimate status, ground-truth status): without ground truth (FP, None); correct result: (FP, TN) for an FP-labelled ground truth,
   (TP, TP) otherwise; wrong result: (FP, FP) for an FP-labelled ground truth, (FP, FN) otherwise *)
Theorem GenTie_get_status :
  forall (thr : option Q) (r : Res), Gen_get_status.f thr r = Ok (PassFail.get_status thr r).
Proof. script_get_status. Qed.
Print Assumptions GenTie_get_status.

Example GenTie_get_status_nonvacuous :
  let o (l : nat) := mkObj 0 l "car" [] 1 None true None None 0 in
  let r gl ok v := mkRes (o 2%nat) (Some (o gl)) ok (Some v) in
  Gen_get_status.f (Some 1) (r 2%nat true (1 # 2)) = Ok (TP, Some TP) /\
  Gen_get_status.f (Some 1) (r 2%nat true 1) = Ok (FP, Some FN) /\             (* distance exactly on the threshold: not better *)
  Gen_get_status.f (Some 1) (r 1%nat false 2) = Ok (FP, Some TN) /\            (* FP-labelled ground truth, far enough *)
  Gen_get_status.f (Some 1) (r 1%nat false (1 # 2)) = Ok (FP, Some FP) /\
  Gen_get_status.f None (mkRes (o 2%nat) None false None) = Ok (FP, None) /\
  PassFail.get_status (Some 1) (r 1%nat false 2) = (FP, Some TN).
Proof. vm_compute. repeat split. Qed.

(* ---- get_positive_objects = PassFail.get_positive ------------------------------------------------------------------------------------
   the threshold is the one of the GROUND TRUTH's label; a result without ground truth is FP as it is; (FP, TN) is re-emitted
   WITHOUT its ground truth into the FP list; (FP, FP) and (FP, FN) go to the FP list as they are; (TP, TP) to the TP list *)
Theorem GenTie_get_positive_objects :
  forall (pf : PF) (object_results : list Res),
    Gen_get_positive_objects.f pf object_results = PassFail.get_positive pf object_results.
Proof. script_get_positive_objects. Qed.
Print Assumptions GenTie_get_positive_objects.

Example GenTie_get_positive_objects_nonvacuous :
  let pf := mkPF (Some [2; 7; 1]%nat) (Some [1; 2; 3]) in
  let o (i l : nat) := mkObj i l "car" [] 1 None true None None i in
  let r (i el : nat) g ok v := mkRes (o i el) g ok v in
  let r0 := r 0%nat 2%nat (Some (o 10%nat 2%nat)) true (Some (1 # 2)) in       (* TP *)
  let r1 := r 1%nat 2%nat (Some (o 11%nat 7%nat)) true (Some (3 # 2)) in       (* threshold of the GROUND TRUTH's label (2): TP *)
  let r2 := r 2%nat 7%nat (Some (o 12%nat 2%nat)) true (Some (3 # 2)) in       (* ... and here 1: too far, FP with its ground truth *)
  let r3 := r 3%nat 2%nat (Some (o 13%nat 1%nat)) false (Some 5) in            (* FP-labelled ground truth, far: re-emitted without it *)
  let r4 := r 4%nat 2%nat (Some (o 14%nat 1%nat)) false (Some (1 # 2)) in      (* FP-labelled ground truth, near: FP as it is *)
  let r5 := r 5%nat 2%nat None false None in                                   (* no ground truth: FP *)
  let r6 := r 6%nat 2%nat (Some (o 16%nat 3%nat)) true (Some 9) in             (* ground truth's label not targeted: label only, TP *)
  Gen_get_positive_objects.f pf [r0; r1; r2; r3; r4; r5; r6] = Ok ([r0; r1; r6], [r2; r 3%nat 2%nat None false None; r4; r5]) /\
  PassFail.get_positive pf [r0; r1; r2; r3; r4; r5; r6] = Ok ([r0; r1; r6], [r2; r 3%nat 2%nat None false None; r4; r5]) /\
  Gen_get_positive_objects.f (mkPF (Some [2; 7]%nat) (Some [1])) [r0; r1] = ErrIndex.
Proof. vm_compute. repeat split. Qed.

(* ---- get_negative_objects = PassFail.get_negative (every element of the generated lists is `Some` of the model's) ------------------
   first loop, over the results: the threshold of the ground truth's label (the estimate's label without ground truth); the ground
   truth goes to TN / FN by its status ((FP, FP) and (TP, TP): neither) and is remembered; second loop, over the ground truths: the
   ones not remembered (by DynamicObject.__eq__) are TN when FP-labelled, FN otherwise; results first, then the rest, in order *)
Theorem GenTie_get_negative_objects :
  forall (pf : PF) (ground_truth_objects : list Obj) (object_results : list Res),
    Gen_get_negative_objects.f pf ground_truth_objects object_results =
      bind (PassFail.get_negative pf ground_truth_objects object_results) (fun '(tn, fn) => Ok (map Some tn, map Some fn)).
Proof. script_get_negative_objects. Qed.
Print Assumptions GenTie_get_negative_objects.

Example GenTie_get_negative_objects_nonvacuous :
  let pf := mkPF (Some [2; 7; 1]%nat) (Some [1; 2; 3]) in
  let o (i l : nat) := mkObj i l "car" [] 1 None true None None i in
  let r (i el : nat) g ok v := mkRes (o i el) g ok v in
  let gts := [o 10%nat 2%nat; o 11%nat 2%nat; o 12%nat 1%nat; o 13%nat 1%nat; o 14%nat 7%nat; o 15%nat 1%nat] in
  let rs := [r 0%nat 2%nat (Some (o 10%nat 2%nat)) true (Some (1 # 2));        (* TP: its ground truth is neither TN nor FN *)
             r 1%nat 2%nat (Some (o 11%nat 2%nat)) true (Some 3);              (* matched by a failing estimate: FN, from the first loop *)
             r 2%nat 2%nat (Some (o 12%nat 1%nat)) false (Some 5);             (* FP-labelled, far: TN *)
             r 3%nat 2%nat (Some (o 13%nat 1%nat)) false (Some (1 # 2));       (* FP-labelled, near: (FP, FP), neither *)
             r 4%nat 2%nat None false None] in
  Gen_get_negative_objects.f pf gts rs = Ok ([Some (o 12%nat 1%nat); Some (o 15%nat 1%nat)], [Some (o 11%nat 2%nat); Some (o 14%nat 7%nat)]) /\
  PassFail.get_negative pf gts rs = Ok ([o 12%nat 1%nat; o 15%nat 1%nat], [o 11%nat 2%nat; o 14%nat 7%nat]).
Proof. vm_compute. repeat split. Qed.

(* ---- PassFailResult.evaluate (with its private helper __get_positive_object_results) -------------------------------------------------
   TP / FP = get_positive_objects of the results, TN / FN = get_negative_objects of (ground truths, results), both with the target
   labels and the matching thresholds of frame_pass_fail_config and the plane distance (3D task) *)
Theorem GenTie_PassFailResult_evaluate :
  forall (pf : PF) (object_results : list Res) (ground_truth_objects : list Obj),
    Gen_PassFailResult_evaluate.f pf object_results ground_truth_objects =
      bind (PassFail.get_positive pf object_results) (fun '(tp, fp) =>
      bind (PassFail.get_negative pf ground_truth_objects object_results) (fun '(tn, fn) =>
      Ok (tp, fp, map Some tn, map Some fn))).
Proof.
  assert (HP : forall pf rs, Gen_get_positive_objects.f pf rs = PassFail.get_positive pf rs) by script_get_positive_objects.
  assert (HN : forall pf gts rs, Gen_get_negative_objects.f pf gts rs =
                 bind (PassFail.get_negative pf gts rs) (fun '(tn, fn) => Ok (map Some tn, map Some fn))) by script_get_negative_objects.
  intros pf rs gts. destruct pf as [ts th].
  cbv beta zeta delta [Gen_PassFailResult_evaluate.f Gen_PassFailResult_get_positive_object_results.f]. cbn [pf_targets pf_thresholds].
  rewrite ?HP, ?HN. tie.
Qed.
Print Assumptions GenTie_PassFailResult_evaluate.

Example GenTie_PassFailResult_evaluate_nonvacuous :
  let pf := mkPF (Some [2; 7; 1]%nat) (Some [1; 2; 3]) in
  let o (i l : nat) := mkObj i l "car" [] 1 None true None None i in
  let r (i el : nat) g ok v := mkRes (o i el) g ok v in
  let gts := [o 10%nat 2%nat; o 11%nat 2%nat; o 12%nat 1%nat; o 14%nat 7%nat] in
  let r0 := r 0%nat 2%nat (Some (o 10%nat 2%nat)) true (Some (1 # 2)) in
  let r1 := r 1%nat 2%nat (Some (o 11%nat 2%nat)) true (Some 3) in
  let r2 := r 2%nat 2%nat (Some (o 12%nat 1%nat)) false (Some 5) in
  Gen_PassFailResult_evaluate.f pf [r0; r1; r2] gts =
    Ok ([r0], [r1; r 2%nat 2%nat None false None], [Some (o 12%nat 1%nat)], [Some (o 11%nat 2%nat); Some (o 14%nat 7%nat)]).
Proof. vm_compute. reflexivity. Qed.

(* ---- PassFailResult.get_num_success / get_num_fail = PassFail.num_success / num_fail ---------------------------------------------------- *)
Theorem GenTie_PassFailResult_get_num :
  forall fr : Frame,
    Gen_PassFailResult_get_num_success.f fr = Ok (PassFail.num_success fr) /\
    Gen_PassFailResult_get_num_fail.f fr = Ok (PassFail.num_fail fr).
Proof.
  intros fr. unfold Gen_PassFailResult_get_num_success.f, Gen_PassFailResult_get_num_fail.f, PassFail.num_success, PassFail.num_fail.
  cbv zeta. split; f_equal; lia.
Qed.
Print Assumptions GenTie_PassFailResult_get_num.

Example GenTie_PassFailResult_get_num_nonvacuous :
  let o (i : nat) := mkObj i 2 "car" [] 1 None true None None i in
  let r (i : nat) := mkRes (o i) None false None in
  Gen_PassFailResult_get_num_success.f (mkFrame [] [] [r 0%nat; r 1%nat] [r 2%nat] [o 3%nat] []) = Ok 3%nat /\
  Gen_PassFailResult_get_num_fail.f (mkFrame [] [] [r 0%nat; r 1%nat] [r 2%nat] [o 3%nat] []) = Ok 1%nat.
Proof. vm_compute. split; reflexivity. Qed.
