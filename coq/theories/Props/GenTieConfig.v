(* Redundant tie, CONFIGURATION ACCEPTANCE (C15, part 2): the methods that accept / normalise a configuration, translated from
   their Python `ast` on every run (translator/decisions_config.py -> Gen/decisions_config.v), EQUAL the hand model of
   Model/Config.v for ALL inputs: every configuration dictionary [c : cfg] (an association list from keys to Python values of
   any kind -- absent keys, keys present with value None, falsy values, lists, tuples, strs), every task, every label converter
   ([all] = the members of its label enum, [conv] = its convert_name).

   The generated functions return [xres _]: a value, or the CLASS of the exception ([of_res] embeds the model's result), so each
   equation is error for error.  Model/Config.v models the whole constructor ([accept]); the source is divided into methods, so
   each equation is about the SLICE of the model's executable definition that the method performs
   (Proofs/GenTieConfigLemmas.v: [extract_filters], [critical_rest], [passfail_rest], with [accept_factors] /
   [critical_accept_factors] / [passfail_accept_factors] proving that the model is the composition of its slices), for the variant
   [today] of the model's defect switches: F7 REPAIRED (both range kinds given -> RuntimeError), F8 NOT (unknown keys ignored).
   The dictionaries a method returns hold Python's None where the model has [None : option _] ([opt_py]).

   Each proof: open the definitions, [ctie] (the dict operations of the generated prelude = the model's lookup, the translated
   set_thresholds / check_thresholds = Model/Threshold.v by Props/GenTieThreshold.v, then: compute, split the test at the head,
   both sides perform the same tests on the same atoms).  Every theorem is compiled on its own by harness/lib/core.gen_tie. *)
From Coq Require Import String Ascii List Bool Arith ZArith Lia.
From PE Require Import Base.QUtil Base.StrUtil Model.EnumParse Gen.Enums Gen.ConfigTables Gen.LabelTables
                       Model.PyVal Model.Threshold Model.Config Proofs.ThresholdProofs Proofs.GenTieThresholdLemmas
                       Proofs.GenTieConfigLemmas.
From PE Require Gen.decisions_threshold Gen.decisions_config.
Import Gen.decisions_threshold Gen.decisions_config.
Import ListNotations.
Open Scope string_scope.
Open Scope list_scope.
Open Scope nat_scope.

(* what Model/Config.check_critical / check_passfail observe of a constructed object: len(target_labels) and the per-label lists *)
Definition crit_obs (r : list string * pyval * pyval * pyval * pyval * pyval * pyval * pyval * pyval * odict) : nat * list pyval :=
  let '(labels, _, x, y, d, e, mp, cf, _, _) := r in (length labels, [x; y; d; e; mp; cf]).
Definition pf_obs (r : string * list string * pyval * pyval) : nat * list pyval :=
  let '(_, labels, m, cf) := r in (length labels, [m; cf]).

(* ---- _EvaluationConfigBase._check_tasks = Config.check_tasks (KeyError / ValueError / the member key) ------------------------ *)
Theorem GenTie_check_tasks :
  forall (c : cfg), Gen_check_tasks.f perception_support_tasks c = of_res (Config.check_tasks c).
Proof.
  intros c. unfold Gen_check_tasks.f, check_tasks, py_in_strs, py_set_task. ctie.
Qed.
Print Assumptions GenTie_check_tasks.

(* ---- set_target_lists: the number of target labels = Config.target_count -------------------------------------------------- *)
Theorem GenTie_set_target_lists :
  forall (v : pyval) (all : list string) (conv : string -> string),
    xbind (Gen_set_target_lists.f v all conv) (fun labels => XOk (length labels)) = of_res (Config.target_count v (length all)).
Proof.
  intros v all conv. unfold Gen_set_target_lists.f, target_count.
  destruct v as [?|?|s| |l|l]; labels_tie.
Qed.
Print Assumptions GenTie_set_target_lists.

(* ---- PerceptionEvaluationConfig._extract_label_params: the error is Config.label_policy, then KeyError for label_prefix ---- *)
Theorem GenTie_extract_label_params :
  forall (c : cfg),
    Gen_extract_label_params.f c =
    xbind (of_res (policy_member c)) (fun pol =>
    match Config.lookup "label_prefix" c with
    | Some prefix => XOk (l_params_of prefix pol c)
    | None => XErr (Py KeyError)
    end).
Proof.
  intros c. unfold Gen_extract_label_params.f, policy_member, py_policy_from_str, l_params_of. ctie.
Qed.
Print Assumptions GenTie_extract_label_params.

(* ... in the model's own terms (Config.label_policy keeps the error only) *)
Theorem GenTie_extract_label_params_model :
  forall (c : cfg),
    xbind (Gen_extract_label_params.f c) (fun _ => XOk tt) =
    of_res (bind (Config.label_policy c) (fun _ =>
            match Config.lookup "label_prefix" c with Some _ => Ok tt | None => Err KeyError end)).
Proof.
  intros c. rewrite <- policy_member_label_policy.
  unfold Gen_extract_label_params.f, policy_member, py_policy_from_str. ctie.
Qed.
Print Assumptions GenTie_extract_label_params_model.

(* ---- PerceptionEvaluationConfig._extract_params = the slice [extract_filters today] of Config.accept ---------------------- *)
Theorem GenTie_extract_params :
  forall (task : string) (all : list string) (conv : string -> string) (c : cfg),
    Gen_extract_params.f task all conv c =
    xbind (Gen_set_target_lists.f (Config.get "target_labels" c) all conv) (fun labels =>
    xbind (of_res (extract_filters today task c (length labels))) (fun f =>
    XOk ((f_params_of labels f c, m_params_of labels c), labels))).
Proof.
  intros task all conv c.
  unfold Gen_extract_params.f, extract_filters, ranges, xy_given, dist_given, opt_thresholds, no_range, task_is_3d,
         f_params_of, m_params_of, opt_py, today.
  cbn [rejects_both_ranges rejects_unknown_keys]. ctie.
Qed.
Print Assumptions GenTie_extract_params.

(* ... in the model's own terms: len(target_labels) and the filtering dictionary without its label entry, error for error *)
Theorem GenTie_extract_params_model :
  forall (task : string) (all : list string) (conv : string -> string) (c : cfg),
    xbind (Gen_extract_params.f task all conv c) (fun r => XOk (length (snd r), tl (fst (fst r)))) =
    of_res (bind (Config.target_count (Config.get "target_labels" c) (length all)) (fun n =>
            bind (extract_filters today task c n) (fun f =>
            Ok (n, tl (f_params_of [] f c))))).
Proof.
  intros task all conv c.
  assert (L : xbind (Gen_set_target_lists.f (Config.get "target_labels" c) all conv) (fun labels => XOk (length labels)) =
              of_res (Config.target_count (Config.get "target_labels" c) (length all))).
  { unfold Gen_set_target_lists.f, target_count. destruct (Config.get "target_labels" c) as [?|?|s| |l|l]; labels_tie. }
  unfold Gen_extract_params.f. cfgnorm.
  destruct (Gen_set_target_lists.f (Config.get "target_labels" c) all conv) as [labels|e]; cbn [xbind] in L |- *;
    destruct (target_count (Config.get "target_labels" c) (length all)); try discriminate L; injection L as L; subst; [|reflexivity].
  unfold extract_filters, ranges, xy_given, dist_given, opt_thresholds, no_range, task_is_3d, f_params_of, opt_py, today, tl.
  cbn [rejects_both_ranges rejects_unknown_keys]. timeout 600 (solve [ cauto ]).
Qed.
Print Assumptions GenTie_extract_params_model.

(* ---- CriticalObjectFilterConfig.__init__ = the slice [critical_rest] of Config.critical_accept ------------------------------ *)
Theorem GenTie_critical_init :
  forall (task : string) (all : list string) (conv : string -> string) (a : cfg),
    Gen_critical_init.f task all conv
      (Config.get "target_labels" a) (Config.get "ignore_attributes" a) (Config.get "max_x_position_list" a)
      (Config.get "max_y_position_list" a) (Config.get "max_distance_list" a) (Config.get "min_distance_list" a)
      (Config.get "min_point_numbers" a) (Config.get "confidence_threshold_list" a) (Config.get "target_uuids" a) =
    xbind (Gen_set_target_lists.f (Config.get "target_labels" a) all conv) (fun labels =>
    xbind (of_res (critical_rest (negb (task_is_3d task)) (length labels) a)) (fun k =>
    XOk (labels, Config.get "ignore_attributes" a, opt_py (k_max_x k), opt_py (k_max_y k), opt_py (k_max_dist k),
         opt_py (k_min_dist k), opt_py (k_min_points k), opt_py (k_conf k), Config.get "target_uuids" a,
         critical_params_of labels k a))).
Proof.
  intros task all conv a.
  unfold Gen_critical_init.f, critical_rest, opt_check, no_range, task_is_3d, critical_params_of, opt_py. ctie.
Qed.
Print Assumptions GenTie_critical_init.

(* the constructor as it is CALLED (signature + body) = Config.critical_accept on what the model observes; the guard: only the nine
   parameters are passed and [target_labels] (no default) is among them *)
Theorem GenTie_critical_call :
  forall (task : string) (all : list string) (conv : string -> string) (a : cfg),
    dict_keys_in a critical_keys = true -> Config.lookup "target_labels" a <> None ->
    xbind (Gen_critical_init.call task all conv a) (fun r => XOk (crit_obs r)) =
    of_res (bind (Config.critical_accept (negb (task_is_3d task)) (length all) a) (fun k =>
            Ok (k_n k, map opt_py [k_max_x k; k_max_y k; k_max_dist k; k_min_dist k; k_min_points k; k_conf k]))).
Proof.
  intros task all conv a K T.
  assert (L : xbind (Gen_set_target_lists.f (Config.get "target_labels" a) all conv) (fun labels => XOk (length labels)) =
              of_res (Config.target_count (Config.get "target_labels" a) (length all))).
  { unfold Gen_set_target_lists.f, target_count. destruct (Config.get "target_labels" a) as [?|?|s| |l|l]; labels_tie. }
  unfold Gen_critical_init.call. change (dict_keys_in a _) with (dict_keys_in a critical_keys).
  rewrite K, critical_accept_factors. unfold Gen_critical_init.f. cfgnorm.
  replace (match Config.lookup "target_labels" a with Some v => XOk v | None => XErr (Py TypeError) end)
    with (XOk (A := pyval) (Config.get "target_labels" a)) by (unfold Config.get; destruct (Config.lookup "target_labels" a); congruence).
  cbn [xbind negb].
  destruct (Gen_set_target_lists.f (Config.get "target_labels" a) all conv) as [labels|e]; cbn [xbind] in L |- *;
    destruct (target_count (Config.get "target_labels" a) (length all)); try discriminate L; injection L as L; subst; [|reflexivity].
  unfold critical_rest, opt_check, no_range, task_is_3d, opt_py, crit_obs, map. timeout 600 (solve [ cauto ]).
Qed.
Print Assumptions GenTie_critical_call.

Theorem GenTie_critical_call_outside :
  forall (task : string) (all : list string) (conv : string -> string) (a : cfg),
    dict_keys_in a critical_keys = false \/ Config.lookup "target_labels" a = None ->
    Gen_critical_init.call task all conv a = XErr (Py TypeError).
Proof.
  intros task all conv a H. unfold Gen_critical_init.call. change (dict_keys_in a _) with (dict_keys_in a critical_keys).
  destruct (dict_keys_in a critical_keys); [|reflexivity]. destruct H as [H|H]; [discriminate|].
  cfgnorm. rewrite H. reflexivity.
Qed.
Print Assumptions GenTie_critical_call_outside.

(* ---- PerceptionPassFailConfig.__init__ = the slice [passfail_rest] of Config.passfail_accept -------------------------------- *)
Theorem GenTie_passfail_init :
  forall (task : string) (all : list string) (conv : string -> string) (a : cfg),
    Gen_passfail_init.f task all conv
      (Config.get "target_labels" a) (Config.get "matching_threshold_list" a) (Config.get "confidence_threshold_list" a) =
    xbind (Gen_set_target_lists.f (Config.get "target_labels" a) all conv) (fun labels =>
    xbind (of_res (passfail_rest (length labels) a)) (fun p =>
    XOk (task, labels, opt_py (p_matching p), opt_py (p_conf p)))).
Proof.
  intros task all conv a. unfold Gen_passfail_init.f, passfail_rest, opt_check, opt_py. ctie.
Qed.
Print Assumptions GenTie_passfail_init.

Theorem GenTie_passfail_call :
  forall (task : string) (all : list string) (conv : string -> string) (a : cfg),
    dict_keys_in a passfail_keys = true -> Config.lookup "target_labels" a <> None ->
    xbind (Gen_passfail_init.call task all conv a) (fun r => XOk (pf_obs r)) =
    of_res (bind (Config.passfail_accept (length all) a) (fun p => Ok (p_n p, map opt_py [p_matching p; p_conf p]))).
Proof.
  intros task all conv a K T.
  assert (L : xbind (Gen_set_target_lists.f (Config.get "target_labels" a) all conv) (fun labels => XOk (length labels)) =
              of_res (Config.target_count (Config.get "target_labels" a) (length all))).
  { unfold Gen_set_target_lists.f, target_count. destruct (Config.get "target_labels" a) as [?|?|s| |l|l]; labels_tie. }
  unfold Gen_passfail_init.call. change (dict_keys_in a _) with (dict_keys_in a passfail_keys).
  rewrite K, passfail_accept_factors. unfold Gen_passfail_init.f. cfgnorm.
  replace (match Config.lookup "target_labels" a with Some v => XOk v | None => XErr (Py TypeError) end)
    with (XOk (A := pyval) (Config.get "target_labels" a)) by (unfold Config.get; destruct (Config.lookup "target_labels" a); congruence).
  cbn [xbind negb].
  destruct (Gen_set_target_lists.f (Config.get "target_labels" a) all conv) as [labels|e]; cbn [xbind] in L |- *;
    destruct (target_count (Config.get "target_labels" a) (length all)); try discriminate L; injection L as L; subst; [|reflexivity].
  unfold passfail_rest, opt_check, opt_py, pf_obs, map. timeout 600 (solve [ cauto ]).
Qed.
Print Assumptions GenTie_passfail_call.

Theorem GenTie_passfail_call_outside :
  forall (task : string) (all : list string) (conv : string -> string) (a : cfg),
    dict_keys_in a passfail_keys = false \/ Config.lookup "target_labels" a = None ->
    Gen_passfail_init.call task all conv a = XErr (Py TypeError).
Proof.
  intros task all conv a H. unfold Gen_passfail_init.call. change (dict_keys_in a _) with (dict_keys_in a passfail_keys).
  destruct (dict_keys_in a passfail_keys); [|reflexivity]. destruct H as [H|H]; [discriminate|].
  cfgnorm. rewrite H. reflexivity.
Qed.
Print Assumptions GenTie_passfail_call_outside.

(* ---- SensingEvaluationConfig._extract_label_params / _extract_params (not in Model/Config.v: the equation is with the explicit
   dictionaries; nothing is validated, nothing can raise) ------------------------------------------------------------------- *)
Theorem GenTie_sensing_extract_params :
  forall (c : cfg),
    Gen_sensing_extract_label_params.f c =
      XOk [("label_prefix", DPy (get_or "label_prefix" (Str "autoware") c));
           ("merge_similar_labels", DPy (get_or "merge_similar_labels" (Bool false) c));
           ("count_label_number", DPy (get_or "count_label_number" (Bool true) c))] /\
    Gen_sensing_extract_params.f c =
      XOk ([("target_uuids", DPy (Config.get "target_uuids" c))],
           [("box_scale_0m", DPy (get_or "box_scale_0m" (Num 1) c));
            ("box_scale_100m", DPy (get_or "box_scale_100m" (Num 1) c));
            ("min_points_threshold", DPy (get_or "min_points_threshold" (Num 1) c))]).
Proof.
  intros c. unfold Gen_sensing_extract_label_params.f, Gen_sensing_extract_params.f. split; ctie.
Qed.
Print Assumptions GenTie_sensing_extract_params.

(* ---- non-vacuity: for each main theorem one accepted and one rejected configuration (both sides computed) --------------------- *)
Definition ex_all : list string := ["CAR"; "BICYCLE"; "PEDESTRIAN"].
Definition ex_conv (s : string) : string := if String.eqb s "car" then "CAR" else if String.eqb s "bicycle" then "BICYCLE" else "UNKNOWN".

Example GenTie_check_tasks_nonvacuous :
  Gen_check_tasks.f perception_support_tasks [("evaluation_task", Str "detection")] = XOk "DETECTION" /\
  Gen_check_tasks.f perception_support_tasks [("evaluation_task", Str "sensing")] = XErr (Py ValueError) /\
  Gen_check_tasks.f perception_support_tasks [("evaluation_task", NoneV)] = XErr (Py ValueError) /\
  Gen_check_tasks.f perception_support_tasks [] = XErr (Py KeyError) /\
  of_res (Config.check_tasks []) = XErr (Py KeyError).
Proof. vm_compute. repeat split; reflexivity. Qed.

Example GenTie_set_target_lists_nonvacuous :
  Gen_set_target_lists.f (List [Str "car"; Str "tram"]) ex_all ex_conv = XOk ["CAR"; "UNKNOWN"] /\
  Gen_set_target_lists.f (List []) ex_all ex_conv = XOk ex_all /\
  Gen_set_target_lists.f (Str "car") ex_all ex_conv = XOk ["UNKNOWN"; "UNKNOWN"; "UNKNOWN"] /\     (* a bare str: one name per character *)
  Gen_set_target_lists.f (List [Str "car"; Num 1]) ex_all ex_conv = XErr (Py AttributeError) /\
  Gen_set_target_lists.f (Num 0) ex_all ex_conv = XErr (Py TypeError) /\
  of_res (Config.target_count (Num 0) 3) = XErr (Py TypeError).
Proof. vm_compute. repeat split; reflexivity. Qed.

Example GenTie_extract_label_params_nonvacuous :
  Gen_extract_label_params.f [("label_prefix", Str "autoware"); ("allow_matching_unknown", Bool true)] =
    XOk [("label_prefix", DPy (Str "autoware")); ("merge_similar_labels", DPy (Bool false));
         ("matching_label_policy", DMember "ALLOW_UNKNOWN"); ("count_label_number", DPy (Bool true))] /\
  Gen_extract_label_params.f [("label_prefix", Str "autoware"); ("matching_label_policy", Str "allow_any")] =
    XOk [("label_prefix", DPy (Str "autoware")); ("merge_similar_labels", DPy (Bool false));
         ("matching_label_policy", DMember "ALLOW_ANY"); ("count_label_number", DPy (Bool true))] /\
  Gen_extract_label_params.f [("label_prefix", Str "autoware"); ("matching_label_policy", Str "strict")] = XErr (Py AssertionError) /\
  Gen_extract_label_params.f [("label_prefix", Str "autoware"); ("matching_label_policy", Num 1)] = XErr (Py AttributeError) /\
  Gen_extract_label_params.f [("matching_label_policy", Num 0)] = XErr (Py KeyError) /\
  of_res (Config.label_policy [("matching_label_policy", Num 1)]) = XErr (Py AttributeError).
Proof. vm_compute. repeat split; reflexivity. Qed.

(* accepted: x/y bounds broadcast to the two labels; 0 and 0.0 are VALID bounds (not None); rejected: both range kinds (F7, now an
   error), only three of the four range keys with an incomplete pair, a key present with value None counts as absent, detection
   without min_point_numbers, an unknown key is ignored (F8) *)
Definition ex_cfg : cfg :=
  [("target_labels", List [Str "car"; Str "bicycle"]); ("max_x_position", Num 0); ("max_y_position", List [Num 1; Num 2]);
   ("min_point_numbers", Num 0)].
Example GenTie_extract_params_nonvacuous :
  (exists fp mp, Gen_extract_params.f "DETECTION" ex_all ex_conv ex_cfg = XOk ((fp, mp), ["CAR"; "BICYCLE"]) /\
     nth_error fp 2 = Some ("max_x_position_list", DPy (List [Num 0; Num 0])) /\
     nth_error fp 3 = Some ("max_y_position_list", DPy (List [Num 1; Num 2])) /\
     nth_error fp 4 = Some ("max_distance_list", DPy NoneV) /\
     nth_error fp 7 = Some ("min_point_numbers", DPy (List [Num 0; Num 0]))) /\
  Gen_extract_params.f "DETECTION" ex_all ex_conv (("max_distance", Num 9) :: ("min_distance", Num 0) :: ex_cfg) = XErr (Py RuntimeError) /\
  (exists r, Gen_extract_params.f "DETECTION" ex_all ex_conv (("max_distance", Num 9) :: ex_cfg) = XOk r) /\
  Gen_extract_params.f "DETECTION" ex_all ex_conv [("max_x_position", Num 1); ("max_distance", Num 9); ("min_point_numbers", Num 0)] = XErr (Py RuntimeError) /\
  Gen_extract_params.f "DETECTION" ex_all ex_conv (("max_x_position", NoneV) :: ex_cfg) = XErr (Py RuntimeError) /\
  (exists r, Gen_extract_params.f "DETECTION2D" ex_all ex_conv [("max_x_position", NoneV)] = XOk r) /\
  Gen_extract_params.f "DETECTION" ex_all ex_conv [("max_x_position", Num 1); ("max_y_position", Num 1)] = XErr (Py RuntimeError) /\
  Gen_extract_params.f "DETECTION" ex_all ex_conv (("max_x_position", List []) :: ex_cfg) = XErr (Py ThresholdError) /\
  Gen_extract_params.f "DETECTION" ex_all ex_conv (("no_such_key", Num 1) :: ex_cfg) = Gen_extract_params.f "DETECTION" ex_all ex_conv ex_cfg /\
  of_res (extract_filters today "DETECTION" (("max_distance", Num 9) :: ("min_distance", Num 0) :: ex_cfg) 2) = XErr (Py RuntimeError).
Proof. vm_compute. repeat split; try reflexivity; eexists; try eexists; repeat split; reflexivity. Qed.

(* per-frame filter: lists of exactly one value per label; an EMPTY list / 0 counts as "not given" (truthiness, unlike the
   evaluation config); a tuple is accepted by check_thresholds; a scalar is a TypeError *)
Definition ex_crit : cfg := [("target_labels", List [Str "car"; Str "bicycle"]); ("max_x_position_list", List [Num 1; Num 2]);
                             ("max_y_position_list", List [Num 3; Num 4])].
Example GenTie_critical_init_nonvacuous :
  (exists fp, Gen_critical_init.call "DETECTION" ex_all ex_conv ex_crit =
     XOk (["CAR"; "BICYCLE"], NoneV, List [Num 1; Num 2], List [Num 3; Num 4], NoneV, NoneV, NoneV, NoneV, NoneV, fp)) /\
  Gen_critical_init.call "DETECTION" ex_all ex_conv (("max_x_position_list", List [Num 1]) :: ex_crit) = XErr (Py ThresholdError) /\
  Gen_critical_init.call "DETECTION" ex_all ex_conv (("max_x_position_list", List []) :: ex_crit) = XErr (Py RuntimeError) /\
  Gen_critical_init.call "DETECTION" ex_all ex_conv (("max_x_position_list", Num 5) :: ex_crit) = XErr (Py TypeError) /\
  Gen_critical_init.call "DETECTION" ex_all ex_conv [("max_x_position_list", List [Num 1])] = XErr (Py TypeError) /\
  Gen_critical_init.call "DETECTION" ex_all ex_conv (("no_such_argument", Num 1) :: ex_crit) = XErr (Py TypeError) /\
  of_res (critical_rest false 2 (("max_x_position_list", List []) :: ex_crit)) = XErr (Py RuntimeError).
Proof. vm_compute. repeat split; try reflexivity; eexists; reflexivity. Qed.

Example GenTie_passfail_init_nonvacuous :
  Gen_passfail_init.call "DETECTION" ex_all ex_conv [("target_labels", NoneV); ("matching_threshold_list", List [Num 1; Num 2; Num 3])] =
    XOk ("DETECTION", ex_all, List [Num 1; Num 2; Num 3], NoneV) /\
  Gen_passfail_init.call "DETECTION" ex_all ex_conv [("target_labels", NoneV); ("matching_threshold_list", List [Num 1; Num 2])] = XErr (Py ThresholdError) /\
  Gen_passfail_init.call "DETECTION" ex_all ex_conv [("target_labels", NoneV); ("confidence_threshold_list", List [])] = XErr (Py ThresholdError) /\
  Gen_passfail_init.call "DETECTION" ex_all ex_conv [("matching_threshold_list", List [Num 1; Num 2; Num 3])] = XErr (Py TypeError) /\
  of_res (passfail_rest 3 [("matching_threshold_list", List [Num 1; Num 2])]) = XErr (Py ThresholdError).
Proof. vm_compute. repeat split; reflexivity. Qed.

Example GenTie_sensing_extract_params_nonvacuous :
  Gen_sensing_extract_params.f [("box_scale_0m", Num 0)] =
    XOk ([("target_uuids", DPy NoneV)],
         [("box_scale_0m", DPy (Num 0)); ("box_scale_100m", DPy (Num 1)); ("min_points_threshold", DPy (Num 1))]).
Proof. vm_compute. reflexivity. Qed.
