(* C13 -- Scene scores pool the frame results; frame evaluation is history-independent.
   Models: Model/Manager.v (the manager as a state machine over abstract frame evaluation G,
   tracking scores T, scene score Sc) and Model/AP.v (buckets, Map).  Statements only. *)
From Coq Require Import List Bool Arith Permutation.
From PE Require Import Base.QUtil Model.AP Model.Manager Proofs.APRanking Proofs.ManagerProofs.
Import ListNotations.

Section C13.
Variables Frame Ests Cfg Core Track Scene : Type.
Variable G : Frame -> Ests -> Cfg -> Core.
Variable W : Frame -> Ests -> Cfg -> Frame.
Variable T : option Core -> Core -> Track.
Variable Sc : list Core -> Scene.

(* For EVERY sequence of add_frame_result / get_scene_result calls on a freshly loaded manager:
   the loaded dataset is unchanged, and the answers are exactly those of the specification, in which
   the answer to a call is a function of the ORIGINAL ground-truth frame, the estimates and the
   configurations of that call (plus the object results of the immediately preceding evaluation for
   the tracking scores; plus the frame results in order for a scene query). *)
Theorem C13_manager_refines_history_independent_spec : forall (d : list Frame) (ops : list (@op Ests Cfg)),
  let '(s', outs) := run Frame Ests Cfg Core Track Scene G W T Sc true (init Frame Core d) ops in
  ds s' = d /\ outs = spec_outs Frame Ests Cfg Core Track Scene G T Sc d [] ops.
Proof. exact (manager_refines_spec Frame Ests Cfg Core Track Scene G W T Sc). Qed.

(* the specification's answer to an evaluation: same core result whatever was done before ... *)
Theorem C13_frame_result_is_function_of_its_inputs : forall d before i e c f,
  nth_error d i = Some f ->
  exists tr, spec_out Frame Ests Cfg Core Track Scene G T Sc d before (Add i e c) = FrameOut (G f e c) tr.
Proof. exact (frame_core_independent_of_history Frame Ests Cfg Core Track Scene G T Sc). Qed.

(* ... and the same tracking scores after any two histories that end in the same evaluation *)
Theorem C13_frame_answer_history_independent : forall d before1 before2 i e c,
  last_opt (cores Frame Ests Cfg Core G d before1) = last_opt (cores Frame Ests Cfg Core G d before2) ->
  spec_out Frame Ests Cfg Core Track Scene G T Sc d before1 (Add i e c)
  = spec_out Frame Ests Cfg Core Track Scene G T Sc d before2 (Add i e c).
Proof. exact (frame_answer_history_independent Frame Ests Cfg Core Track Scene G T Sc). Qed.

(* a scene query answers with the score of the pooled frame results, in the order they were added;
   interleaved queries change nothing *)
Theorem C13_scene_is_pooled_frame_results : forall d before,
  spec_out Frame Ests Cfg Core Track Scene G T Sc d before Query
  = SceneOut (Sc (cores Frame Ests Cfg Core G d before)) /\
  cores Frame Ests Cfg Core G d (filter (fun o => match o with Query => false | _ => true end) before)
  = cores Frame Ests Cfg Core G d before.
Proof.
  intros d before. split; [reflexivity|apply queries_do_not_matter].
Qed.
End C13.
Print Assumptions C13_manager_refines_history_independent_spec.
Print Assumptions C13_frame_result_is_function_of_its_inputs.
Print Assumptions C13_frame_answer_history_independent.
Print Assumptions C13_scene_is_pooled_frame_results.

(* writing the filtered ground truth onto the dataset frame itself (no copy) violates the property *)
Theorem C13_no_copy_refuted :
  exists d ops,
    let '(s', outs) := run (list nat) unit nat (list nat) unit nat toyG toyW toyT toyS false (init _ _ d) ops in
    ds s' <> d /\ outs <> spec_outs (list nat) unit nat (list nat) unit nat toyG toyT toyS d [] ops.
Proof. exact no_copy_refuted. Qed.
Print Assumptions C13_no_copy_refuted.

(* ---- what "pooled" means for the detection scores (Model/AP.v) ------------------------------------------------ *)
(* ground-truth counts add up over frames *)
Theorem C13_gt_counts_add : forall L (gtss : list (list nat)),
  count_label L (concat gtss) = fold_right (fun g acc => (count_label L g + acc)%nat) 0%nat gtss.
Proof. exact gt_counts_add. Qed.
Print Assumptions C13_gt_counts_add.

(* the per-label results the scene Ap sees (concatenated per-frame buckets) are the bucket of the pooled results *)
Theorem C13_pooled_buckets : forall targets L t (frames : list (list lres)),
  concat (map (label_results targets L t) frames) = label_results targets L t (concat frames).
Proof. intros. symmetry. apply label_results_concat. Qed.
Print Assumptions C13_pooled_buckets.

(* a one-frame scene reproduces that frame's detection score *)
Theorem C13_one_frame_scene_eq_frame : forall m targets thrs (gts : list nat) (xs : list lres),
  label_aps m targets thrs (concat [gts]) (concat [xs]) = label_aps m targets thrs gts xs /\
  map_model m targets thrs (concat [gts]) (concat [xs]) = map_model m targets thrs gts xs.
Proof. intros. simpl. now rewrite !app_nil_r. Qed.
Print Assumptions C13_one_frame_scene_eq_frame.

(* pooled AP and pooled ground-truth counts do not depend on the order in which frames were added,
   when confidences are distinct *)
Theorem C13_pooled_ap_order_independent : forall m n targets L t (frames frames' : list (list lres)),
  Permutation frames frames' ->
  distinct_keys conf (label_results targets L t (concat frames)) ->
  ap_model m n (label_results targets L t (concat frames)) = ap_model m n (label_results targets L t (concat frames')).
Proof. exact pooled_ap_order_independent. Qed.
Print Assumptions C13_pooled_ap_order_independent.

Theorem C13_pooled_count_order_independent : forall L (gtss gtss' : list (list nat)),
  Permutation gtss gtss' -> count_label L (concat gtss) = count_label L (concat gtss').
Proof. exact pooled_count_order_independent. Qed.
Print Assumptions C13_pooled_count_order_independent.

(* with tied confidences the order can matter: the hypothesis is needed *)
Example C13_ties_make_order_matter :
  let a := mkL (mkRes 0 (1#2) true false true None (Some (Some (1#4))) 1) 1 (Some 1%nat) in
  let b := mkL (mkRes 1 (1#2) false false false None None 1) 1 None in
  ap (ap_model Minimize 1 (label_results [1%nat] 1 1 (concat [[a]; [b]])))
  <> ap (ap_model Minimize 1 (label_results [1%nat] 1 1 (concat [[b]; [a]]))).
Proof. vm_compute. intro H. discriminate H. Qed.

Example C13_nonvacuous_distinct :
  let a := mkL (mkRes 0 (1#2) true false true None (Some (Some (1#4))) 1) 1 (Some 1%nat) in
  let b := mkL (mkRes 1 (1#4) false false false None None 1) 1 None in
  distinct_keys conf (label_results [1%nat] 1 1 (concat [[a]; [b]])) /\ Permutation [[a]; [b]] [[b]; [a]].
Proof.
  cbv zeta. split; [|apply perm_swap]. simpl. repeat split; auto.
  intros y [<-|[]]. simpl. intro H. discriminate H.
Qed.
