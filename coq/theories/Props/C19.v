(* C19 -- Analysis tables are a faithful tabulation of the frame results.
   Model: Model/Analyzer.v (PerceptionAnalyzer3D.add / add_frame / format2df / format2dict, get_num_*, get_pair_results,
   calculate_error, summarize_error, summarize_ratio, get_confusion_matrix, analyze, generate_area_points / get_area_idx,
   get_object_status); proofs: Proofs/AnalyzerProofs.v, Proofs/AnalyzerProofs2.v.  Statements only.

   Vocabulary: a frame result [f] is its four pass/fail lists f_tp (estimate, ground truth), f_fp (estimate, ground truth
   option), f_tn, f_fn, its frame number and f_ncrit = the number of critical ground truths.  [build areas scenes] is the
   table after analyzer.add(scene) for every scene in turn; [all_frames scenes] are all frame results; [sum_over F l] is the
   sum of F over l.  Counters take a keyword selection ([] = none).
   [accounted f] is C03's conservation law for the frame: f_ncrit = |TP| + |TN| + |FN| + |FP pairs whose ground truth is
   FP-labelled| (every critical ground truth is in exactly one of these); the correspondence checks it on every real frame. *)
From Coq Require Import List Bool ZArith Arith.
From PE Require Import Base.QUtil Model.Analyzer Proofs.AnalyzerProofs Proofs.AnalyzerProofs2.
Import ListNotations.
Open Scope Q_scope.

(* ---- 1. the table: one (ground-truth row, estimate row) pair per TP, FP, TN, FN item of every frame, in this order,
   scene after scene, numbered 0, 1, 2, ...; a TP/FP pair carries the estimate's area on both rows *)
Theorem C19_table_is_the_tabulation : forall areas scenes,
  map (fun e => (e_gt e, e_est e)) (build areas scenes) = scene_rows areas 0 scenes /\
  map e_idx (build areas scenes) = seq 0 (List.length (build areas scenes)).
Proof. intros. split; [apply build_rows|apply build_numbered]. Qed.
Print Assumptions C19_table_is_the_tabulation.

(* ---- 2. per-status counts = sizes of the pass/fail lists, over all scenes and frames *)
Theorem C19_status_counts_eq_list_sizes : forall areas scenes,
  let T := build areas scenes in
  num_tp [] T = sum_over (fun f => List.length (f_tp f)) (all_frames scenes) /\
  num_fp [] T = sum_over (fun f => List.length (f_fp f)) (all_frames scenes) /\
  num_tn [] T = sum_over (fun f => List.length (f_tn f)) (all_frames scenes) /\
  num_fn [] T = sum_over (fun f => List.length (f_fn f)) (all_frames scenes).
Proof. exact status_counts_eq_list_sizes. Qed.
Print Assumptions C19_status_counts_eq_list_sizes.

(* ... and per scene (scene = k selects exactly the frames of the k-th add) *)
Theorem C19_status_counts_per_scene : forall areas scenes k,
  let T := build areas scenes in
  let frs := nth k scenes [] in
  num_tp [CScene [k]] T = sum_over (fun f => List.length (f_tp f)) frs /\
  num_fp [CScene [k]] T = sum_over (fun f => List.length (f_fp f)) frs /\
  num_tn [CScene [k]] T = sum_over (fun f => List.length (f_tn f)) frs /\
  num_fn [CScene [k]] T = sum_over (fun f => List.length (f_fn f)) frs /\
  num_estimation [CScene [k]] T = sum_over (fun f => (List.length (f_tp f) + List.length (f_fp f))%nat) frs.
Proof. exact status_counts_per_scene. Qed.
Print Assumptions C19_status_counts_per_scene.

(* ... and under ANY keyword selection cs (label / scene / frame / area / status / uuid): the number of items whose own row
   satisfies the selection (estimate row for TP/FP, ground-truth row for TN/FN) *)
Theorem C19_status_counts_selected : forall areas cs scenes,
  let T := build areas scenes in
  num_tp cs T = sum_scenes (fun k f => List.length (filter (fun p : Obj * Obj => row_ok cs (est_row areas k f TP (fst p))) (f_tp f))) 0 scenes /\
  num_fp cs T = sum_scenes (fun k f => List.length (filter (fun p : Obj * option Obj => row_ok cs (est_row areas k f FP (fst p))) (f_fp f))) 0 scenes /\
  num_tn cs T = sum_scenes (fun k f => List.length (filter (fun g => row_ok cs (gt_row_alone areas k f TN g)) (f_tn f))) 0 scenes /\
  num_fn cs T = sum_scenes (fun k f => List.length (filter (fun g => row_ok cs (gt_row_alone areas k f FN g)) (f_fn f))) 0 scenes.
Proof.
  intros. repeat split; [apply num_tp_selected|apply num_fp_selected|apply num_tn_selected|apply num_fn_selected].
Qed.
Print Assumptions C19_status_counts_selected.

(* ---- 3. estimate count = number of evaluated estimates *)
Theorem C19_estimate_count_eq_evaluated : forall areas scenes,
  num_estimation [] (build areas scenes) =
    sum_over (fun f => (List.length (f_tp f) + List.length (f_fp f))%nat) (all_frames scenes).
Proof. exact estimate_count_eq_evaluated. Qed.
Print Assumptions C19_estimate_count_eq_evaluated.

(* ---- 4. ground-truth count.  The property says: = number of critical ground truths. *)
Definition C19_gt_count_eq_critical_gt_statement : Prop :=
  forall areas scenes,
    (forall f, In f (all_frames scenes) -> accounted f) ->
    num_ground_truth [] (build areas scenes) = sum_over f_ncrit (all_frames scenes).

(* what the table really counts: every TP, every FP pair that has a ground truth, every TN, every FN *)
Theorem C19_gt_count_formula : forall areas scenes,
  num_ground_truth [] (build areas scenes) =
    sum_over (fun f => (List.length (f_tp f) + List.length (fp_with_gt f) + List.length (f_tn f) + List.length (f_fn f))%nat)
             (all_frames scenes).
Proof. exact gt_count_formula. Qed.
Print Assumptions C19_gt_count_formula.

(* hence: critical ground truths + the FP pairs whose ground truth is an ordinary (not FP-labelled) one -- such a ground
   truth is also in fn_objects and is tabulated twice (F11) *)
Theorem C19_gt_count_overcount : forall areas scenes,
  (forall f, In f (all_frames scenes) -> accounted f) ->
  num_ground_truth [] (build areas scenes) =
    (sum_over f_ncrit (all_frames scenes) + sum_over (fun f => List.length (fp_ordinary f)) (all_frames scenes))%nat.
Proof. exact gt_count_overcount. Qed.
Print Assumptions C19_gt_count_overcount.

(* F11 witness (replayed against the real analyzer by harness/props/C19.py: known_probe): one frame, critical ground truths
   g0 g1 g2, TP (t0, g0), FP (t1, g1), FN [g1; g2]: num_ground_truth = 4 *)
Theorem C19_gt_count_eq_critical_gt_refuted :
  exists areas scenes,
    (forall f, In f (all_frames scenes) -> accounted f) /\
    num_ground_truth [] (build areas scenes) = 4%nat /\ sum_over f_ncrit (all_frames scenes) = 3%nat.
Proof. exact gt_count_eq_critical_gt_refuted. Qed.
Print Assumptions C19_gt_count_eq_critical_gt_refuted.

Theorem C19_gt_count_eq_critical_gt_statement_is_false : ~ C19_gt_count_eq_critical_gt_statement.
Proof. exact gt_count_statement_false. Qed.
Print Assumptions C19_gt_count_eq_critical_gt_statement_is_false.

(* the exact guard: the equality holds if and only if no FP pair carries an ordinary ground truth *)
Theorem C19_gt_count_eq_critical_gt_partial : forall areas scenes,
  (forall f, In f (all_frames scenes) -> accounted f) ->
  (num_ground_truth [] (build areas scenes) = sum_over f_ncrit (all_frames scenes)
   <-> forall f, In f (all_frames scenes) -> fp_ordinary f = []).
Proof. exact gt_count_eq_critical_iff. Qed.
Print Assumptions C19_gt_count_eq_critical_gt_partial.

(* ---- 5. errors = ground truth minus estimate of the paired items.  [paired_items scenes] are the (estimate, ground truth)
   pairs of every frame: its TP pairs, then its FP pairs that have a ground truth.  [item_error P c (e, g)] is
   col c g - col c e, wrapped by [wrap P] for the yaw column; the "distance" column is kept squared. *)
Theorem C19_errors_are_paired_differences : forall P c areas scenes,
  calculate_error P c (build areas scenes) = map (item_error P c) (paired_items scenes) /\
  calculate_distance2 (build areas scenes) = map item_dist2 (paired_items scenes).
Proof. exact errors_are_paired_differences. Qed.
Print Assumptions C19_errors_are_paired_differences.

(* the yaw error of two yaws in [-P, P] (P = the value used for pi) lies in [-P, P] and is the difference modulo 2P *)
Theorem C19_yaw_error_wrapped : forall P g e,
  0 < P -> - P <= g <= P -> - P <= e <= P ->
  - P <= wrap P (g - e) <= P /\
  (wrap P (g - e) == g - e \/ wrap P (g - e) == g - e - 2 * P \/ wrap P (g - e) == g - e + 2 * P).
Proof. exact yaw_error_wrapped. Qed.
Print Assumptions C19_yaw_error_wrapped.

(* ---- 6. summaries: average, RMS (kept squared: s_ms), std (kept squared: s_var), max |.|, min |.| of a non-empty error list *)
Theorem C19_summaries_are_mean_rms_std_max_min : forall l, l <> [] ->
  exists s, summarize l = Some s /\
    let n := Qnat (List.length l) in
    s_avg s * n == qsum l /\
    s_ms s * n == qsum (map (fun v => v * v) l) /\
    s_var s * n == qsum (map (fun v => (v - s_avg s) * (v - s_avg s)) l) /\
    s_var s == s_ms s - s_avg s * s_avg s /\ 0 <= s_var s /\
    (forall v, In v l -> qabs v <= s_max s) /\ (exists v, In v l /\ s_max s = qabs v) /\
    (forall v, In v l -> s_min s <= qabs v) /\ (exists v, In v l /\ s_min s = qabs v).
Proof. exact summaries_defs. Qed.
Print Assumptions C19_summaries_are_mean_rms_std_max_min.

(* the "ALL" row of summarize_error on the built table summarizes exactly those differences (None = all NaN when there is
   no paired item); a label row summarizes the error pairs of the row pairs whose ground-truth row has that label *)
Theorem C19_summary_all_is_summary_of_paired_differences : forall P c areas scenes,
  summarize_error P None c (build areas scenes) = summarize (map (item_error P c) (paired_items scenes)).
Proof. exact summarize_error_all_build. Qed.
Print Assumptions C19_summary_all_is_summary_of_paired_differences.

Theorem C19_summary_label_is_summary_of_label_pairs : forall P l c t,
  summarize_error P (Some l) c t =
    match label_entries l t with [] => None | t' => summarize (calculate_error P c t') end.
Proof. exact summarize_error_label_def. Qed.
Print Assumptions C19_summary_label_is_summary_of_label_pairs.

(* ---- 7. rates.  [ratios_in01 r]: the TP, FP, TN, FN rates of the row are all in [0, 1].
   The "ALL" row: every built table and every selection q of its row pairs (analyze() selects with such a q), F11 overcount
   included; no hypothesis. *)
Theorem C19_rates_unit_interval_all : forall areas scenes (q : Entry -> bool),
  ratios_in01 (ratio_row None (filter q (build areas scenes))).
Proof. exact rates_unit_interval_all. Qed.
Print Assumptions C19_rates_unit_interval_all.

(* a label row.  The property says: in [0, 1]. *)
Definition C19_label_rates_unit_interval_statement : Prop :=
  forall areas scenes l,
    (forall f, In f (all_frames scenes) -> accounted f) ->
    ratios_in01 (ratio_row (Some l) (build areas scenes)).

(* F15 witness (replayed against the real analyzer by harness/props/C19.py: known_probe): "unknown" is a target label, two
   unknown estimates are TP on two car ground truths, one unknown ground truth is missed: TP rate of "unknown" = 2/1 *)
Theorem C19_label_rates_unit_interval_refuted :
  exists areas scenes l,
    (forall f, In f (all_frames scenes) -> accounted f) /\
    1 < q_tp (ratio_row (Some l) (build areas scenes)).
Proof. exact label_rate_unit_interval_refuted. Qed.
Print Assumptions C19_label_rates_unit_interval_refuted.

Theorem C19_label_rates_unit_interval_statement_is_false : ~ C19_label_rates_unit_interval_statement.
Proof. exact label_rates_statement_false. Qed.
Print Assumptions C19_label_rates_unit_interval_statement_is_false.

(* the guard: TP pairs carry equal labels (then also under every selection q) *)
Theorem C19_rates_unit_interval_label_partial : forall areas scenes (q : Entry -> bool) l,
  (forall f e g, In f (all_frames scenes) -> In (e, g) (f_tp f) -> o_label e = o_label g) ->
  ratios_in01 (ratio_row (Some l) (filter q (build areas scenes))).
Proof. exact rates_unit_interval_label. Qed.
Print Assumptions C19_rates_unit_interval_label_partial.

(* analyze(selection, distance=...): the first row ("ALL") always, every row under the guard *)
Theorem C19_analyze_rates_unit_interval : forall P nt nc cs dist areas scenes a,
  analyze P nt nc cs dist (build areas scenes) = Some a ->
  (exists r rest, a_ratio a = r :: rest /\ ratios_in01 r) /\
  ((forall f e g, In f (all_frames scenes) -> In (e, g) (f_tp f) -> o_label e = o_label g) ->
   forall r, In r (a_ratio a) -> ratios_in01 r).
Proof. exact analyze_rates_unit_interval. Qed.
Print Assumptions C19_analyze_rates_unit_interval.

(* ---- 8. confusion matrix of ANY table t (so also of every selection): nc x nc, sums to the number of paired rows, entry
   [i][j] = number of paired rows with ground-truth label i and estimate label j; None iff no paired row; it raises
   (list.index) iff a paired row has a label outside the nc known ones *)
Theorem C19_confusion_matrix_sums_to_pairs : forall nc t,
  match get_confusion_matrix nc t with
  | CMOk m =>
      labels_ok nc (pair_results t) /\ pair_results t <> [] /\
      List.length m = nc /\
      list_sum (concat m) = List.length (pair_results t) /\
      forall i j, (i < nc)%nat -> (j < nc)%nat ->
        nth j (nth i m []) 0%nat =
          List.length (filter (fun p : Row * Row => Nat.eqb (o_label (r_obj (fst p))) i && Nat.eqb (o_label (r_obj (snd p))) j)
                              (pair_results t))
  | CMNone => pair_results t = []
  | CMError => ~ labels_ok nc (pair_results t)
  end.
Proof. exact confusion_sums_to_pairs. Qed.
Print Assumptions C19_confusion_matrix_sums_to_pairs.

(* on the built table the paired rows are the paired items of the frames *)
Theorem C19_paired_rows_count : forall areas scenes,
  List.length (pair_results (build areas scenes)) =
    sum_over (fun f => (List.length (f_tp f) + List.length (fp_with_gt f))%nat) (all_frames scenes).
Proof. exact pair_results_build_length. Qed.
Print Assumptions C19_paired_rows_count.

(* ---- 9. get_area_idx on the areas of generate_area_points, for ALL rational max_x, max_y and every point (x, y).
   Vocabulary (Proofs/AnalyzerProofs2.v): [in_band M k v] = v lies strictly inside the k-th third of (-M, M) counted from
   +M (theorem C19_in_band_def); [band M v] = that k as an option, [whole M v] = (-M < v < M) as a bool;
   [area_spec n mx my x y] = the documented index: 0 for 1 area, the x band for 3 areas (x forward: area 0 is the front
   third), 3 * (y band) + (x band) for 9 areas (the model of np.meshgrid / reshape: areas 0, 1, 2 share the y band
   (my/3, my) and go from front to rear), None (ANone) when a coordinate is in no band.
   get_area_idx returns AMany where np.where(..)[0].item() raises (two areas contain the point). *)
Theorem C19_in_band_def : forall M v,
  (in_band M 0 v <-> M / 3 < v /\ v < M) /\
  (in_band M 1 v <-> - (M / 3) < v /\ v < M / 3) /\
  (in_band M 2 v <-> - M < v /\ v < - (M / 3)) /\
  (forall k, in_band M (S (S (S k))) v <-> False) /\
  (forall k, band M v = Some k <-> in_band M k v) /\
  (band M v = None <-> forall k, ~ in_band M k v) /\
  (whole M v = true <-> - M < v /\ v < M) /\
  (forall i j, in_band M i v -> in_band M j v -> i = j).
Proof. exact band_vocabulary. Qed.
Print Assumptions C19_in_band_def.

(* generate_area_points is defined exactly for 1, 3, 9 divisions and returns that many areas *)
Theorem C19_generate_area_points_defined : forall n mx my,
  (generate_area_points n mx my = None <-> (n <> 1 /\ n <> 3 /\ n <> 9)%nat) /\
  (forall areas, generate_area_points n mx my = Some areas -> List.length areas = n).
Proof. exact generate_area_points_defined. Qed.
Print Assumptions C19_generate_area_points_defined.

(* get_area_idx is the band function *)
Theorem C19_area_idx_is_band_function : forall n mx my x y areas,
  generate_area_points n mx my = Some areas -> get_area_idx areas x y = area_spec n mx my x y.
Proof. exact get_area_idx_is_band_function. Qed.
Print Assumptions C19_area_idx_is_band_function.

(* never two areas at once (the areas are pairwise disjoint): it never raises *)
Theorem C19_area_idx_never_raises : forall n mx my x y areas,
  generate_area_points n mx my = Some areas -> get_area_idx areas x y <> AMany.
Proof. exact area_idx_never_many. Qed.
Print Assumptions C19_area_idx_never_raises.

(* spelled out: an index exactly when the point is strictly inside that rectangle, None exactly when it is in none *)
Theorem C19_area_idx_1_division : forall mx my x y areas, generate_area_points 1 mx my = Some areas ->
  (forall k, get_area_idx areas x y = AOne k <-> k = 0%nat /\ (- mx < x /\ x < mx) /\ (- my < y /\ y < my)) /\
  (get_area_idx areas x y = ANone <-> ~ (- mx < x /\ x < mx) \/ ~ (- my < y /\ y < my)).
Proof. exact area_idx_div1. Qed.
Print Assumptions C19_area_idx_1_division.

Theorem C19_area_idx_3_divisions : forall mx my x y areas, generate_area_points 3 mx my = Some areas ->
  (forall k, get_area_idx areas x y = AOne k <-> in_band mx k x /\ (- my < y /\ y < my)) /\
  (get_area_idx areas x y = ANone <-> (forall i, ~ in_band mx i x) \/ ~ (- my < y /\ y < my)).
Proof. exact area_idx_div3. Qed.
Print Assumptions C19_area_idx_3_divisions.

Theorem C19_area_idx_9_divisions : forall mx my x y areas, generate_area_points 9 mx my = Some areas ->
  (forall k, get_area_idx areas x y = AOne k <-> exists i j, k = (3 * j + i)%nat /\ in_band mx i x /\ in_band my j y) /\
  (get_area_idx areas x y = ANone <-> (forall i, ~ in_band mx i x) \/ (forall j, ~ in_band my j y)).
Proof. exact area_idx_div9. Qed.
Print Assumptions C19_area_idx_9_divisions.

(* for max_x, max_y > 0: None exactly outside (-max, max) or on a grid line *)
Theorem C19_area_idx_none_iff_outside_or_on_grid_line : forall mx my x y, 0 < mx -> 0 < my ->
  (forall areas, generate_area_points 3 mx my = Some areas ->
     (get_area_idx areas x y = ANone <->
        (~ (- mx < x /\ x < mx) \/ x == mx / 3 \/ x == - (mx / 3)) \/ ~ (- my < y /\ y < my))) /\
  (forall areas, generate_area_points 9 mx my = Some areas ->
     (get_area_idx areas x y = ANone <->
        (~ (- mx < x /\ x < mx) \/ x == mx / 3 \/ x == - (mx / 3)) \/
        (~ (- my < y /\ y < my) \/ y == my / 3 \/ y == - (my / 3)))).
Proof. exact area_none_iff_off_grid. Qed.
Print Assumptions C19_area_idx_none_iff_outside_or_on_grid_line.

(* ---- 10. get_object_status(frame_results).  Vocabulary: [frame_gt_uuids f] = the uuids of the ground truths frame f
   reports a status for, in the order of the add_status calls (theorem C19_frame_gt_uuids_def); [firsts l] = the distinct
   elements of l in order of first appearance; [occ u f gts] = the frame number of f, once per ground truth of gts whose
   uuid is u; [tp_gts f] / [fp_gts f] = the ground truths of the TP pairs / of the FP pairs that have one. *)
Theorem C19_frame_gt_uuids_def : forall f,
  frame_gt_uuids f = map o_uuid (map snd (f_tp f) ++ map snd (fp_with_gt f) ++ f_tn f ++ f_fn f) /\
  (forall u gts, occ u f gts = map (fun _ => f_num f) (filter (fun g => Nat.eqb (o_uuid g) u) gts)) /\
  (forall u l, firsts (u :: l) = u :: filter (fun v => negb (Nat.eqb v u)) (firsts l)) /\ firsts [] = [].
Proof. exact status_vocabulary. Qed.
Print Assumptions C19_frame_gt_uuids_def.

(* one record per distinct ground-truth uuid, in order of first appearance *)
Theorem C19_object_status_records : forall frames,
  map g_uuid (get_object_status frames) = firsts (flat_map frame_gt_uuids frames) /\
  NoDup (map g_uuid (get_object_status frames)) /\
  (forall u, In u (map g_uuid (get_object_status frames)) <-> exists f, In f frames /\ In u (frame_gt_uuids f)).
Proof. exact object_status_records. Qed.
Print Assumptions C19_object_status_records.

(* the record of uuid u: its TP / FP / TN / FN frame lists are the frame numbers, frame after frame, in which a ground truth
   with that uuid is the ground truth of a TP pair / of an FP pair / in tn_objects / in fn_objects; the total list is the
   concatenation, per frame, of these four *)
Theorem C19_object_status_is_the_tally : forall frames,
  get_object_status frames =
    map (fun u => mkGtStatus u
           (flat_map (fun f => occ u f (tp_gts f) ++ occ u f (fp_gts f) ++ occ u f (f_tn f) ++ occ u f (f_fn f)) frames)
           (flat_map (fun f => occ u f (tp_gts f)) frames)
           (flat_map (fun f => occ u f (fp_gts f)) frames)
           (flat_map (fun f => occ u f (f_tn f)) frames)
           (flat_map (fun f => occ u f (f_fn f)) frames))
        (firsts (flat_map frame_gt_uuids frames)).
Proof. exact object_status_explicit. Qed.
Print Assumptions C19_object_status_is_the_tally.

(* "each ground truth once per frame": no frame number twice in the total list of a record (frames have distinct numbers) *)
Definition C19_status_once_per_frame_statement : Prop :=
  forall frames,
    (forall f, In f frames -> accounted f) -> NoDup (map f_num frames) ->
    forall g, In g (get_object_status frames) -> NoDup (g_total g).

(* F11 witness (same frame as above, replayed by known_probe): g1 is the ground truth of the failing pair (t1, g1) and is
   in fn_objects: its record has frame 0 twice, once as FP and once as FN *)
Theorem C19_status_once_per_frame_refuted :
  exists frames, (forall f, In f frames -> accounted f) /\ NoDup (map f_num frames) /\
    exists g, In g (get_object_status frames) /\ g_uuid g = 1%nat /\ g_total g = [0; 0]%nat /\ g_fp g = [0%nat] /\ g_fn g = [0%nat].
Proof. exact status_once_per_frame_refuted. Qed.
Print Assumptions C19_status_once_per_frame_refuted.

Theorem C19_status_once_per_frame_statement_is_false : ~ C19_status_once_per_frame_statement.
Proof. exact status_once_per_frame_statement_false. Qed.
Print Assumptions C19_status_once_per_frame_statement_is_false.

(* the exact guard: it holds if and only if, in every frame, the ground truths with a status have distinct uuids *)
Theorem C19_status_once_per_frame_partial : forall frames, NoDup (map f_num frames) ->
  ((forall g, In g (get_object_status frames) -> NoDup (g_total g))
   <-> forall f, In f frames -> NoDup (frame_gt_uuids f)).
Proof. exact status_once_per_frame_iff. Qed.
Print Assumptions C19_status_once_per_frame_partial.

(* ---- non-vacuity: the witness frame satisfies the hypothesis and has all kinds of items but TN *)
Example C19_nonvacuous_accounted : accounted w_frame /\ fp_ordinary w_frame <> [] /\ List.length (build w_areas [[w_frame]; [w_frame]]) = 8%nat.
Proof. split; [vm_compute; reflexivity|split; [discriminate|vm_compute; reflexivity]]. Qed.

(* the F15 witness satisfies the hypothesis of the refutation and violates the guard of the partial theorem *)
Example C19_nonvacuous_f15 :
  accounted u_frame /\ (exists e g, In (e, g) (f_tp u_frame) /\ o_label e <> o_label g) /\
  q_tp (ratio_row (Some 3%nat) (build w_areas [[u_frame]])) == 2.
Proof. split; [vm_compute; reflexivity|split; [|vm_compute; reflexivity]]. eexists; eexists; split; [left; reflexivity|discriminate]. Qed.

(* the guard of the label-rate theorem is satisfiable on a frame with TP, FP and FN items, and the yaw theorem's on real yaws *)
Example C19_nonvacuous_equal_labels :
  (forall f e g, In f (all_frames [[w_frame]]) -> In (e, g) (f_tp f) -> o_label e = o_label g) /\
  wrap (355 # 113) ((3 # 1) - (- (3) # 1)) == 6 - 2 * (355 # 113).
Proof.
  split; [|vm_compute; reflexivity]. intros f e g [<-|[]] [H|[]]. injection H as <- <-. reflexivity.
Qed.

(* areas: the 9-division of +-48 x +-96 has the point (40, 40) in area 0 (front left), (0, 0) in area 4, (-40, -40) in area 8,
   (16, 0) on a grid line and (50, 0) outside *)
Example C19_nonvacuous_areas :
  exists areas, generate_area_points 9 48 96 = Some areas /\
    get_area_idx areas 40 40 = AOne 0 /\ get_area_idx areas 0 40 = AOne 1 /\ get_area_idx areas 40 0 = AOne 3 /\
    get_area_idx areas 0 0 = AOne 4 /\ get_area_idx areas (-40) (-40) = AOne 8 /\
    get_area_idx areas 16 0 = ANone /\ get_area_idx areas 50 0 = ANone /\
    in_band 48 0 40 /\ in_band 96 1 0.
Proof. eexists. split; [reflexivity|]. repeat split; vm_compute; reflexivity. Qed.

(* status tallies: two frames (numbers 0 and 1) over three ground truths with distinct uuids: the guard of the partial theorem
   holds and the records are non-trivial *)
Example C19_nonvacuous_status :
  let f0 := mkFrame 0 [(w_t0, w_g0)] [] [] [w_g2] 2 in
  let f1 := mkFrame 1 [(w_t0, w_g0)] [(w_t1, None)] [w_g2] [w_g1] 3 in
  NoDup (map f_num [f0; f1]) /\ (forall f, In f [f0; f1] -> NoDup (frame_gt_uuids f)) /\
  get_object_status [f0; f1] =
    [mkGtStatus 0 [0; 1]%nat [0; 1]%nat [] [] []; mkGtStatus 2 [0; 1]%nat [] [] [1%nat] [0%nat]; mkGtStatus 1 [1%nat] [] [] [] [1%nat]].
Proof.
  cbv zeta. split; [repeat constructor; simpl; intuition discriminate|]. split; [|vm_compute; reflexivity].
  intros f [<-|[<-|[]]]; vm_compute; repeat constructor; simpl; intuition discriminate.
Qed.
