(* C19 -- Analysis tables are a faithful tabulation of the frame results.
   Model: Model/Analyzer.v (PerceptionAnalyzer3D.add / add_frame / format2df / format2dict, get_num_*, get_pair_results,
   calculate_error, summarize_error, summarize_ratio, get_confusion_matrix, analyze, generate_area_points / get_area_idx,
   get_object_status); proofs: Proofs/AnalyzerProofs.v.  Statements only.

   Vocabulary: a frame result [f] is its four pass/fail lists f_tp (estimate, ground truth), f_fp (estimate, ground truth
   option), f_tn, f_fn, its frame number and f_ncrit = the number of critical ground truths.  [build areas scenes] is the
   table after analyzer.add(scene) for every scene in turn; [all_frames scenes] are all frame results; [sum_over F l] is the
   sum of F over l.  Counters take a keyword selection ([] = none).
   [accounted f] is C03's conservation law for the frame: f_ncrit = |TP| + |TN| + |FN| + |FP pairs whose ground truth is
   FP-labelled| (every critical ground truth is in exactly one of these); the correspondence checks it on every real frame. *)
From Coq Require Import List Bool ZArith Arith.
From PE Require Import Base.QUtil Model.Analyzer Proofs.AnalyzerProofs.
Import ListNotations.
Open Scope Q_scope.

(* ---- 1. the table: one (ground-truth row, estimate row) pair per TP, FP, TN, FN item of every frame, in this order,
   scene after scene, numbered 0, 1, 2, ...; a TP/FP pair carries the estimate's area on both rows *)
Theorem C19_table_is_the_tabulation : forall areas scenes,
  map (fun e => (e_gt e, e_est e)) (build areas scenes) = scene_rows areas 0 scenes /\
  map e_idx (build areas scenes) = seq 0 (List.length (build areas scenes)).
Proof. intros. split; [apply build_rows|apply build_numbered]. Qed.
Print Assumptions C19_table_is_the_tabulation.

(* ---- 2. per-status counts = sizes of the pass/fail lists, over all scenes and frames *)
Theorem C19_status_counts_eq_list_sizes : forall areas scenes,
  let T := build areas scenes in
  num_tp [] T = sum_over (fun f => List.length (f_tp f)) (all_frames scenes) /\
  num_fp [] T = sum_over (fun f => List.length (f_fp f)) (all_frames scenes) /\
  num_tn [] T = sum_over (fun f => List.length (f_tn f)) (all_frames scenes) /\
  num_fn [] T = sum_over (fun f => List.length (f_fn f)) (all_frames scenes).
Proof. exact status_counts_eq_list_sizes. Qed.
Print Assumptions C19_status_counts_eq_list_sizes.

(* ... and per scene (scene = k selects exactly the frames of the k-th add) *)
Theorem C19_status_counts_per_scene : forall areas scenes k,
  let T := build areas scenes in
  let frs := nth k scenes [] in
  num_tp [CScene [k]] T = sum_over (fun f => List.length (f_tp f)) frs /\
  num_fp [CScene [k]] T = sum_over (fun f => List.length (f_fp f)) frs /\
  num_tn [CScene [k]] T = sum_over (fun f => List.length (f_tn f)) frs /\
  num_fn [CScene [k]] T = sum_over (fun f => List.length (f_fn f)) frs /\
  num_estimation [CScene [k]] T = sum_over (fun f => (List.length (f_tp f) + List.length (f_fp f))%nat) frs.
Proof. exact status_counts_per_scene. Qed.
Print Assumptions C19_status_counts_per_scene.

(* ... and under ANY keyword selection cs (label / scene / frame / area / status / uuid): the number of items whose own row
   satisfies the selection (estimate row for TP/FP, ground-truth row for TN/FN) *)
Theorem C19_status_counts_selected : forall areas cs scenes,
  let T := build areas scenes in
  num_tp cs T = sum_scenes (fun k f => List.length (filter (fun p : Obj * Obj => row_ok cs (est_row areas k f TP (fst p))) (f_tp f))) 0 scenes /\
  num_fp cs T = sum_scenes (fun k f => List.length (filter (fun p : Obj * option Obj => row_ok cs (est_row areas k f FP (fst p))) (f_fp f))) 0 scenes /\
  num_tn cs T = sum_scenes (fun k f => List.length (filter (fun g => row_ok cs (gt_row_alone areas k f TN g)) (f_tn f))) 0 scenes /\
  num_fn cs T = sum_scenes (fun k f => List.length (filter (fun g => row_ok cs (gt_row_alone areas k f FN g)) (f_fn f))) 0 scenes.
Proof.
  intros. repeat split; [apply num_tp_selected|apply num_fp_selected|apply num_tn_selected|apply num_fn_selected].
Qed.
Print Assumptions C19_status_counts_selected.

(* ---- 3. estimate count = number of evaluated estimates *)
Theorem C19_estimate_count_eq_evaluated : forall areas scenes,
  num_estimation [] (build areas scenes) =
    sum_over (fun f => (List.length (f_tp f) + List.length (f_fp f))%nat) (all_frames scenes).
Proof. exact estimate_count_eq_evaluated. Qed.
Print Assumptions C19_estimate_count_eq_evaluated.

(* ---- 4. ground-truth count.  The property says: = number of critical ground truths. *)
Definition C19_gt_count_eq_critical_gt_statement : Prop :=
  forall areas scenes,
    (forall f, In f (all_frames scenes) -> accounted f) ->
    num_ground_truth [] (build areas scenes) = sum_over f_ncrit (all_frames scenes).

(* what the table really counts: every TP, every FP pair that has a ground truth, every TN, every FN *)
Theorem C19_gt_count_formula : forall areas scenes,
  num_ground_truth [] (build areas scenes) =
    sum_over (fun f => (List.length (f_tp f) + List.length (fp_with_gt f) + List.length (f_tn f) + List.length (f_fn f))%nat)
             (all_frames scenes).
Proof. exact gt_count_formula. Qed.
Print Assumptions C19_gt_count_formula.

(* hence: critical ground truths + the FP pairs whose ground truth is an ordinary (not FP-labelled) one -- such a ground
   truth is also in fn_objects and is tabulated twice (F11) *)
Theorem C19_gt_count_overcount : forall areas scenes,
  (forall f, In f (all_frames scenes) -> accounted f) ->
  num_ground_truth [] (build areas scenes) =
    (sum_over f_ncrit (all_frames scenes) + sum_over (fun f => List.length (fp_ordinary f)) (all_frames scenes))%nat.
Proof. exact gt_count_overcount. Qed.
Print Assumptions C19_gt_count_overcount.

(* F11 witness (replayed against the real analyzer by harness/props/C19.py: known_probe): one frame, critical ground truths
   g0 g1 g2, TP (t0, g0), FP (t1, g1), FN [g1; g2]: num_ground_truth = 4 *)
Theorem C19_gt_count_eq_critical_gt_refuted :
  exists areas scenes,
    (forall f, In f (all_frames scenes) -> accounted f) /\
    num_ground_truth [] (build areas scenes) = 4%nat /\ sum_over f_ncrit (all_frames scenes) = 3%nat.
Proof. exact gt_count_eq_critical_gt_refuted. Qed.
Print Assumptions C19_gt_count_eq_critical_gt_refuted.

Theorem C19_gt_count_eq_critical_gt_statement_is_false : ~ C19_gt_count_eq_critical_gt_statement.
Proof. exact gt_count_statement_false. Qed.
Print Assumptions C19_gt_count_eq_critical_gt_statement_is_false.

(* the exact guard: the equality holds if and only if no FP pair carries an ordinary ground truth *)
Theorem C19_gt_count_eq_critical_gt_partial : forall areas scenes,
  (forall f, In f (all_frames scenes) -> accounted f) ->
  (num_ground_truth [] (build areas scenes) = sum_over f_ncrit (all_frames scenes)
   <-> forall f, In f (all_frames scenes) -> fp_ordinary f = []).
Proof. exact gt_count_eq_critical_iff. Qed.
Print Assumptions C19_gt_count_eq_critical_gt_partial.

(* ---- non-vacuity: the witness frame satisfies the hypothesis and has all kinds of items but TN *)
Example C19_nonvacuous_accounted : accounted w_frame /\ fp_ordinary w_frame <> [] /\ List.length (build w_areas [[w_frame]; [w_frame]]) = 8%nat.
Proof. split; [vm_compute; reflexivity|split; [discriminate|vm_compute; reflexivity]]. Qed.
