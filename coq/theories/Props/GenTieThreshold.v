(* Redundant tie, dynamically typed layer: the configuration-value checks of common/threshold.py, translated from their Python
   `ast` on every run (translator/decisions_threshold.py -> Gen/decisions_threshold.v), EQUAL the hand models of
   Model/Threshold.v for ALL inputs: every Python value [v : pyval] (number, bool, str, None, list, tuple, nested at any depth),
   every number of labels [n : nat], both values of [nest].

   The generated functions return [xres pyval]: a value, or the CLASS of the exception -- [XErr (Py e)] for a class [e] of
   Model/PyVal.pyerr, [XErr IndexError] for the one class the hand models do not have.  [of_res] embeds the model's result
   ([Ok w] -> [XOk w], [Err e] -> [XErr (Py e)]), so that each equation says: same value when the model returns a value, the
   SAME exception class when it returns an error, and no IndexError ever (the `threshold[0]` of __get_nested_thresholds is
   guarded by the emptiness test).

   Each proof: open the definitions, case analysis on the kind of [v], then the generic tactic [xtie] of
   Proofs/GenTieThresholdLemmas.v (normalise the monad and fuse the list traversals, split the tests, compare the results
   pointwise).  Every theorem is compiled on its own by harness/lib/core.gen_tie (header + block). *)
From Coq Require Import String Ascii List Bool Arith ZArith Lia.
From PE Require Import Base.QUtil Model.PyVal Model.Threshold Proofs.ThresholdProofs Proofs.GenTieThresholdLemmas.
From PE Require Gen.decisions_threshold.
Import Gen.decisions_threshold.
Import ListNotations.
Open Scope nat_scope.

(* ---- __get_thresholds = Threshold.get_thresholds ----------------------------------------------------------------------- *)
Theorem GenTie_get_thresholds :
  forall (v : pyval) (n : nat), Gen_get_thresholds.f v n = of_res (Threshold.get_thresholds v n).
Proof.
  intros v n. unfold Gen_get_thresholds.f, get_thresholds, flat_seq. xkinds v.
Qed.
Print Assumptions GenTie_get_thresholds.

(* ---- __get_nested_thresholds = Threshold.get_nested_thresholds ---------------------------------------------------------- *)
Theorem GenTie_get_nested_thresholds :
  forall (v : pyval) (n : nat), Gen_get_nested_thresholds.f v n = of_res (Threshold.get_nested_thresholds v n).
Proof.
  intros v n. unfold Gen_get_nested_thresholds.f, get_nested_thresholds, nested_seq. xkinds v.
Qed.
Print Assumptions GenTie_get_nested_thresholds.

(* ---- check_thresholds = Threshold.check_thresholds ---------------------------------------------------------------------- *)
Theorem GenTie_check_thresholds :
  forall (v : pyval) (n : nat), Gen_check_thresholds.f v n = of_res (Threshold.check_thresholds v n).
Proof.
  intros v n. unfold Gen_check_thresholds.f, check_thresholds. xkinds v.
Qed.
Print Assumptions GenTie_check_thresholds.

(* ---- check_nested_thresholds = Threshold.check_nested_thresholds -------------------------------------------------------- *)
Theorem GenTie_check_nested_thresholds :
  forall (v : pyval) (n : nat), Gen_check_nested_thresholds.f v n = of_res (Threshold.check_nested_thresholds v n).
Proof.
  intros v n. unfold Gen_check_nested_thresholds.f, check_nested_thresholds. xkinds v.
Qed.
Print Assumptions GenTie_check_nested_thresholds.

(* ---- set_thresholds = Threshold.set_thresholds (self-contained: the four equations above are re-proved inside, because every
   theorem of this file is compiled on its own) ------------------------------------------------------------------------------ *)
Theorem GenTie_set_thresholds :
  forall (v : pyval) (n : nat) (nest : bool), Gen_set_thresholds.f v n nest = of_res (Threshold.set_thresholds v n nest).
Proof.
  intros v n nest. unfold Gen_set_thresholds.f, set_thresholds.
  destruct nest; rewrite of_res_bind; cbv zeta; apply xbind_ext.
  - unfold Gen_get_nested_thresholds.f, get_nested_thresholds, nested_seq. xkinds v.
  - intro w. unfold Gen_check_nested_thresholds.f, check_nested_thresholds. xkinds w.
  - unfold Gen_get_thresholds.f, get_thresholds, flat_seq. xkinds v.
  - intro w. unfold Gen_check_thresholds.f, check_thresholds. xkinds w.
Qed.
Print Assumptions GenTie_set_thresholds.

(* ---- non-vacuity: accepted and rejected inputs for each theorem (both sides computed) ------------------------------------- *)
(* flat: a singleton is broadcast; a wrong length is a ThresholdError; None has no len(): TypeError *)
Example GenTie_get_thresholds_nonvacuous :
  Gen_get_thresholds.f (List [Num 1]) 3 = XOk (List [Num 1; Num 1; Num 1]) /\
  Gen_get_thresholds.f (List [Num 1; Num 2]) 3 = XErr (Py ThresholdError) /\
  Gen_get_thresholds.f NoneV 3 = XErr (Py TypeError) /\
  of_res (get_thresholds (List [Num 1; Num 2]) 3) = XErr (Py ThresholdError).
Proof. vm_compute. repeat split; reflexivity. Qed.

(* nested: one row per value / rows broadcast; a row of the wrong length; numbers and lists mixed *)
Example GenTie_get_nested_thresholds_nonvacuous :
  Gen_get_nested_thresholds.f (List [Num 1; Num 2]) 3 = XOk (List [List [Num 1; Num 1; Num 1]; List [Num 2; Num 2; Num 2]]) /\
  Gen_get_nested_thresholds.f (List [List [Num 2]; List [Num 3; Num 4]]) 2 = XOk (List [List [Num 2; Num 2]; List [Num 3; Num 4]]) /\
  Gen_get_nested_thresholds.f (List [List [Num 1; Num 2; Num 3]]) 2 = XErr (Py ThresholdError) /\
  Gen_get_nested_thresholds.f (List [Num 1; List [Num 2]]) 2 = XErr (Py ThresholdError) /\
  of_res (get_nested_thresholds (List [Num 1; List [Num 2]]) 2) = XErr (Py ThresholdError).
Proof. vm_compute. repeat split; reflexivity. Qed.

(* bool counts as a real number; a str entry does not; a number has no items: TypeError *)
Example GenTie_check_thresholds_nonvacuous :
  Gen_check_thresholds.f (List [Num 1; Bool true]) 2 = XOk (List [Num 1; Bool true]) /\
  Gen_check_thresholds.f (List [Num 1; Str "a"]) 2 = XErr (Py ThresholdError) /\
  Gen_check_thresholds.f (Num 1) 2 = XErr (Py TypeError) /\
  of_res (check_thresholds (Num 1) 2) = XErr (Py TypeError).
Proof. vm_compute. repeat split; reflexivity. Qed.

(* an empty row is rejected even for zero labels; None inside a row *)
Example GenTie_check_nested_thresholds_nonvacuous :
  Gen_check_nested_thresholds.f (List [List [Num 1; Num 2]]) 2 = XOk (List [List [Num 1; Num 2]]) /\
  Gen_check_nested_thresholds.f (List [List []]) 0 = XErr (Py ThresholdError) /\
  Gen_check_nested_thresholds.f (List [List [Num 1; NoneV]]) 2 = XErr (Py ThresholdError) /\
  of_res (check_nested_thresholds (List [List []]) 0) = XErr (Py ThresholdError).
Proof. vm_compute. repeat split; reflexivity. Qed.

Example GenTie_set_thresholds_nonvacuous :
  Gen_set_thresholds.f (Num (1 # 2)) 2 true = XOk (List [List [Num (1 # 2); Num (1 # 2)]]) /\
  Gen_set_thresholds.f (List [Num 1; Num 2]) 2 false = XOk (List [Num 1; Num 2]) /\
  Gen_set_thresholds.f (List []) 2 false = XErr (Py ThresholdError) /\
  Gen_set_thresholds.f (Str "ab") 2 true = XErr (Py ThresholdError) /\
  of_res (set_thresholds (Str "ab") 2 true) = XErr (Py ThresholdError).
Proof. vm_compute. repeat split; reflexivity. Qed.
