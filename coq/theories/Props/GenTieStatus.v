(* Redundant tie, STATUS layer (C19, the analyzer's status tallies and rates): common/status.py -- StatusRate (constructor, the private
   getters, the `rate` property), GroundTruthStatus.__init__ / add_status / get_status_rates and get_scene_rates -- is re-translated
   from the Python `ast` on every run (translator/loops_status.py -> Gen/loops_status.v) and every theorem below says that a generated
   definition EQUALS, for ALL inputs, the hand-model definition of Model/Analyzer.v the C19 theorems are about (`add_status`,
   `mkGtStatus`) or -- the model has NO definition for the three rate functions -- the explicit closed-form term of
   Proofs/GenTieStatusLemmas.v (`rate_of`, `status_rates_of`, `scene_rates`; float("inf") is None).

   The generated functions return [res _]: a value, or the CLASS of the exception; so each equation also says that no
   ZeroDivisionError is ever raised (every division is dominated by its guard).  A `status` argument is an [sval]: [SKnown s] = the
   MatchingStatus member s or its string value (MatchingStatus.__eq__ accepts both), [SOther] = anything else.  Every theorem is
   compiled on its own by harness/lib/core.gen_tie (header + block): a theorem about a caller re-establishes the equations of its
   callees by unfolding them.

   Also here (same property, C19): tool/utils.py get_area_idx -- the part after the (pinned, not translated) statements that obtain the
   BASE_LINK position (x, y) of the object -- with numpy's bool-array arithmetic rendered by vocabulary ([bmul] with broadcasting,
   [where_true], [item_of]); it is proved equal to Analyzer.get_area_idx on the arrays of corner points of ANY list of areas.
   generate_area_points (np.arange / meshgrid / reshape) is NOT translated. *)
From Coq Require Import List Bool ZArith Arith QArith Lia.
From PE Require Import Base.QUtil Proofs.GenTieStatusLemmas.
From PE Require Model.Analyzer.
From PE Require Gen.loops_status.
Import Gen.loops_status.
Import ListNotations.
Open Scope list_scope.

Ltac script_rate :=
  intros [[s a] b];
  unfold Gen_rate.f, Gen___get_rate.f, Gen___get_num_status_frames.f, Gen___get_num_total_frames.f, rate_of, sr_status_frames,
         sr_total_frames, fdiv_nat;
  cbn [bind fst snd]; cbv zeta;
  destruct (Nat.eqb (length a) 0); destruct (Nat.eqb (length b) 0); reflexivity.
Ltac script_scene :=
  intros l; unfold Gen_get_scene_rates.f; cbv zeta;
  erewrite (loop_sum5 _ _ (fun g => length (Analyzer.g_total g)) (fun g => length (Analyzer.g_tp g)) (fun g => length (Analyzer.g_fp g))
                      (fun g => length (Analyzer.g_tn g)) (fun g => length (Analyzer.g_fn g)));
  [ | intros; reflexivity ];
  cbn [Nat.add]; unfold scene_rates, frames_of;
  destruct (Nat.eqb (list_sum (map (fun g => length (Analyzer.g_total g)) l)) 0) eqn:E; [reflexivity|];
  rewrite !(fdiv_nat_nz _ _ E); reflexivity.

(* get_area_idx: the three products of bool arrays are products of maps over the SAME list of areas; the pointwise product is the
   model's [inside] (the four strict comparisons); the rest is the case analysis on how many areas contain the point *)
Ltac script_area :=
  intros areas x y; unfold Gen_get_area_idx.f, Analyzer.get_area_idx;
  rewrite !map_map;
  repeat (first [rewrite bmul_map | rewrite badd_map]; cbn [bind]; cbv zeta);
  rewrite (map_ext _ (Analyzer.inside x y)) by (intros [[? ?] [? ?]]; reflexivity);
  rewrite (any_where _ 0), where_true_inside;
  destruct (Analyzer.where_inside 0 areas x y) as [|k [|k' t]]; reflexivity.

(* ---- StatusRate.__init__ = the tuple of its three arguments ----------------------------------------------------------------------- *)
Theorem GenTie_StatusRate___init__ :
  forall (s : sval) (a b : list nat), Gen_StatusRate___init__.f s a b = Ok (s, a, b).
Proof. reflexivity. Qed.
Print Assumptions GenTie_StatusRate___init__.

Example GenTie_StatusRate___init___nonvacuous :
  Gen_StatusRate___init__.f (SKnown Analyzer.FP) [1; 2]%nat [1; 2; 3]%nat = Ok (SKnown Analyzer.FP, [1; 2]%nat, [1; 2; 3]%nat).
Proof. vm_compute. reflexivity. Qed.

(* ---- StatusRate.__get_rate = rate_of (closed form: no model definition): len(status) / len(total), inf when EITHER length is 0 ---- *)
Theorem GenTie___get_rate :
  forall r : status_rate, Gen___get_rate.f r = Ok (rate_of (sr_status_frames r) (sr_total_frames r)).
Proof. script_rate. Qed.
Print Assumptions GenTie___get_rate.

Example GenTie___get_rate_nonvacuous :
  Gen___get_rate.f (SKnown Analyzer.TP, [4]%nat, [4; 5]%nat) = Ok (Some (1 # 2)%Q) /\
  Gen___get_rate.f (SKnown Analyzer.TP, [], [4; 5]%nat) = Ok None /\          (* 0 / 2 is inf, not 0.0 *)
  Gen___get_rate.f (SKnown Analyzer.TP, [], []) = Ok None /\
  Gen___get_rate.f (SKnown Analyzer.TP, [4; 5; 6]%nat, [4; 5]%nat) = Ok (Some (3 # 2)%Q).
Proof. vm_compute. repeat split. Qed.

(* ---- StatusRate.rate (property) = rate_of ------------------------------------------------------------------------------------------ *)
Theorem GenTie_rate :
  forall r : status_rate, Gen_rate.f r = Ok (rate_of (sr_status_frames r) (sr_total_frames r)).
Proof. script_rate. Qed.
Print Assumptions GenTie_rate.

Example GenTie_rate_nonvacuous :
  Gen_rate.f (SKnown Analyzer.FN, [7]%nat, [7; 8; 9; 10]%nat) = Ok (Some (1 # 4)%Q) /\ rate_of [7]%nat [7; 8; 9; 10]%nat = Some (1 # 4)%Q /\
  Gen_rate.f (SKnown Analyzer.FN, [7]%nat, []) = Ok None.
Proof. vm_compute. repeat split. Qed.

(* ---- GroundTruthStatus.__init__ = the record with five empty lists --------------------------------------------------------------- *)
Theorem GenTie_GroundTruthStatus___init__ :
  forall u : nat, Gen_GroundTruthStatus___init__.f u = Ok (Analyzer.mkGtStatus u [] [] [] [] []).
Proof. reflexivity. Qed.
Print Assumptions GenTie_GroundTruthStatus___init__.

Example GenTie_GroundTruthStatus___init___nonvacuous :
  Gen_GroundTruthStatus___init__.f 5%nat = Ok (Analyzer.mkGtStatus 5%nat [] [] [] [] []).
Proof. vm_compute. reflexivity. Qed.

(* ---- GroundTruthStatus.add_status = Analyzer.add_status: the frame number goes to the total list and to exactly one status list --- *)
Theorem GenTie_add_status :
  forall (g : Analyzer.GtStatus) (s : Analyzer.status) (n : nat), Gen_add_status.f g (SKnown s) n = Ok (Analyzer.add_status g s n).
Proof. intros [u t a b c d] s n. destruct s; reflexivity. Qed.
Print Assumptions GenTie_add_status.

(* outside: a status that is none of the four -- ValueError (in Python the total list has ALREADY been appended to by then) *)
Theorem GenTie_add_status_outside :
  forall (g : Analyzer.GtStatus) (n : nat), Gen_add_status.f g SOther n = Err ValueError.
Proof. intros g n. reflexivity. Qed.
Print Assumptions GenTie_add_status_outside.

Example GenTie_add_status_nonvacuous :
  let g := Analyzer.mkGtStatus 1%nat [3]%nat [3]%nat [] [] [] in
  Gen_add_status.f g (SKnown Analyzer.TN) 4%nat = Ok (Analyzer.mkGtStatus 1%nat [3; 4]%nat [3]%nat [] [4]%nat []) /\
  Gen_add_status.f g (SKnown Analyzer.FN) 4%nat = Ok (Analyzer.mkGtStatus 1%nat [3; 4]%nat [3]%nat [] [] [4]%nat) /\
  Gen_add_status.f g SOther 4%nat = Err ValueError.
Proof. vm_compute. repeat split. Qed.

(* ---- GroundTruthStatus.get_status_rates = status_rates_of (closed form): (TP, FP, TN, FN), each against the same total list -------- *)
Theorem GenTie_get_status_rates :
  forall g : Analyzer.GtStatus, Gen_get_status_rates.f g = Ok (status_rates_of g).
Proof. reflexivity. Qed.
Print Assumptions GenTie_get_status_rates.

Example GenTie_get_status_rates_nonvacuous :
  let g := Analyzer.mkGtStatus 1%nat [1; 2; 3; 4]%nat [1]%nat [2]%nat [3]%nat [4]%nat in
  Gen_get_status_rates.f g = Ok ((SKnown Analyzer.TP, [1]%nat, [1; 2; 3; 4]%nat), (SKnown Analyzer.FP, [2]%nat, [1; 2; 3; 4]%nat),
                                 (SKnown Analyzer.TN, [3]%nat, [1; 2; 3; 4]%nat), (SKnown Analyzer.FN, [4]%nat, [1; 2; 3; 4]%nat)).
Proof. vm_compute. reflexivity. Qed.

(* ---- get_scene_rates = scene_rates (closed form): the five sums; four inf for an empty total, else the four quotients ------------- *)
Theorem GenTie_get_scene_rates :
  forall l : list Analyzer.GtStatus, Gen_get_scene_rates.f l = Ok (scene_rates l).
Proof. script_scene. Qed.
Print Assumptions GenTie_get_scene_rates.

Example GenTie_get_scene_rates_nonvacuous :
  let g1 := Analyzer.mkGtStatus 1%nat [1; 2; 3]%nat [1; 2]%nat [3]%nat [] [] in
  let g2 := Analyzer.mkGtStatus 2%nat [1]%nat [] [] [] [1]%nat in
  Gen_get_scene_rates.f [g1; g2] = Ok (Some (2 # 4)%Q, Some (1 # 4)%Q, Some (0 # 4)%Q, Some (1 # 4)%Q) /\
  scene_rates [g1; g2] = (Some (2 # 4)%Q, Some (1 # 4)%Q, Some (0 # 4)%Q, Some (1 # 4)%Q) /\
  Gen_get_scene_rates.f [] = Ok (None, None, None, None) /\
  Gen_get_scene_rates.f [Analyzer.mkGtStatus 1%nat [] [] [] [] []] = Ok (None, None, None, None).
Proof. vm_compute. repeat split. Qed.

(* ---- get_area_idx = Analyzer.get_area_idx: four STRICT comparisons per area; None when no area contains the point (outside, or on a
   grid line); ValueError (`.item()`) when more than one does ---------------------------------------------------------------------- *)
Theorem GenTie_get_area_idx :
  forall (areas : list Analyzer.Area) (x y : Q),
    Gen_get_area_idx.f (map fst areas) (map snd areas) x y = of_area_res (Analyzer.get_area_idx areas x y).
Proof. script_area. Qed.
Print Assumptions GenTie_get_area_idx.

(* outside: corner arrays of different lengths that numpy cannot broadcast (neither length is 1) -- ValueError *)
Theorem GenTie_get_area_idx_outside :
  forall (urs bls : list (Q * Q)) (x y : Q),
    length urs <> length bls -> length urs <> 1%nat -> length bls <> 1%nat -> Gen_get_area_idx.f urs bls x y = Err ValueError.
Proof.
  intros urs bls x y H Hu Hb. unfold Gen_get_area_idx.f.
  unfold bmul, badd; rewrite bzip_mismatch by (rewrite !map_length; assumption). reflexivity.
Qed.
Print Assumptions GenTie_get_area_idx_outside.

Example GenTie_get_area_idx_nonvacuous :
  let areas := [((3, -1), (1, 1)); ((1, -1), (-1, 1)); ((-1, -1), (-3, 1))]%Q in        (* three bands along x *)
  let f := Gen_get_area_idx.f (map fst areas) (map snd areas) in
  f 2 0 = Ok (Some 0%nat) /\ f 0 (1 # 2) = Ok (Some 1%nat) /\ f (-2) 0 = Ok (Some 2%nat) /\
  f 1 0 = Ok None /\ f 5 0 = Ok None /\ f 0 1 = Ok None /\                               (* on a grid line, outside, on the border *)
  Gen_get_area_idx.f [(3, -1); (3, -1)] [(-3, 1); (-3, 1)] 0 0 = Err ValueError /\          (* two areas contain the point *)
  Gen_get_area_idx.f [(3, -1); (3, -1)] [] 0 0 = Err ValueError /\
  Analyzer.get_area_idx areas 0 (1 # 2) = Analyzer.AOne 1.
Proof. vm_compute. repeat split. Qed.
