(* C02 -- Matching prefers label-compatible pairs, then best score (no blocking pair).
   Model: Model/Matching.v (shared with C01).  [cell e g = Some s]: the pair is matchable (same
   frame, inside the radius) with matching value s; [ok e g]: labels compatible under the policy;
   [as_good mx a b]: a is at least as good as b (a <= b for distances, a >= b for IoU).
   [match_stages] exposes the two loops of get_object_results; [match_core] is its result list.
   All statements quantify over ALL table sizes and ALL tables.  Proofs: Proofs/MatchingGreedy.v. *)
From Coq Require Import List Bool Arith Sorted.
From PE Require Import Base.QUtil Model.Matching Proofs.MatchingProofs Proofs.MatchingGreedy Proofs.MatchingArgbest.
Import ListNotations.
Open Scope Q_scope.

(* the result list is the stage-1 pairs, then the stage-2 pairs, then the leftovers *)
Theorem C02_result_is_stage1_then_stage2 : forall mx fpv cell ok n m,
  n <> 0%nat -> m <> 0%nat ->
  match_core mx fpv cell ok n m =
    let s := match_stages mx cell ok n m in
    map paired (st_pairs1 s ++ st_pairs2 s) ++ (if fpv then [] else map unpaired (st_rest_est s)).
Proof. exact match_core_general. Qed.
Print Assumptions C02_result_is_stage1_then_stage2.

(* stage 1 only forms compatible matchable pairs; stage 2 only incompatible matchable ones *)
Theorem C02_stage_pairs : forall mx cell ok n m,
  let s := match_stages mx cell ok n m in
  (forall e g, In (e, g) (st_pairs1 s) -> ok e g = true /\ exists sc, cell e g = Some sc) /\
  (forall e g, In (e, g) (st_pairs2 s) -> ok e g = false /\ exists sc, cell e g = Some sc).
Proof.
  intros. split.
  - apply (stages_pair1_ok mx cell ok n m), match_stages_ok.
  - apply (stages_pair2_incompatible mx cell ok n m), match_stages_ok.
Qed.
Print Assumptions C02_stage_pairs.

(* stage 1: every matchable compatible pair that is not matched together has a member that is
   matched in stage 1 (compatibly) to a partner scoring at least as well *)
Theorem C02_stage1_no_blocking : forall mx cell ok n m e g sc,
  (e < n)%nat -> (g < m)%nat -> cell e g = Some sc -> ok e g = true ->
  let s := match_stages mx cell ok n m in
  In (e, g) (st_pairs1 s)
  \/ (exists g' sc', In (e, g') (st_pairs1 s) /\ ok e g' = true /\ cell e g' = Some sc' /\ as_good mx sc' sc)
  \/ (exists e' sc', In (e', g) (st_pairs1 s) /\ ok e' g = true /\ cell e' g = Some sc' /\ as_good mx sc' sc).
Proof. intros. apply (stages_stage1_no_blocking mx cell ok n m); auto. apply match_stages_ok. Qed.
Print Assumptions C02_stage1_no_blocking.

(* stage 2: every matchable pair (in particular every incompatible one) that is not matched together
   has a member matched in stage 1, or matched in stage 2 to a partner scoring at least as well *)
Theorem C02_stage2_no_blocking : forall mx cell ok n m e g sc,
  (e < n)%nat -> (g < m)%nat -> cell e g = Some sc ->
  let s := match_stages mx cell ok n m in
  In (e, g) (st_pairs2 s)
  \/ (exists g', In (e, g') (st_pairs1 s))
  \/ (exists e', In (e', g) (st_pairs1 s))
  \/ (exists g' sc', In (e, g') (st_pairs2 s) /\ cell e g' = Some sc' /\ as_good mx sc' sc)
  \/ (exists e' sc', In (e', g) (st_pairs2 s) /\ cell e' g = Some sc' /\ as_good mx sc' sc).
Proof. intros. apply (stages_stage2_no_blocking mx cell ok n m); auto. apply match_stages_ok. Qed.
Print Assumptions C02_stage2_no_blocking.

(* stage 1 exhausts the compatible candidates: among the objects it leaves unmatched there is no
   compatible matchable pair (so the loop bound `range(num_estimation)` never cuts it short) *)
Theorem C02_stage1_exhausts : forall mx cell ok n m e g,
  let s := match_stages mx cell ok n m in
  (e < n)%nat -> (g < m)%nat ->
  ~ In e (map fst (st_pairs1 s)) -> ~ In g (map snd (st_pairs1 s)) ->
  ok e g = true -> cell e g = None.
Proof. intros mx cell ok n m e g s. apply (stages_stage1_exhausts mx cell ok n m), match_stages_ok. Qed.
Print Assumptions C02_stage1_exhausts.

(* the same two clauses stated on the returned result list only (what an observer of
   get_object_results can check): (e, Some g) in out = "e and g are matched together" *)
Theorem C02_compatible_no_blocking : forall mx fpv cell ok n m e g sc,
  (e < n)%nat -> (g < m)%nat -> cell e g = Some sc -> ok e g = true ->
  let out := match_core mx fpv cell ok n m in
  In (e, Some g) out
  \/ (exists g' sc', In (e, Some g') out /\ ok e g' = true /\ cell e g' = Some sc' /\ as_good mx sc' sc)
  \/ (exists e' sc', In (e', Some g) out /\ ok e' g = true /\ cell e' g = Some sc' /\ as_good mx sc' sc).
Proof. exact result_compatible_no_blocking. Qed.
Print Assumptions C02_compatible_no_blocking.

Theorem C02_incompatible_no_blocking : forall mx fpv cell ok n m e g sc,
  (e < n)%nat -> (g < m)%nat -> cell e g = Some sc ->
  let out := match_core mx fpv cell ok n m in
  In (e, Some g) out
  \/ (exists g' sc', In (e, Some g') out /\ cell e g' = Some sc' /\ (ok e g' = true \/ as_good mx sc' sc))
  \/ (exists e' sc', In (e', Some g) out /\ cell e' g = Some sc' /\ (ok e' g = true \/ as_good mx sc' sc)).
Proof. exact result_any_no_blocking. Qed.
Print Assumptions C02_incompatible_no_blocking.

(* compatible before incompatible: an estimate that ends up with an incompatible ground truth g'
   although a compatible matchable g existed lost g to a compatible estimate scoring at least as well *)
Theorem C02_compatible_first : forall mx fpv cell ok n m e g g' sc,
  (e < n)%nat -> (g < m)%nat -> cell e g = Some sc -> ok e g = true ->
  In (e, Some g') (match_core mx fpv cell ok n m) -> ok e g' = false ->
  exists e' sc', In (e', Some g) (match_core mx fpv cell ok n m) /\ ok e' g = true /\
                 cell e' g = Some sc' /\ as_good mx sc' sc.
Proof. exact result_compatible_first. Qed.
Print Assumptions C02_compatible_first.

(* within each stage the best-scoring available pair is taken first: the scores along each stage's
   pick list never get better *)
Theorem C02_best_first : forall mx cell ok n m,
  let s := match_stages mx cell ok n m in
  Sorted.StronglySorted
    (fun p q => forall sp sq, masked cell ok (fst p) (snd p) = Some sp -> masked cell ok (fst q) (snd q) = Some sq ->
                              as_good mx sp sq) (st_pairs1 s) /\
  Sorted.StronglySorted
    (fun p q => forall sp sq, cell (fst p) (snd p) = Some sp -> cell (fst q) (snd q) = Some sq -> as_good mx sp sq)
    (st_pairs2 s).
Proof. intros. apply (stages_scores_sorted mx cell ok n m), match_stages_ok. Qed.
Print Assumptions C02_best_first.

(* The documented algorithm as a relation that does not commit to any tie-breaking:
     greedy_run mx key es gs ps es' gs'  :=  repeatedly take SOME pair of alive row x alive column
       whose key is not NaN and at least as good as every other alive candidate; stop when every
       alive candidate is NaN;
     greedy2 := a greedy_run on the label-masked keys from all rows/columns, followed by a greedy_run
       on the raw keys from what is left.
   The model (row-major first-best tie-breaking, explicit loop bounds) is one such run ... *)
Theorem C02_model_is_greedy_run : forall mx cell ok n m,
  let s := match_stages mx cell ok n m in
  greedy2 mx cell ok n m (st_pairs1 s) (st_pairs2 s) (st_rest_est s) (st_rest_gt s).
Proof. intros. apply (stages_is_greedy2 mx cell ok n m), match_stages_ok. Qed.
Print Assumptions C02_model_is_greedy_run.

(* ... and when no two candidate scores tie, every run of the documented greedy gives the same
   pairs in the same order and the same leftovers: the result is THE two-stage greedy assignment *)
Theorem C02_greedy_unique_without_ties : forall mx cell ok n m,
  (forall e1 g1 e2 g2 s1 s2,
     In e1 (seq 0 n) -> In g1 (seq 0 m) -> In e2 (seq 0 n) -> In g2 (seq 0 m) ->
     cell e1 g1 = Some s1 -> cell e2 g2 = Some s2 -> s1 == s2 -> e1 = e2 /\ g1 = g2) ->
  forall p1 p2 rest_e rest_g,
    greedy2 mx cell ok n m p1 p2 rest_e rest_g ->
    let s := match_stages mx cell ok n m in
    p1 = st_pairs1 s /\ p2 = st_pairs2 s /\ rest_e = st_rest_est s /\ rest_g = st_rest_gt s.
Proof.
  intros mx cell ok n m D p1 p2 re rg G s.
  eapply (greedy2_unique mx cell ok n m D); [|exact G].
  apply stages_is_greedy2, match_stages_ok.
Qed.
Print Assumptions C02_greedy_unique_without_ties.

(* with ties the model follows numpy: [argbest] is the FIRST occurrence of the best non-NaN value of
   the flattened (row-major) table of the alive rows x columns -- every earlier cell is strictly worse
   (or NaN), every later one is not better.  [cells es gs] is that flattened table. *)
Theorem C02_argbest_first_occurrence : forall mx key es gs e0 g0,
  argbest mx key es gs = Some (e0, g0) ->
  exists l1 l2 s,
    flat_map (fun e => map (fun g => (e, g)) gs) es = l1 ++ (e0, g0) :: l2 /\ key e0 g0 = Some s /\
    (forall e g s', In (e, g) l1 -> key e g = Some s' -> better mx s s' = true) /\
    (forall e g s', In (e, g) l2 -> key e g = Some s' -> as_good mx s s').
Proof. exact argbest_first_best. Qed.
Print Assumptions C02_argbest_first_occurrence.

(* ... and the loop stops exactly when every alive cell is NaN *)
Theorem C02_argbest_none_iff_all_nan : forall mx key es gs,
  argbest mx key es gs = None <-> (forall e g, In e es -> In g gs -> key e g = None).
Proof. exact argbest_none_iff. Qed.
Print Assumptions C02_argbest_none_iff_all_nan.

(* MatchingLabelPolicy.is_matchable: an FP-labelled ground truth is matchable with everything;
   DEFAULT needs equal labels, ALLOW_UNKNOWN also accepts an unknown-labelled estimate,
   ALLOW_ANY accepts everything *)
Theorem C02_is_matchable_table : forall gt_is_fp same_label est_is_unknown,
  is_matchable P_DEFAULT gt_is_fp same_label est_is_unknown = (gt_is_fp || same_label) /\
  is_matchable P_ALLOW_UNKNOWN gt_is_fp same_label est_is_unknown = (gt_is_fp || (same_label || est_is_unknown)) /\
  is_matchable P_ALLOW_ANY gt_is_fp same_label est_is_unknown = true.
Proof. exact is_matchable_table. Qed.
Print Assumptions C02_is_matchable_table.

(* distances are minimised, IoU is maximised, "better than the threshold" is strict *)
Theorem C02_direction : forall a b,
  (better (maximize_of CENTERDISTANCE) a b = true <-> a < b) /\
  (better (maximize_of PLANEDISTANCE) a b = true <-> a < b) /\
  (better (maximize_of IOU2D) a b = true <-> b < a) /\
  (better (maximize_of IOU3D) a b = true <-> b < a).
Proof. intros. repeat split; intros H; apply (better_true_iff _ a b) in H || apply (better_true_iff _ a b); exact H. Qed.
Print Assumptions C02_direction.

(* non-vacuity: a closer estimate of the wrong label (est 0, 1/8 m) does not pre-empt the compatible
   ones; est 1 and est 2 tie for GT 0 (row-major first wins); est 0 goes to GT 1 in stage 2 *)
Definition ex2_facts : Facts :=
  mkFacts [0; 0; 0]%nat [0; 0]%nat [None; None] [false; false; false] [false; false]
          [[Some (1#8); Some 2]; [Some (1#2); Some 3]; [Some (1#2); Some 4]]
          [[false; false]; [true; false]; [true; false]].

Example C02_nonvacuous :
  get_object_results CENTERDISTANCE P_DEFAULT false ex2_facts = [(1, Some 0); (0, Some 1); (2, None)]%nat /\
  st_pairs1 (match_stages false (cell_of false ex2_facts) (ok_of P_DEFAULT ex2_facts) 3 2) = [(1, 0)]%nat /\
  st_pairs2 (match_stages false (cell_of false ex2_facts) (ok_of P_DEFAULT ex2_facts) 3 2) = [(0, 1)]%nat /\
  get_object_results CENTERDISTANCE P_ALLOW_ANY false ex2_facts = [(0, Some 0); (1, Some 1); (2, None)]%nat /\
  get_object_results IOU2D P_DEFAULT false ex2_facts = [(1, Some 0); (2, Some 1); (0, None)]%nat.
Proof. vm_compute. repeat split; reflexivity. Qed.
