(* Redundant tie, LOOP layer: the small loop functions at the heart of the metrics are re-translated from the Python `ast` on
   every run (translator/loops.py -> Gen/Loops.v: a `for` is a fold_left in the error monad, xs[i] is nth_error with an explicit
   ErrIndex) and every theorem below says that a generated definition EQUALS the hand-model definition the property theorems
   are about, for ALL inputs (lists of any length: the induction is in the loop rules of Proofs/GenTieLoopsLemmas.v).
   Each theorem is self-contained (compiled on its own by the harness): a fact it needs about another generated function is
   re-established inside its proof by the same script.  What the generated function returns OUTSIDE the guard of the main
   equation is stated by the `_outside` theorem that follows it; together they cover every input. *)
From Coq Require Import List Bool ZArith Arith Lia.
From PE Require Import Base.QUtil Proofs.GenTieLoopsLemmas.
From PE Require Model.AP Model.Filter.
From PE Require Gen.Loops.
Import Gen.Loops.
Import ListNotations.
Import Filter.
Open Scope Q_scope.

(* ---- Ap.interpolate_precision_recall_list = AP.envelope (scanned from the last rank), followed by the closing element ------ *)
(* guard: the two lists are the precision and recall of the same ranks (equal lengths) and there is at least one rank (the code
   indexes [-1]).  [closed e] = (precisions of e ++ [the last of them], recalls of e ++ [0]). *)
Theorem GenTie_interpolate_precision_recall_list :
  forall precision recall : list Q,
    length precision = length recall -> precision <> [] ->
    Gen_interpolate_precision_recall_list.f precision recall = Ok (closed (AP.envelope (rev (combine precision recall)))).
Proof.
  intros p r Hlen Hne.
  destruct (snoc_cases p) as [->|(p0 & pl & ->)]; [congruence|].
  destruct (snoc_cases r) as [->|(r0 & rl & ->)]; [rewrite app_length in Hlen; simpl in Hlen; lia|].
  rewrite !app_length in Hlen; simpl in Hlen.
  rewrite envelope_snoc_lists by lia. rewrite <- (combine_app_trunc p0 [pl] r0) by lia.
  assert (Hl : (length r0 <= length (p0 ++ [pl]))%nat) by (rewrite app_length; lia).
  unfold Gen_interpolate_precision_recall_list.f.
  interpolate_script (p0 ++ [pl]) r0 pl rl.
Qed.
Print Assumptions GenTie_interpolate_precision_recall_list.

(* outside the guard: IndexError when a list is empty or precision is too short for the first index scanned; otherwise (the
   lists are non-empty, of different lengths, and every scanned index exists) the envelope of the ranks  0 .. len(recall) - 2
   of BOTH lists, started from precision[-1] and recall[-1].  No hand model covers the last case (Ap never calls it so). *)
Theorem GenTie_interpolate_precision_recall_list_outside :
  (forall recall, Gen_interpolate_precision_recall_list.f [] recall = ErrIndex) /\
  (forall precision, Gen_interpolate_precision_recall_list.f precision [] = ErrIndex) /\
  (forall precision recall, precision <> [] -> (length precision + 1 < length recall)%nat ->
     Gen_interpolate_precision_recall_list.f precision recall = ErrIndex) /\
  (forall p0 pl r0 rl, (length r0 <= length (p0 ++ [pl]))%nat ->
     Gen_interpolate_precision_recall_list.f (p0 ++ [pl]) (r0 ++ [rl]) =
       Ok (closed ((pl, rl) :: AP.env_go pl (rev (combine (p0 ++ [pl]) r0))))).
Proof.
  split; [|split; [|split]].
  - intros r. reflexivity.
  - intros p. unfold Gen_interpolate_precision_recall_list.f. destruct (snoc_cases p) as [->|(p0 & pl & ->)]; [reflexivity|].
    loop_step. reflexivity.
  - intros p r Hne Hlen.
    destruct (snoc_cases p) as [->|(p0 & pl & ->)]; [congruence|].
    destruct (snoc_cases r) as [->|(r0 & rl & ->)]; [simpl in Hlen; lia|].
    assert (Hl : (length (p0 ++ [pl]) < length r0)%nat) by (rewrite !app_length in *; simpl in *; lia).
    unfold Gen_interpolate_precision_recall_list.f.
    interpolate_error_script (p0 ++ [pl]) r0 rl.
  - intros p0 pl r0 rl Hl. unfold Gen_interpolate_precision_recall_list.f.
    interpolate_script (p0 ++ [pl]) r0 pl rl.
Qed.
Print Assumptions GenTie_interpolate_precision_recall_list_outside.

Example GenTie_interpolate_precision_recall_list_nonvacuous :
  let p := [1; 1 # 2; 2 # 3; 3 # 4] in let r := [1 # 4; 1 # 4; 1 # 2; 3 # 4] in
  Gen_interpolate_precision_recall_list.f p r = Ok ([3 # 4; 1; 1], [3 # 4; 1 # 4; 0]) /\
  closed (AP.envelope (rev (combine p r))) = ([3 # 4; 1; 1], [3 # 4; 1 # 4; 0]) /\
  Gen_interpolate_precision_recall_list.f [1; 1 # 2] [1 # 4; 1 # 4; 1 # 2; 3 # 4] = ErrIndex.
Proof. vm_compute. repeat split. Qed.

(* ---- Ap._calculate_ap = AP.ap_code = AP.area of AP.envelope (0.0 for no rank) ------------------------------------------------ *)
(* guard: equal lengths.  The sum of the code runs over the positions of the closed lists but the last and reads recall[i + 1];
   the hand model has no closing element and reads 0 after the last point (AP.nextr): the equation says these agree. *)
Theorem GenTie__calculate_ap :
  forall precision recall : list Q,
    length precision = length recall ->
    Gen__calculate_ap.f precision recall = Ok (AP.ap_code (rev (combine precision recall))).
Proof.
  intros p r Hlen.
  destruct (snoc_cases p) as [->|(p0 & pl & ->)]; [reflexivity|].
  destruct (snoc_cases r) as [->|(r0 & rl & ->)]; [rewrite app_length in Hlen; simpl in Hlen; lia|].
  rewrite !app_length in Hlen; simpl in Hlen.
  assert (HI : Gen_interpolate_precision_recall_list.f (p0 ++ [pl]) (r0 ++ [rl]) =
               Ok (closed ((pl, rl) :: AP.env_go pl (rev (combine (p0 ++ [pl]) r0))))).
  { assert (Hl : (length r0 <= length (p0 ++ [pl]))%nat) by (rewrite app_length; lia).
    unfold Gen_interpolate_precision_recall_list.f. interpolate_script (p0 ++ [pl]) r0 pl rl. }
  unfold Gen__calculate_ap.f. rewrite HI.
  rewrite (combine_app_trunc p0 [pl] r0) by lia.
  unfold AP.ap_code. rewrite envelope_snoc_lists by lia.
  loop_step.
  generalize ((pl, rl) :: AP.env_go pl (rev (combine p0 r0))). intros E.
  area_script E.
Qed.
Print Assumptions GenTie__calculate_ap.

(* outside the guard: 0.0 whenever precision is empty (recall is not looked at); otherwise whatever interpolate does there *)
Theorem GenTie__calculate_ap_outside :
  (forall recall, Gen__calculate_ap.f [] recall = Ok 0) /\
  (forall precision, precision <> [] -> Gen__calculate_ap.f precision [] = ErrIndex) /\
  (forall precision recall, precision <> [] -> (length precision + 1 < length recall)%nat ->
     Gen__calculate_ap.f precision recall = ErrIndex) /\
  (forall p0 pl r0 rl, (length r0 <= length (p0 ++ [pl]))%nat ->
     Gen__calculate_ap.f (p0 ++ [pl]) (r0 ++ [rl]) = Ok (AP.area ((pl, rl) :: AP.env_go pl (rev (combine (p0 ++ [pl]) r0))))).
Proof.
  split; [|split; [|split]].
  - intros r. reflexivity.
  - intros p Hne. destruct (snoc_cases p) as [->|(p0 & pl & ->)]; [congruence|].
    unfold Gen__calculate_ap.f.
    loop_step.
    unfold Gen_interpolate_precision_recall_list.f. loop_step. reflexivity.
  - intros p r Hne Hlen.
    destruct (snoc_cases p) as [->|(p0 & pl & ->)]; [congruence|].
    destruct (snoc_cases r) as [->|(r0 & rl & ->)]; [simpl in Hlen; lia|].
    assert (Hl : (length (p0 ++ [pl]) < length r0)%nat) by (rewrite !app_length in *; simpl in *; lia).
    unfold Gen__calculate_ap.f.
    loop_step.
    replace (Gen_interpolate_precision_recall_list.f (p0 ++ [pl]) (r0 ++ [rl])) with (@ErrIndex (list Q * list Q)); [reflexivity|].
    symmetry. unfold Gen_interpolate_precision_recall_list.f. interpolate_error_script (p0 ++ [pl]) r0 rl.
  - intros p0 pl r0 rl Hl.
    assert (HI : Gen_interpolate_precision_recall_list.f (p0 ++ [pl]) (r0 ++ [rl]) =
                 Ok (closed ((pl, rl) :: AP.env_go pl (rev (combine (p0 ++ [pl]) r0))))).
    { unfold Gen_interpolate_precision_recall_list.f. interpolate_script (p0 ++ [pl]) r0 pl rl. }
    unfold Gen__calculate_ap.f. rewrite HI.
    loop_step.
    generalize ((pl, rl) :: AP.env_go pl (rev (combine (p0 ++ [pl]) r0))). intros E.
    area_script E.
Qed.
Print Assumptions GenTie__calculate_ap_outside.

Example GenTie__calculate_ap_nonvacuous :
  let p := [1; 1 # 2; 2 # 3; 3 # 4] in let r := [1 # 4; 1 # 4; 1 # 2; 3 # 4] in
  exists v, Gen__calculate_ap.f p r = Ok v /\ AP.ap_code (rev (combine p r)) = v /\ v == 5 # 8.
Proof. eexists. split; [vm_compute; reflexivity|]. split; [vm_compute; reflexivity|]. reflexivity. Qed.

(* ---- Ap.get_precision_recall_list = AP.points (precision = tp / (rank + 1), recall = tp / num_gt, 0 when num_gt = 0) ---------- *)
(* no guard: the function is total (every index it uses is below the length of the list it created) *)
Theorem GenTie_get_precision_recall_list :
  forall (tp_list : list Q) (num_ground_truth : nat),
    Gen_get_precision_recall_list.f tp_list num_ground_truth =
      Ok (map fst (AP.points 0 num_ground_truth tp_list), map snd (AP.points 0 num_ground_truth tp_list)).
Proof.
  intros tps n. unfold Gen_get_precision_recall_list.f.
  precision_recall_script tps n.
Qed.
Print Assumptions GenTie_get_precision_recall_list.

Example GenTie_get_precision_recall_list_nonvacuous :
  Gen_get_precision_recall_list.f [1; 1; 2; 3] 4 = Ok ([1 / 1; 1 / 2; 2 / 3; 3 / 4], [1 / 4; 1 / 4; 2 / 4; 3 / 4]) /\
  Gen_get_precision_recall_list.f [1; 1; 2; 3] 0 = Ok ([1 / 1; 1 / 2; 2 / 3; 3 / 4], [0; 0; 0; 0]) /\
  map fst (AP.points 0 4 [1; 1; 2; 3]) = [1 / 1; 1 / 2; 2 / 3; 3 / 4].
Proof. vm_compute. repeat split. Qed.

(* ---- Ap._calculate_tp_fp = the tp / fp lists of AP.ap_model (classify every ranked result, running sums) ------------------------ *)
(* object_results is the list Ap.__init__ has already sorted by confidence; objects_results_num is the attribute the code sizes
   its lists with.  [tpfp_result m g n l] = the AP.ap_model lists for the ranked list l (for no result: num_ground_truth zeros and
   1 .. num_ground_truth), with  n - length l  trailing zeros before the running sums when n is larger than the list.
   guard: length object_results <= objects_results_num (Ap.__init__ makes them equal: second statement, on AP.ap_model itself). *)
Theorem GenTie_Ap__calculate_tp_fp :
  (forall (m : AP.mode) (num_ground_truth objects_results_num : nat) (object_results : list AP.res),
     (length object_results <= objects_results_num)%nat ->
     Gen_Ap__calculate_tp_fp.f m num_ground_truth objects_results_num object_results =
       Ok (tpfp_result m num_ground_truth objects_results_num object_results)) /\
  (forall (m : AP.mode) (num_ground_truth : nat) (rs : list AP.res),
     Gen_Ap__calculate_tp_fp.f m num_ground_truth (length rs) (AP.sort_desc AP.conf rs) =
       Ok (AP.tp_list (AP.ap_model m num_ground_truth rs), AP.fp_list (AP.ap_model m num_ground_truth rs))).
Proof.
  assert (H : forall m g n rs, (length rs <= n)%nat -> Gen_Ap__calculate_tp_fp.f m g n rs = Ok (tpfp_result m g n rs)).
  { intros m g n rs Hn. unfold Gen_Ap__calculate_tp_fp.f. tp_fp_script m g n rs. }
  split; [exact H|].
  intros m g rs. rewrite ap_model_lists. apply H.
  rewrite (Permutation.Permutation_length (APRanking.sort_desc_perm AP.conf rs)). lia.
Qed.
Print Assumptions GenTie_Ap__calculate_tp_fp.

(* outside the guard (fewer allocated positions than results): IndexError as soon as a targeted result sits at the first rank
   beyond the allocated lists (proved); when that rank and the following ones are not targeted they are skipped by `continue` and
   nothing is raised until the next targeted one (the general case is not modelled: Ap.__init__ passes the exact length) *)
Theorem GenTie_Ap__calculate_tp_fp_outside :
  forall (m : AP.mode) (num_ground_truth : nat) (pre post : list AP.res) (x : AP.res) (t : Q),
    AP.thr x = Some t ->
    Gen_Ap__calculate_tp_fp.f m num_ground_truth (length pre) (pre ++ x :: post) = ErrIndex.
Proof.
  intros m g pre post x t Hx. unfold Gen_Ap__calculate_tp_fp.f.
  tp_fp_error_script m pre x post t Hx.
Qed.
Print Assumptions GenTie_Ap__calculate_tp_fp_outside.

Example GenTie_Ap__calculate_tp_fp_nonvacuous :
  let r c g fp ok t v w := AP.mkRes 0 c g fp ok t (Some v) w in
  let rs := [r (9 # 10) true false true (Some (1 # 2)) (Some (1 # 4)) 1;      (* TP *)
             r (8 # 10) true false true None (Some (1 # 4)) 1;                (* label not targeted: skipped *)
             r (7 # 10) true false true (Some (1 # 2)) (Some (3 # 4)) 1;      (* too far: FP *)
             r (6 # 10) false false false (Some (1 # 2)) None 1;              (* no ground truth: FP *)
             r (5 # 10) true false true (Some (1 # 2)) (Some (1 # 8)) (1 # 2)] in (* TP with weight 1/2 *)
  exists a b, Gen_Ap__calculate_tp_fp.f AP.Minimize 3 5 rs = Ok (a, b) /\ tpfp_result AP.Minimize 3 5 rs = (a, b) /\
              map Qred a = [1; 1; 1; 1; 3 # 2] /\ map Qred b = [0; 0; 1; 2; 2] /\
              Gen_Ap__calculate_tp_fp.f AP.Minimize 3 2 rs = ErrIndex /\
              Gen_Ap__calculate_tp_fp.f AP.Minimize 2 0 [] = Ok ([0; 0], [1; 2]).
Proof. do 2 eexists. split; [vm_compute; reflexivity|]. vm_compute. repeat split. Qed.
