From Coq Require Import QArith List Lia Lqa ZArith Psatz Bool Qminmax.
Import ListNotations.
Open Scope Q_scope.

Definition Qltb (a b:Q) : bool := match a ?= b with Lt => true | _ => false end.
Lemma Qltb_spec a b : reflect (a < b) (Qltb a b).
Proof. unfold Qltb. destruct (a ?= b) eqn:E; constructor.
- apply Qeq_alt in E. lra. - apply Qlt_alt in E. exact E. - apply Qgt_alt in E. lra. Qed.

(* points are given in REVERSED rank order: head = last rank *)
Definition pt := (Q * Q)%type. (* precision, recall *)

(* code: record highs scanning from the last rank *)
Fixpoint env_go (cur:Q) (l:list pt) : list pt :=
  match l with
  | [] => []
  | (p,r)::t => if Qltb cur p then (p,r) :: env_go p t else env_go cur t
  end.
Definition envelope (l:list pt) : list pt :=
  match l with [] => [] | (p,r)::t => (p,r) :: env_go p t end.

(* code: area = sum max_p[i]*(max_r[i]-max_r[i+1]) with closing point (last_p, 0) *)
Fixpoint area (e:list pt) : Q :=
  match e with
  | [] => 0
  | (p,r)::t => p * (r - match t with [] => 0 | (_,r')::_ => r' end) + area t
  end.
Definition ap_code (l:list pt) : Q := area (envelope l).

(* spec: all-point interpolation, in the same reversed orientation:
   term at a rank = (r - r_prev_rank) * max of precisions at this and later ranks *)
Fixpoint spec_go (m:Q) (l:list pt) : Q :=
  match l with
  | [] => 0
  | (p,r)::t => let m' := (if Qltb m p then p else m) in
                m' * (r - match t with [] => 0 | (_,r')::_ => r' end) + spec_go m' t
  end.
Definition ap_spec (l:list pt) : Q :=
  match l with [] => 0 | (p,_)::_ => spec_go p l end.

Definition nextr (t:list pt) : Q := match t with [] => 0 | (_,r')::_ => r' end.

(* generalised: the envelope tail after a record (cur, rc), where rc is the recall of the
   last emitted record, contributes cur*(rc - nextr(env_go cur t)) + area(env_go cur t);
   spec contributes sum over skipped points. *)
Lemma go_eq : forall t cur,
  cur * (nextr t - nextr (env_go cur t)) + area (env_go cur t) == spec_go cur t.
Proof.
  induction t as [|[p r] t IH]; intros cur; cbn [env_go area spec_go nextr].
  - ring.
  - destruct (Qltb_spec cur p) as [H|H].
    + cbn [area nextr]. fold (nextr (env_go p t)). fold (nextr t).
      specialize (IH p). 
      assert (E: area (env_go p t) == spec_go p t - p * (nextr t - nextr (env_go p t))) by lra.
      rewrite E. ring.
    + fold (nextr t).
      specialize (IH cur).
      assert (E: area (env_go cur t) == spec_go cur t - cur * (nextr t - nextr (env_go cur t))) by lra.
      rewrite E. ring.
Qed.

Theorem ap_code_eq_spec : forall l, ap_code l == ap_spec l.
Proof.
  intros [|[p r] t]; unfold ap_code, ap_spec; cbn [envelope area spec_go]. reflexivity.
  fold (nextr (env_go p t)). fold (nextr t).
  destruct (Qltb_spec p p) as [H|H]; [lra|].
  pose proof (go_eq t p) as IH.
  assert (E: area (env_go p t) == spec_go p t - p * (nextr t - nextr (env_go p t))) by lra.
  rewrite E. ring.
Qed.
Print Assumptions ap_code_eq_spec.

Eval vm_compute in Qred (ap_code [(3#4, 3#4); (2#3, 1#2); (1#2,1#4); (1, 1#4)]).
