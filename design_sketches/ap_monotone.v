From Coq Require Import QArith List Lia Lqa ZArith Psatz Bool.
Import ListNotations.
Open Scope Q_scope.

Definition Qltb (a b:Q) : bool := match a ?= b with Lt => true | _ => false end.
Lemma Qltb_spec a b : reflect (a < b) (Qltb a b).
Proof. unfold Qltb. destruct (a ?= b) eqn:E; constructor.
- apply Qeq_alt in E. lra. - apply Qlt_alt in E. exact E. - apply Qgt_alt in E. lra. Qed.

Definition pt := (Q * Q)%type.            (* (precision, recall), list head = LAST rank *)
Definition nextr (t:list pt) : Q := match t with [] => 0 | (_,r')::_ => r' end.
Definition bmax (m p:Q) : Q := if Qltb m p then p else m.

Fixpoint spec_go (m:Q) (l:list pt) : Q :=
  match l with
  | [] => 0
  | (p,r)::t => bmax m p * (r - nextr t) + spec_go (bmax m p) t
  end.
(* Abel-summed form *)
Fixpoint abel (m:Q) (l:list pt) : Q :=
  match l with
  | [] => 0
  | (p,r)::t => r * (bmax m p - m) + abel (bmax m p) t
  end.

Lemma spec_abel : forall l m, spec_go m l == abel m l + m * nextr l.
Proof.
  induction l as [|[p r] t IH]; intro m; cbn [spec_go abel nextr].
  - ring.
  - rewrite (IH (bmax m p)). destruct t as [|[p' r'] t']; cbn [nextr]; ring.
Qed.

Lemma bmax_ge_l m p : m <= bmax m p.
Proof. unfold bmax. destruct (Qltb_spec m p); lra. Qed.
Lemma bmax_mono m m2 p p2 : m <= m2 -> p <= p2 -> bmax m p <= bmax m2 p2.
Proof. unfold bmax. intros. destruct (Qltb_spec m p), (Qltb_spec m2 p2); lra. Qed.

(* same precisions, pointwise larger recalls *)
Inductive le_r : list pt -> list pt -> Prop :=
| le_r_nil : le_r [] []
| le_r_cons p r r2 t t2 : r <= r2 -> le_r t t2 -> le_r ((p,r)::t) ((p,r2)::t2).
Lemma abel_mono_r : forall l l2, le_r l l2 -> forall m, abel m l <= abel m l2.
Proof.
  induction 1 as [|p r r2 t t2 Hr _ IH]; intro m; cbn [abel]. lra.
  specialize (IH (bmax m p)). pose proof (bmax_ge_l m p). nra.
Qed.

(* same recalls (non-increasing towards earlier ranks, >= 0), pointwise larger precisions *)
Inductive le_p : list pt -> list pt -> Prop :=
| le_p_nil : le_p [] []
| le_p_cons p p2 r t t2 : p <= p2 -> le_p t t2 -> le_p ((p,r)::t) ((p2,r)::t2).
Fixpoint rec_ok (l:list pt) : Prop :=
  match l with [] => True | (_,r)::t => nextr t <= r /\ rec_ok t end.
Lemma le_p_nextr l l2 : le_p l l2 -> nextr l = nextr l2.
Proof. destruct 1; reflexivity. Qed.
Lemma spec_mono_p : forall l l2, le_p l l2 -> rec_ok l -> forall m m2, 0 <= m -> m <= m2 ->
  spec_go m l <= spec_go m2 l2.
Proof.
  induction 1 as [|p p2 r t t2 Hp Ht IH]; intros Hok m m2 H0 Hm; cbn [spec_go]. lra.
  destruct Hok as [Hr Hok]. rewrite <- (le_p_nextr _ _ Ht).
  pose proof (bmax_mono m m2 p p2 Hm Hp) as B. pose proof (bmax_ge_l m p) as G.
  specialize (IH Hok (bmax m p) (bmax m2 p2) ltac:(lra) B). nra.
Qed.

(* combination: l = (p,r), mid = (p,r2), l2 = (p2,r2) *)
Theorem ap_spec_monotone l mid l2 :
  le_r l mid -> le_p mid l2 -> rec_ok mid ->
  spec_go 0 l <= spec_go 0 l2.
Proof.
  intros H1 H2 Hok.
  rewrite (spec_abel l 0). 
  assert (E: spec_go 0 mid == abel 0 mid + 0 * nextr mid) by apply spec_abel.
  pose proof (abel_mono_r _ _ H1 0) as A.
  pose proof (spec_mono_p _ _ H2 Hok 0 0 ltac:(lra) ltac:(lra)) as B.
  lra.
Qed.
Print Assumptions ap_spec_monotone.
