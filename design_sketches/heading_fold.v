From Coq Require Import QArith List Lia Lqa ZArith Bool.
Open Scope Q_scope.
Definition Qltb (a b:Q) : bool := match a ?= b with Lt => true | _ => false end.
Lemma Qltb_spec a b : reflect (a < b) (Qltb a b).
Proof. unfold Qltb. destruct (a ?= b) eqn:E; constructor.
- apply Qeq_alt in E. lra. - apply Qlt_alt in E. exact E. - apply Qgt_alt in E. lra. Qed.
Ltac inner := match goal with |- context [Qltb ?x ?y] =>
   lazymatch x with context [Qltb _ _] => fail | _ => idtac end;
   lazymatch y with context [Qltb _ _] => fail | _ => idtac end;
   destruct (Qltb_spec x y); cbv iota end.
Definition qabs (x:Q) := if Qltb x 0 then -x else x.
(* get_heading_bev in pi-units, rots = yaw *)
Definition heading (q:Q) : Q :=
  let t := -q - (1#2) in
  let t := if Qltb 1 t then t - 2 else t in
  if Qltb t (-1) then t + 2 else t.
Definition weight (q1 q2:Q) : Q :=
  let d := qabs (heading q1 - heading q2) in
  let d := if Qltb 1 d then 2 - d else d in
  let w := 1 - d in
  let w := if Qltb w 0 then 0 else w in   (* max(0, .) *)
  if Qltb 1 w then 1 else w.              (* min(1, .) *)
Definition dspec (q1 q2:Q) : Q :=
  let a := qabs (q1 - q2) in if Qltb 1 a then 2 - a else a.
Theorem weight_spec q1 q2 : -1 < q1 -> q1 <= 1 -> -1 < q2 -> q2 <= 1 ->
  weight q1 q2 == 1 - dspec q1 q2.
Proof.
  intros. unfold weight, dspec, heading, qabs. cbv zeta.
  repeat inner; lra.
Qed.
(* frame independence: common rotation by ego yaw e with wrap *)
Definition wrap (x:Q) : Q := if Qltb 1 x then x - 2 else if Qltb x (-1) then x + 2 else if Qltb (-1) x then x else 1.
Theorem dspec_rot q1 q2 e : -1 < q1 -> q1 <= 1 -> -1 < q2 -> q2 <= 1 -> -1 < e -> e <= 1 ->
  dspec (wrap (q1+e)) (wrap (q2+e)) == dspec q1 q2.
Proof.
  intros. unfold dspec, wrap, qabs. cbv zeta.
  repeat inner; lra.
Qed.
Print Assumptions dspec_rot.
