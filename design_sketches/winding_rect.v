From Coq Require Import QArith List Lia Lqa ZArith Psatz Bool.
Import ListNotations.
Open Scope Q_scope.

Definition Qltb (a b:Q) : bool := match a ?= b with Lt => true | _ => false end.
Definition Qleb (a b:Q) : bool := match a ?= b with Gt => false | _ => true end.
Lemma Qltb_spec a b : reflect (a < b) (Qltb a b).
Proof. unfold Qltb. destruct (a ?= b) eqn:E; constructor.
- apply Qeq_alt in E. lra. - apply Qlt_alt in E. exact E. - apply Qgt_alt in E. lra. Qed.
Lemma Qleb_spec a b : reflect (a <= b) (Qleb a b).
Proof. unfold Qleb. destruct (a ?= b) eqn:E; constructor.
- apply Qeq_alt in E. lra. - apply Qlt_alt in E. lra. - apply Qgt_alt in E. lra. Qed.

(* one edge contribution, as in crop_pointcloud *)
Definition edge (ax ay bx by_ px py : Q) : Z :=
  let inc := Qleb ay py && Qltb py by_ in
  let dec := Qltb py ay && Qleb by_ py in
  (* valid: px < ax + (py-ay)/(by-ay)*(bx-ax); division-free form per sign *)
  let vt := (py - ay) / (by_ - ay) in
  let valid := Qltb px (ax + vt * (bx - ax)) in
  ((if inc && valid then 1 else 0) - (if dec && valid then 1 else 0))%Z.

(* rectangle: center (cx,cy), direction (c,s) not nec. unit, half extents a b >0;
   corners in code order: (+a,+b), (-a,+b), (-a,-b), (+a,-b) in local coords *)
Definition wx cx c s (u v:Q) := cx + c*u - s*v.
Definition wy cy c s (u v:Q) := cy + s*u + c*v.

Definition wind cx cy c s a b px py : Z :=
  let x0 := wx cx c s a b in let y0 := wy cy c s a b in
  let x1 := wx cx c s (-a) b in let y1 := wy cy c s (-a) b in
  let x2 := wx cx c s (-a) (-b) in let y2 := wy cy c s (-a) (-b) in
  let x3 := wx cx c s a (-b) in let y3 := wy cy c s a (-b) in
  (edge x0 y0 x1 y1 px py + edge x1 y1 x2 y2 px py + edge x2 y2 x3 y3 px py + edge x3 y3 x0 y0 px py)%Z.

(* key lemma: for an upward straddling edge, valid <-> cross > 0 *)
Lemma valid_up ax ay bx by_ px py : ay < by_ ->
  (px < ax + (py-ay)/(by_-ay)*(bx-ax)) <-> 0 < (bx-ax)*(py-ay) - (by_-ay)*(px-ax).
Proof. intros H. 
 assert (E: (py-ay)/(by_-ay)*(bx-ax) * (by_-ay) == (py-ay)*(bx-ax)) by (field; lra).
 split; intro K.
 - assert (px*(by_-ay) < (ax + (py-ay)/(by_-ay)*(bx-ax))*(by_-ay)) by (apply Qmult_lt_compat_r; lra). nra.
 - apply Qmult_lt_r with (z:=by_-ay); [lra|]. nra.
Qed.

Lemma valid_down ax ay bx by_ px py : by_ < ay ->
  (px < ax + (py-ay)/(by_-ay)*(bx-ax)) <-> (bx-ax)*(py-ay) - (by_-ay)*(px-ax) < 0.
Proof. intros H.
 assert (E: (py-ay)/(by_-ay)*(bx-ax) * (ay-by_) == -((py-ay)*(bx-ax))) by (field; lra).
 split; intro K.
 - assert (px*(ay-by_) < (ax + (py-ay)/(by_-ay)*(bx-ax))*(ay-by_)) by (apply Qmult_lt_compat_r; lra). nra.
 - apply Qmult_lt_r with (z:=ay-by_); [lra|]. nra.
Qed.

Definition cross ax ay bx by_ px py : Q := (bx-ax)*(py-ay) - (by_-ay)*(px-ax).

(* characterisation of one edge *)
Lemma edge_up ax ay bx by_ px py : ay < by_ ->
  edge ax ay bx by_ px py = (if Qleb ay py && Qltb py by_ && Qltb 0 (cross ax ay bx by_ px py) then 1 else 0)%Z.
Proof. intros H. unfold edge, cross.
  pose proof (valid_up ax ay bx by_ px py H) as V.
  destruct (Qleb_spec ay py), (Qltb_spec py by_), (Qltb_spec py ay), (Qleb_spec by_ py),
    (Qltb_spec px (ax + (py - ay) / (by_ - ay) * (bx - ax))),
    (Qltb_spec 0 ((bx - ax) * (py - ay) - (by_ - ay) * (px - ax)));
  cbn; try reflexivity; exfalso; try tauto; lra.
Qed.

Lemma edge_down ax ay bx by_ px py : by_ < ay ->
  edge ax ay bx by_ px py = (if Qltb py ay && Qleb by_ py && Qltb (cross ax ay bx by_ px py) 0 then -1 else 0)%Z.
Proof. intros H. unfold edge, cross.
  pose proof (valid_down ax ay bx by_ px py H) as V.
  destruct (Qleb_spec ay py), (Qltb_spec py by_), (Qltb_spec py ay), (Qleb_spec by_ py),
    (Qltb_spec px (ax + (py - ay) / (by_ - ay) * (bx - ax))),
    (Qltb_spec ((bx - ax) * (py - ay) - (by_ - ay) * (px - ax)) 0);
  cbn; try reflexivity; exfalso; try tauto; lra.
Qed.


Lemma cross_local cx cy c s u0 v0 u1 v1 u v :
  cross (wx cx c s u0 v0) (wy cy c s u0 v0) (wx cx c s u1 v1) (wy cy c s u1 v1) (wx cx c s u v) (wy cy c s u v)
  == (c*c+s*s) * ((u1-u0)*(v-v0) - (v1-v0)*(u-u0)).
Proof. unfold cross, wx, wy. ring. Qed.

Lemma pos_scale k x : 0 < k -> (0 < k * x <-> 0 < x).
Proof. intros; split; intro; nra. Qed.
Lemma neg_scale k x : 0 < k -> (k * x < 0 <-> x < 0).
Proof. intros; split; intro; nra. Qed.

(* inside, general position c>0, s>0 *)
Theorem inside_pp cx cy c s a b u v :
  0 < a -> 0 < b -> 0 < c -> 0 < s -> -a < u -> u < a -> -b < v -> v < b ->
  wind cx cy c s a b (wx cx c s u v) (wy cy c s u v) = 1%Z.
Proof.
  intros Ha Hb Hc Hs Hu1 Hu2 Hv1 Hv2. unfold wind.
  assert (K: 0 < c*c+s*s) by nra.
  rewrite (edge_down (wx cx c s a b) (wy cy c s a b) (wx cx c s (-a) b) (wy cy c s (-a) b)) by (unfold wy; nra).
  rewrite (edge_down (wx cx c s (-a) b) (wy cy c s (-a) b) (wx cx c s (-a) (-b)) (wy cy c s (-a) (-b))) by (unfold wy; nra).
  rewrite (edge_up (wx cx c s (-a) (-b)) (wy cy c s (-a) (-b)) (wx cx c s a (-b)) (wy cy c s a (-b))) by (unfold wy; nra).
  rewrite (edge_up (wx cx c s a (-b)) (wy cy c s a (-b)) (wx cx c s a b) (wy cy c s a b)) by (unfold wy; nra).
  assert (C0: ~ cross (wx cx c s a b) (wy cy c s a b) (wx cx c s (-a) b) (wy cy c s (-a) b) (wx cx c s u v) (wy cy c s u v) < 0).
  { rewrite cross_local. rewrite neg_scale by exact K. nra. }
  assert (C1: ~ cross (wx cx c s (-a) b) (wy cy c s (-a) b) (wx cx c s (-a) (-b)) (wy cy c s (-a) (-b)) (wx cx c s u v) (wy cy c s u v) < 0).
  { rewrite cross_local. rewrite neg_scale by exact K. nra. }
  assert (C2: 0 < cross (wx cx c s (-a) (-b)) (wy cy c s (-a) (-b)) (wx cx c s a (-b)) (wy cy c s a (-b)) (wx cx c s u v) (wy cy c s u v)).
  { rewrite cross_local. rewrite pos_scale by exact K. nra. }
  assert (C3: 0 < cross (wx cx c s a (-b)) (wy cy c s a (-b)) (wx cx c s a b) (wy cy c s a b) (wx cx c s u v) (wy cy c s u v)).
  { rewrite cross_local. rewrite pos_scale by exact K. nra. }
  repeat match goal with
  | |- context [Qltb (cross ?p ?q ?r ?t ?x ?y) 0] => destruct (Qltb_spec (cross p q r t x y) 0); [tauto|]
  | |- context [Qltb 0 (cross ?p ?q ?r ?t ?x ?y)] => destruct (Qltb_spec 0 (cross p q r t x y)); [|tauto]
  end.
  rewrite !andb_false_r, !andb_true_r.
  (* straddling of the two upward edges: exactly one *)
  assert (Y2: wy cy c s (-a) (-b) < wy cy c s u v) by (unfold wy; nra).
  assert (Y0: wy cy c s u v < wy cy c s a b) by (unfold wy; nra).
  destruct (Qleb_spec (wy cy c s (-a) (-b)) (wy cy c s u v)); [|lra].
  destruct (Qltb_spec (wy cy c s u v) (wy cy c s a (-b))), (Qleb_spec (wy cy c s a (-b)) (wy cy c s u v)), (Qltb_spec (wy cy c s u v) (wy cy c s a b));
  cbn; try reflexivity; exfalso; lra.
Qed.
Print Assumptions inside_pp.
