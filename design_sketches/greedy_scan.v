From Coq Require Import QArith List Lia Lqa ZArith Bool Arith.
Import ListNotations.

Section Greedy.
Variable key : nat -> nat -> option Q.      (* None = NaN *)
Variable better : Q -> Q -> bool.           (* strictly better *)
Hypothesis better_irrefl : forall a, better a a = false.
Hypothesis better_trans : forall a b c, better a b = true -> better b c = true -> better a c = true.
Hypothesis better_negtrans : forall a b c, better a b = false -> better b c = false -> better a c = false.

Definition cand := (Q * nat * nat)%type.

Definition upd (best : option cand) (e g:nat) : option cand :=
  match key e g with
  | None => best
  | Some s => match best with
              | None => Some (s,e,g)
              | Some (sb,_,_) => if better s sb then Some (s,e,g) else best
              end
  end.
Fixpoint scan_row (e:nat) (gs:list nat) (best:option cand) : option cand :=
  match gs with [] => best | g::t => scan_row e t (upd best e g) end.
Fixpoint scan (es gs:list nat) (best:option cand) : option cand :=
  match es with [] => best | e::t => scan t gs (scan_row e gs best) end.

(* "best so far" invariant *)
Definition good (es gs : list nat) (P : nat -> nat -> Prop) (b : option cand) : Prop :=
  match b with
  | None => forall e g, P e g -> key e g = None
  | Some (s,e0,g0) => key e0 g0 = Some s /\ In e0 es /\ In g0 gs /\
                      forall e g s', P e g -> key e g = Some s' -> better s' s = false
  end.

Lemma upd_good es gs P b e g : In e es -> In g gs -> good es gs P b ->
  good es gs (fun e' g' => P e' g' \/ (e' = e /\ g' = g)) (upd b e g).
Proof.
  intros He Hg Hb. unfold upd. destruct (key e g) as [s|] eqn:K.
  - destruct b as [[[sb e0] g0]|]; cbn in *.
    + destruct Hb as (K0 & I0 & J0 & Hall). destruct (better s sb) eqn:B; cbn.
      * repeat split; auto. intros e' g' s' [Hp|[-> ->]] K'.
        -- specialize (Hall _ _ _ Hp K'). destruct (better s' s) eqn:B'; auto.
           rewrite (better_trans _ _ _ B' B) in Hall. discriminate.
        -- rewrite K in K'. inversion K'; subst.
           apply better_irrefl.
      * repeat split; auto. intros e' g' s' [Hp|[-> ->]] K'.
        -- eauto.
        -- rewrite K in K'. inversion K'; subst. exact B.
    + repeat split; auto. intros e' g' s' [Hp|[-> ->]] K'.
      * rewrite (Hb _ _ Hp) in K'. discriminate.
      * rewrite K in K'. inversion K'; subst. apply better_irrefl.
  - destruct b as [[[sb e0] g0]|]; cbn in *.
    + destruct Hb as (K0 & I0 & J0 & Hall). repeat split; auto.
      intros e' g' s' [Hp|[-> ->]] K'; eauto. rewrite K in K'. discriminate.
    + intros e' g' [Hp|[-> ->]]; auto.
Qed.
End Greedy.
