#!/usr/bin/env python3
"""Translator for the FRAME BOOKKEEPING loops of perception_eval: Python `ast` -> Gallina (Gen/loops_passfail.v).

Third layer of the redundant tie (decisions.py: loop-free decision functions; loops.py: the loops of the AP computation): the loops
around the already tied decision functions -- filtering (`filter_objects`, `filter_object_results` around `_is_target_object`) and the
pass / fail split of a frame (`get_status`, `get_positive_objects`, `get_negative_objects`, `PassFailResult.evaluate`,
`get_num_success` / `get_num_fail`) -- are re-translated from the source on every run and Props/GenTiePassFail.v proves each generated
definition EQUAL, for all inputs (lists of any length), to the hand model (Model/Filter.v, Model/PassFail.v).

What is translated is the CONTROL STRUCTURE: which list is iterated, the order of the tests, which element is appended to which list,
`continue`, which label's threshold is looked up, which arguments are forwarded to which callee.  What is NOT translated but looked up
is the meaning of the LEAVES, by explicit tables:
  attrs    (type of the object, attribute)  -> projection of the model's fact record      e.g. (Res, ground_truth_object) -> r_gt
  methods  (type of the object, method)     -> model fact / already tied generated function e.g. (Res, get_status) -> Gen_get_status.f
  funcs    callee name -> generated function of Gen/Decisions.v with the parameter list (names, types, DEFAULTS) of the callee; the
           parameter names and defaults are compared with the callee's signature in the source on every run
  consts   enum members.
The tables are keyed by TYPE, not by variable name: a renamed loop variable, an extracted local or a helper expression translate alike.

How Python is rendered (everything lives in the error monad `Filter.res`; Python locals are let-bound as `l_<name>`):
  for x in xs      fold_left (fun st_ x => bind st_ (fun <state> => <body>)) xs (Ok <state>), state = the locals defined before the
                   loop that the body changes (in order of first definition); an exception keeps the state an error: propagation.
                   `continue` = the body's continuation `Ok <state>` at that point; `break` / `return` in a loop: not translated.
  conditions       continuation-passing: `a and b`, `a or b`, `not a` short-circuit exactly as Python does, ALSO when a later operand
                   can raise (`is_target and _is_target_object(...)`); `x is None` / `x is not None` / truthiness of an Optional
                   object NARROW `x` (a Coq match binding the payload; x may be a local or an attribute chain such as
                   `object_result.ground_truth_object`), truthiness of an Optional list = `Some (_ :: _)`.
                   Reading an attribute of a value that may be None is not translated (fail closed): the narrowing discipline.
  if (no escape)   bind (<decision tree whose leaves are Ok <changed locals>>) (fun <changed locals> => <rest>)
  if with continue / return: the rest of the block is the continuation of both branches (each path keeps its own narrowing).
  a and b as VALUE bind (<tree with leaves Ok true / Ok false / the last operand>) (fun b => ...) when an operand can raise, a pure
                   if / match term otherwise.  Conditional expressions alike.
  lists            `.append` only on locals created in the function; the element type of `[]` comes from the function's table
                   `local_types` or from its annotation (List[DynamicObject] ...); appending an Optional object to a list makes it a
                   list of options (nothing is silently unwrapped); `x in xs` on objects = DynamicObject.__eq__ (the key fact).
  calls            positional + keyword arguments are matched against the callee's parameter list, missing ones take the callee's
                   default, evaluation order is Python's.
Each function declares the loops its equation is proved for; another loop form is reported as not translated (fail closed per
function) rather than handed to a proof script written for another term.  Only `ast` is used; the library is never imported.
"""
import ast
import os
import re
import sys
from fractions import Fraction

sys.path.insert(0, os.path.dirname(os.path.abspath(__file__)))
from py_to_coq import TranslatorError, coq_str  # noqa: E402
from decisions import fail, paren, qlit, parse, find_function  # noqa: E402
import decisions  # noqa: E402

MODNAME = "loops_passfail"          # harness/lib/core.py regenerate_gen: translator/<modname>.py writes Gen/<modname>.v

# =============================================================================================
# types
# =============================================================================================
BOOL, NAT, Q, Z, UNIT, NONE, FLAG, LBL, STR, NUM = "bool", "nat", "Q", "Z", "unit", "none", "flag", "lbl", "string", "num"
ANYLIST = ("list", "?")            # the literal []


def coqt(n):
    return ("coq", n)


def opt(t):
    return ("opt", t)


def lst(t):
    return ("list", t)


def tup(*ts):
    return ("tuple", tuple(ts))


OBJ, RES, STATUS = coqt("Obj"), coqt("Res"), coqt("PassFail.status")


def is_opt(t):
    return isinstance(t, tuple) and t[0] == "opt"


def is_list(t):
    return isinstance(t, tuple) and t[0] == "list"


def is_tuple(t):
    return isinstance(t, tuple) and t[0] == "tuple"


def cty(t):
    if t in (BOOL, NAT, Q, Z, UNIT, STR):
        return t
    if t == FLAG:
        return "bool"
    if t == LBL:
        return "nat"
    if isinstance(t, tuple):
        if t[0] == "coq":
            return t[1]
        if t[0] == "opt":
            return f"option {paren(cty(t[1]))}"
        if t[0] == "list" and t[1] != "?":
            return f"list {paren(cty(t[1]))}"
        if t[0] == "tuple":
            return "(" + " * ".join(paren(cty(x)) for x in t[1]) + ")"
    fail(f"type {t} has no Coq rendering")


def show(t):
    try:
        return cty(t)
    except TranslatorError:
        return str(t)


class E:
    """a translated PURE expression: Coq term, type; const: the enum member it denotes; parts: components of a tuple literal"""

    def __init__(self, term, ty, num=None, isint=False, const=None, parts=None):
        self.term, self.ty, self.num, self.isint, self.const, self.parts = term, ty, num, isint, const, parts


class CallSpec:
    """callee -> Coq template over `{param}` (and `{self}` for methods); params: [(name, type, default Coq term | None = required)]"""

    def __init__(self, template, params, ret, eff=False):
        self.template, self.params, self.ret, self.eff = template, params, ret, eff


class Fn:
    def __init__(self, name, file, func, params, penv, ret, cls=None, attrs=None, methods=None, funcs=None, consts=None, members=None,
                 local_types=None, loops=(), needs=(), needs_decisions=(), sigs=(), star_ok=False, out_fields=()):
        self.name, self.file, self.func, self.cls = name, file, func, cls
        self.params, self.penv, self.ret = params, penv, ret       # params: Coq binder text; penv: python parameter -> (Coq term, type)
        self.attrs, self.methods, self.funcs, self.consts = attrs or {}, methods or {}, funcs or {}, consts or {}
        self.members = members or {}                               # (type of x, element type of xs) -> template of `x in xs`
        self.local_types = local_types or {}
        self.loops = list(loops)        # [(iteration kind, (state types))] in source order: what the proof script is written for
        self.needs, self.needs_decisions, self.sigs, self.star_ok = needs, needs_decisions, sigs, star_ok
        self.found, self.counter, self.effects = [], 0, 0
        self.out_fields = list(out_fields)      # [(attribute of self, type)]: the function's result when it returns nothing
        self.inline_depth, self.tree_body, self.lc_count = 0, [], 0

    def fresh(self, hint="e"):
        self.counter += 1
        return f"{hint}{self.counter}"


class Env:
    def __init__(self, fn):
        self.fn = fn
        self.vars = {}          # python name -> (Coq term, type)
        self.params = set()
        self.narrow = {}        # ast.unparse text of an Optional expression known not to be None here -> (payload term, payload type)
        self.isnone = set()     # ast.unparse text of an Optional expression known to BE None here
        self.made = set()       # list locals created in this function (may be appended to)
        self.loop = None        # inside a loop: continuation of `continue` / of the end of the body

    def copy(self):
        e = Env(self.fn)
        e.vars, e.params, e.narrow, e.made, e.loop = dict(self.vars), set(self.params), dict(self.narrow), set(self.made), self.loop
        e.isnone = set(self.isnone)
        return e


def lname(n):
    return "l_" + n.replace(".", "_")


# =============================================================================================
# coercions
# =============================================================================================
def coerce(e, ty, node=None):
    if e.ty == ty:
        return e.term
    if e.ty == NONE:
        if is_opt(ty):
            return "None"
        if ty == FLAG:
            return "false"
        fail(f"None where a {show(ty)} is needed", node)
    if ty == NONE:
        fail(f"a {show(e.ty)} where the model only covers the literal None", node)
    if isinstance(ty, tuple) and ty[0] == "only":
        if e.const == ty[1]:
            return e.term
        fail(f"the model only covers the value {ty[1]} here", node)
    if e.ty == NUM:
        if ty == Q:
            return qlit(e.num)
        if ty == NAT and e.isint and e.num >= 0:
            return f"{int(e.num)}%nat"
        fail(f"a numeric literal where a {show(ty)} is needed", node)
    if e.ty == ANYLIST and is_list(ty):
        return "[]"
    if is_opt(ty) and not is_opt(e.ty):
        return f"Some {paren(coerce(e, ty[1], node))}"
    if is_tuple(ty) and is_tuple(e.ty) and e.parts is not None and len(e.parts) == len(ty[1]):
        return "(" + ", ".join(coerce(p, t, node) for p, t in zip(e.parts, ty[1])) + ")"
    fail(f"a {show(e.ty)} where a {show(ty)} is needed", node)


def join_ty(a, b, node=None):
    if a == b:
        return a
    if a == NONE:
        return b if is_opt(b) else opt(b)
    if b == NONE:
        return a if is_opt(a) else opt(a)
    if a == NUM and b in (Q, NAT):
        return b
    if b == NUM and a in (Q, NAT):
        return a
    if is_opt(a) and not is_opt(b):
        return opt(join_ty(a[1], b, node))
    if is_opt(b) and not is_opt(a):
        return opt(join_ty(a, b[1], node))
    if is_opt(a) and is_opt(b):
        return opt(join_ty(a[1], b[1], node))
    if is_tuple(a) and is_tuple(b) and len(a[1]) == len(b[1]):
        return tup(*[join_ty(x, y, node) for x, y in zip(a[1], b[1])])
    if a == ANYLIST and is_list(b):
        return b
    if b == ANYLIST and is_list(a):
        return a
    fail(f"the two branches have incompatible types {show(a)} / {show(b)}", node)


# =============================================================================================
# expressions (continuation-passing: k receives a pure E and returns the Coq term of what follows)
# =============================================================================================
def emit_bind(fn, term, k, hint="e"):
    fn.effects += 1
    v = fn.fresh(hint)
    return f"bind ({term}) (fun {v} =>\n{k(v)})"


def tr(node, env, k):
    fn = env.fn
    key = ast.unparse(node)
    if key in env.narrow:
        t, ty = env.narrow[key]
        return k(E(t, ty))
    if key in fn.consts:
        return k(fn.consts[key])
    if isinstance(node, ast.Attribute) and key in env.vars:           # an attribute of self assigned earlier in this function
        t, ty = env.vars[key]
        return k(E(t, ty))
    if isinstance(node, ast.Constant):
        c = node.value
        if c is True or c is False:
            return k(E("true" if c else "false", BOOL))
        if c is None:
            return k(E("None", NONE))
        if isinstance(c, (int, float)):
            if isinstance(c, float) and (c != c or c in (float("inf"), float("-inf"))):
                fail("non-finite constant", node)
            return k(E(None, NUM, num=Fraction(c), isint=isinstance(c, int)))
        fail(f"constant {c!r}", node)
    if isinstance(node, ast.Name):
        if node.id in env.vars:
            t, ty = env.vars[node.id]
            return k(E(t, ty))
        fail(f"unknown name `{node.id}` (not a parameter, not assigned on this path before this use)", node)
    if isinstance(node, ast.Attribute):
        def with_base(b):
            if is_opt(b.ty) or b.ty == NONE:
                fail(f"`{ast.unparse(node.value)}` may be None where `.{node.attr}` is read", node)
            a = fn.attrs.get((b.ty, node.attr))
            if a is None:
                fail(f"attribute not in the vocabulary: `.{node.attr}` of a {show(b.ty)}", node)
            return k(E(a[0].format(paren(b.term)), a[1]))
        return tr(node.value, env, with_base)
    if isinstance(node, ast.Call):
        return tr_call(node, env, k)
    if isinstance(node, (ast.BoolOp, ast.Compare, ast.IfExp)) or (isinstance(node, ast.UnaryOp) and isinstance(node.op, ast.Not)):
        return tr_choice(node, env, k)
    if isinstance(node, ast.Tuple):
        def go(i, acc):
            if i == len(node.elts):
                return k(E("(" + ", ".join(p.term if p.ty != NUM else qlit(p.num) for p in acc) + ")", tup(*[p.ty for p in acc]), parts=list(acc)))
            return tr(node.elts[i], env, lambda e: go(i + 1, acc + [e]))
        if len(node.elts) < 2:
            fail("tuple of fewer than two components", node)
        return go(0, [])
    if isinstance(node, ast.List):
        if not node.elts:
            return k(E("[]", ANYLIST))
        fail("non-empty list literal", node)
    if isinstance(node, ast.BinOp) and isinstance(node.op, ast.Add):
        return tr(node.left, env, lambda a: tr(node.right, env, lambda b: k(arith_add(a, b, node))))
    fail(f"expression not translated: `{key}`", node)


def arith_add(a, b, node):
    if a.ty == NAT and b.ty == NAT:
        return E(f"({a.term} + {b.term})%nat", NAT)
    fail(f"`+` on a {show(a.ty)} and a {show(b.ty)}", node)


def tr_call(node, env, k):
    fn = env.fn
    f = node.func
    if isinstance(f, ast.Name):
        if f.id in env.vars:
            fail(f"call of the local `{f.id}`", node)
        if f.id == "len" and len(node.args) == 1 and not node.keywords:
            def with_list(a):
                if not is_list(a.ty):
                    fail("len() of a non-list", node)
                return k(E(f"length {paren(a.term)}", NAT))
            return tr(node.args[0], env, with_list)
        spec = fn.funcs.get(f.id)
        if spec is None:
            return inline_helper(node, env, k)
        return apply_call(spec, None, node, env, k)
    if isinstance(f, ast.Attribute):
        whole = ast.unparse(f)
        if whole in fn.funcs:           # e.g. a name-mangled private method `self.__helper`
            return apply_call(fn.funcs[whole], None, node, env, k)

        def with_base(b):
            if is_opt(b.ty) or b.ty == NONE:
                fail(f"`{ast.unparse(f.value)}` may be None where `.{f.attr}()` is called", node)
            spec = fn.methods.get((b.ty, f.attr))
            if spec is None:
                fail(f"method not in the vocabulary: `.{f.attr}()` of a {show(b.ty)}", node)
            return apply_call(spec, b, node, env, k)
        return tr(f.value, env, with_base)
    fail(f"call form `{ast.unparse(f)}`", node)


def inline_helper(node, env, k):
    """a call of a module-level helper of the same file that is not in the vocabulary: inlined when its body is a single
    `return <expression>` over positional parameters (an extracted predicate); anything else is not translated"""
    fn = env.fn
    name = node.func.id
    defs = [d for d in getattr(fn, "tree_body", []) if isinstance(d, ast.FunctionDef) and d.name == name]
    if len(defs) != 1:
        fail(f"call not in the vocabulary: `{name}`", node)
    d = defs[0]
    body = list(d.body)
    if body and isinstance(body[0], ast.Expr) and isinstance(body[0].value, ast.Constant) and isinstance(body[0].value.value, str):
        body = body[1:]
    a = d.args
    if len(body) != 1 or not isinstance(body[0], ast.Return) or body[0].value is None or a.vararg or a.kwarg or a.kwonlyargs \
            or a.posonlyargs or a.defaults or node.keywords or len(node.args) != len(a.args) or fn.inline_depth >= 3:
        fail(f"call not in the vocabulary: `{name}` (only a helper that is a single `return <expression>` is inlined)", node)
    pnames = [x.arg for x in a.args]

    def go(i, acc):
        if i == len(pnames):
            e2 = Env(fn)
            for pn, e in zip(pnames, acc):
                if e.ty in (NUM, NONE, ANYLIST):
                    fail(f"a literal passed to the helper `{name}`", node)
                e2.vars[pn] = (e.term, e.ty)
                e2.params.add(pn)
            fn.inline_depth += 1
            try:
                return tr(body[0].value, e2, k)
            finally:
                fn.inline_depth -= 1
        return tr(node.args[i], env, lambda e: go(i + 1, acc + [e]))
    return go(0, [])


def apply_call(spec, self_e, node, env, k):
    fn = env.fn
    name = ast.unparse(node.func)
    if any(isinstance(a, ast.Starred) for a in node.args) or any(kw.arg is None for kw in node.keywords):
        fail(f"`*` / `**` argument in the call of {name}", node)
    pnames = [p[0] for p in spec.params]
    if len(node.args) > len(pnames):
        fail(f"too many arguments for {name}", node)
    given = []          # (param name, ast) in Python's evaluation order: positional, then keywords, in source order
    for pn, a in zip(pnames, node.args):
        given.append((pn, a))
    for kw in node.keywords:
        if kw.arg not in pnames or kw.arg in [g[0] for g in given]:
            fail(f"keyword argument `{kw.arg}` of {name}", node)
        given.append((kw.arg, kw.value))
    ptypes = {p[0]: p[1] for p in spec.params}
    vals = {}

    def finish():
        term = spec.template
        for pn, pty, default in spec.params:
            if pn in vals:
                v = vals[pn]
            elif default is not None:
                v = default
            else:
                fail(f"missing argument `{pn}` of {name}", node)
            term = term.replace("{" + pn + "}", paren(v))
        if self_e is not None:
            term = term.replace("{self}", paren(self_e.term))
        if spec.eff:
            return emit_bind(fn, term, lambda v: k(E(v, spec.ret)))
        return k(E(paren(term), spec.ret))

    def go(i):
        if i == len(given):
            return finish()
        pn, a = given[i]

        def got(e):
            vals[pn] = coerce(e, ptypes[pn], a)
            return go(i + 1)
        return tr(a, env, got)
    return go(0)


# ---- conditions ---------------------------------------------------------------------------------------------------------
def cond(test, env, kt, kf, strict=False):
    """Coq term of `kt(env') if test else kf(env'')`; env' / env'' carry what the test tells about Optionals.
    strict: the test is used as a VALUE (`x = a and b`): every operand must be a boolean (Python would return the operand itself)."""
    fn = env.fn
    if isinstance(test, ast.BoolOp):
        vals = test.values
        if len(vals) == 1:
            return cond(vals[0], env, kt, kf, strict)
        rest = vals[1] if len(vals) == 2 else ast.BoolOp(op=test.op, values=vals[1:])
        if isinstance(test.op, ast.And):
            return cond(vals[0], env, lambda e: cond(rest, e, kt, kf, strict), kf, strict)
        return cond(vals[0], env, kt, lambda e: cond(rest, e, kt, kf, strict), strict)
    if isinstance(test, ast.UnaryOp) and isinstance(test.op, ast.Not):
        return cond(test.operand, env, kf, kt, strict)
    if isinstance(test, ast.Constant) and test.value in (True, False) and isinstance(test.value, bool):
        return kt(env) if test.value else kf(env)
    if isinstance(test, ast.Compare):
        if len(test.ops) != 1:
            fail("chained comparison", test)
        op, lhs, rhs = test.ops[0], test.left, test.comparators[0]
        if isinstance(op, (ast.Is, ast.IsNot)) and isinstance(rhs, ast.Constant) and rhs.value is None:
            k_none, k_some = (kt, kf) if isinstance(op, ast.Is) else (kf, kt)
            return narrow_none(lhs, env, k_none, k_some, test)
        if isinstance(op, (ast.Is, ast.IsNot)) and isinstance(rhs, ast.Constant) and isinstance(rhs.value, bool):
            pos = rhs.value == isinstance(op, ast.Is)

            def with_b(a):
                if a.ty != BOOL:
                    fail("`is True` / `is False` on a non-boolean", test)
                return ite(a.term, kt(env), kf(env)) if pos else ite(a.term, kf(env), kt(env))
            return tr(lhs, env, with_b)
        if isinstance(op, (ast.In, ast.NotIn)):
            def with_x(x):
                def with_l(l):
                    if not is_list(l.ty):
                        fail("`in` on a non-list", test)
                    m = fn.members.get((x.ty, l.ty[1]))
                    if m is None:
                        fail(f"`in` of a {show(x.ty)} in a list of {show(l.ty[1])} is not in the vocabulary", test)
                    t = m.replace("{x}", paren(x.term)).replace("{l}", paren(l.term))
                    return ite(t, kt(env), kf(env)) if isinstance(op, ast.In) else ite(t, kf(env), kt(env))
                return tr(rhs, env, with_l)
            return tr(lhs, env, with_x)
        return tr(lhs, env, lambda a: tr(rhs, env, lambda b: compare(op, a, b, env, kt, kf, test)))
    # a bare expression in boolean context
    key = ast.unparse(test)
    if key in env.narrow:
        t, ty = env.narrow[key]
        if isinstance(ty, tuple) and ty[0] == "coq":
            return kt(env)                       # an object known not to be None: truthy

    def with_v(v):
        if v.ty == BOOL:
            if v.term == "true":
                return kt(env)
            if v.term == "false":
                return kf(env)
            return ite(v.term, kt(env), kf(env))
        if strict:
            fail(f"a {show(v.ty)} used as an operand of a boolean VALUE (Python would return the operand itself)", test)
        if is_opt(v.ty) and isinstance(v.ty[1], tuple) and v.ty[1][0] == "coq":
            return narrow_none(test, env, kf, kt, test)         # truthiness of an Optional object (no __bool__ / __len__): is not None
        if is_opt(v.ty) and is_list(v.ty[1]):
            h, t = fn.fresh("h"), fn.fresh("t")
            e1 = env.copy()
            e1.narrow[key] = (f"({h} :: {t})", v.ty[1])
            return f"match {v.term} with\n| Some ({h} :: {t}) =>\n{kt(e1)}\n| _ =>\n{kf(env)}\nend"
        if is_list(v.ty) and v.ty != ANYLIST:
            return f"match {v.term} with\n| _ :: _ =>\n{kt(env)}\n| [] =>\n{kf(env)}\nend"
        fail(f"truthiness of a {show(v.ty)}", test)
    return tr(test, env, with_v)


def ite(c, a, b):
    return f"if {c} then\n{a}\nelse\n{b}"


def narrow_none(x, env, k_none, k_some, node):
    fn = env.fn
    key = ast.unparse(x)
    if key in env.narrow:
        return k_some(env)
    if key in env.isnone:
        return k_none(env)

    def with_v(v):
        if v.ty == NONE:
            return k_none(env)
        if v.ty == FLAG:
            return ite(v.term, k_some(env), k_none(env))
        if not is_opt(v.ty):
            fail(f"`{key}` (a {show(v.ty)}) is compared with None but is never None in the model", node)
        b = fn.fresh("v")
        e1 = env.copy()
        e1.narrow[key] = (b, v.ty[1])
        e0 = env.copy()
        e0.isnone.add(key)
        return f"match {v.term} with\n| Some {b} =>\n{k_some(e1)}\n| None =>\n{k_none(e0)}\nend"
    return tr(x, env, with_v)


def compare(op, a, b, env, kt, kf, node):
    neg = isinstance(op, ast.NotEq)
    if isinstance(op, (ast.Eq, ast.NotEq)):
        if a.const is not None and b.const is None:
            a, b = b, a
        if b.const is not None:
            if a.ty == b.ty:
                t = f"match {a.term} with {b.const} => true | _ => false end"
            elif a.ty == opt(b.ty):
                t = f"match {a.term} with Some {b.const} => true | _ => false end"
            else:
                fail(f"== between a {show(a.ty)} and the enum member {b.const}", node)
            return ite(t, kf(env), kt(env)) if neg else ite(t, kt(env), kf(env))
        if a.ty == BOOL and b.ty == BOOL:
            t = f"Bool.eqb {paren(a.term)} {paren(b.term)}"
            return ite(t, kf(env), kt(env)) if neg else ite(t, kt(env), kf(env))
    if a.ty in (Q, NUM) and b.ty in (Q, NUM) and not (a.ty == NUM and b.ty == NUM):
        x, y = coerce(a, Q, node), coerce(b, Q, node)
        f = {ast.Lt: "Qltb {x} {y}", ast.LtE: "Qleb {x} {y}", ast.Gt: "Qltb {y} {x}", ast.GtE: "Qleb {y} {x}", ast.Eq: "Qeqb {x} {y}",
             ast.NotEq: "Qeqb {x} {y}"}.get(type(op))
    elif a.ty in (NAT, NUM) and b.ty in (NAT, NUM) and not (a.ty == NUM and b.ty == NUM):
        x, y = coerce(a, NAT, node), coerce(b, NAT, node)
        f = {ast.Lt: "Nat.ltb {x} {y}", ast.LtE: "Nat.leb {x} {y}", ast.Gt: "Nat.ltb {y} {x}", ast.GtE: "Nat.leb {y} {x}", ast.Eq: "Nat.eqb {x} {y}",
             ast.NotEq: "Nat.eqb {x} {y}"}.get(type(op))
    else:
        fail(f"comparison of a {show(a.ty)} with a {show(b.ty)}", node)
    if f is None:
        fail(f"comparison operator {type(op).__name__}", node)
    t = f.format(x=paren(x), y=paren(y))
    return ite(t, kf(env), kt(env)) if neg else ite(t, kt(env), kf(env))


def tr_choice(node, env, k):
    """a boolean operator / comparison / conditional expression used as a VALUE"""
    T, F_ = E("true", BOOL), E("false", BOOL)
    if isinstance(node, ast.IfExp):
        def build(leaf):
            return cond(node.test, env, lambda e: tr(node.body, e, leaf), lambda e: tr(node.orelse, e, leaf))
        want = None
    elif isinstance(node, ast.BoolOp):
        vals = node.values
        front = vals[0] if len(vals) == 2 else ast.BoolOp(op=node.op, values=vals[:-1])
        last = vals[-1]
        if isinstance(node.op, ast.And):
            def build(leaf):
                return cond(front, env, lambda e: tr(last, e, leaf), lambda e: leaf(F_), strict=True)
        else:
            def build(leaf):
                return cond(front, env, lambda e: leaf(T), lambda e: tr(last, e, leaf), strict=True)
        want = BOOL
    else:
        def build(leaf):
            return cond(node, env, lambda e: leaf(T), lambda e: leaf(F_))
        want = BOOL
    return join_value(build, env, k, node, want)


def simplify_bool(term):
    """`if c then true else false` -> c (only the outermost, only for a one-line c)"""
    m = re.fullmatch(r"if ([^\n]+) then\ntrue\nelse\nfalse", term)
    if m:
        return m.group(1)
    m = re.fullmatch(r"if ([^\n]+) then\nfalse\nelse\ntrue", term)
    if m:
        return f"negb {paren(m.group(1))}"
    return term


def join_value(build, env, k, node, want=None):
    """build(leaf) renders a decision tree whose leaves are values; it becomes ONE value: a pure if / match term when nothing in it can
    raise, `bind (<tree with Ok leaves>) (fun b => ...)` otherwise"""
    fn = env.fn
    leaves = []
    c0, e0 = fn.counter, fn.effects
    build(lambda e: (leaves.append(e), "?")[1])
    eff = fn.effects != e0
    fn.counter, fn.effects = c0, e0             # the second rendering uses the same fresh names
    if not leaves:
        fail("internal: a choice without a value", node)
    ty = leaves[0].ty
    for l in leaves[1:]:
        ty = join_ty(ty, l.ty, node)
    if ty == NUM:
        ty = Q
    if ty == NONE or ty == ANYLIST:
        fail("a choice whose value is None / [] on every path", node)
    if want is not None and ty != want:
        fail(f"a boolean operator whose value is a {show(ty)} (Python would return the operand itself)", node)
    if not eff and len(leaves) == 1 and leaves[0].const is not None:
        return k(leaves[0])                     # the other branches are statically dead: the constant itself
    if not eff:
        term = simplify_bool(build(lambda e: coerce(e, ty, node)))
        return k(E(paren(term), ty))
    term = build(lambda e: "Ok " + paren(coerce(e, ty, node)))
    fn.effects += 1
    v = fn.fresh("b")
    return f"bind ({term}) (fun {v} =>\n{k(E(v, ty))})"


# =============================================================================================
# statements
# =============================================================================================
def assigned(stmts):
    """names (re)bound or mutated by the statements, in order of first occurrence"""
    out = []

    def add(n):
        if n not in out:
            out.append(n)

    for s in stmts:
        for n in ast.walk(s):
            if isinstance(n, ast.Name) and isinstance(n.ctx, ast.Store):
                add(n.id)
            elif isinstance(n, ast.Subscript) and isinstance(n.ctx, ast.Store) and isinstance(n.value, ast.Name):
                add(n.value.id)
            elif isinstance(n, ast.Call) and isinstance(n.func, ast.Attribute) and isinstance(n.func.value, ast.Name) \
                    and n.func.attr in ("append", "extend", "insert", "pop", "remove", "clear", "sort", "reverse"):
                add(n.func.value.id)
    return out


def escapes(stmts):
    return any(isinstance(n, (ast.Return, ast.Continue, ast.Break)) for s in stmts for n in ast.walk(s))


def state_tuple(names):
    ts = [lname(n) for n in names]
    return ts[0] if len(ts) == 1 else "(" + ", ".join(ts) + ")"


def state_pat(names):
    ts = [lname(n) for n in names]
    return ts[0] if len(ts) == 1 else "'(" + ", ".join(ts) + ")"


def state_type(names, env):
    ts = [cty(env.vars[n][1]) for n in names]
    return paren(ts[0]) if len(ts) == 1 else "(" + " * ".join(paren(t) for t in ts) + ")"


def drop_narrow(env, name):
    for key in list(env.narrow):
        if re.search(r"(?<![\w.])" + re.escape(name) + r"\b", key):
            del env.narrow[key]
    for key in list(env.isnone):
        if re.search(r"(?<![\w.])" + re.escape(name) + r"\b", key):
            env.isnone.discard(key)


def bind_local(env, name, ty, node, made=False):
    if name in env.params:
        fail(f"parameter `{name}` is re-assigned", node)
    if name in env.vars and env.vars[name][1] != ty:
        fail(f"`{name}` changes its type from {show(env.vars[name][1])} to {show(ty)}", node)
    e1 = env.copy()
    e1.vars[name] = (lname(name), ty)
    drop_narrow(e1, name)
    if made:
        e1.made.add(name)
    else:
        e1.made.discard(name)
    return e1


ANNOTATIONS = {"DynamicObjectWithPerceptionResult": RES, "DynamicObject": OBJ, "ObjectType": OBJ, "bool": BOOL}


def ann_type(ann):
    if ann is None:
        return None
    if isinstance(ann, ast.Name) and ann.id in ANNOTATIONS:
        return ANNOTATIONS[ann.id]
    if isinstance(ann, ast.Subscript) and isinstance(ann.value, ast.Name) and ann.value.id == "List":
        t = ann_type(ann.slice)
        return lst(t) if t is not None else None
    if isinstance(ann, ast.Subscript) and isinstance(ann.value, ast.Name) and ann.value.id == "Optional":
        t = ann_type(ann.slice)
        return opt(t) if t is not None else None
    return None


def desugar_listcomp(lc, env, s):
    """`[elt for x in xs if c1 if c2]` -> (name of a fresh local, statements `name = []` / `for x in xs: if c1 and c2: name.append(elt)`)"""
    fn = env.fn
    if len(lc.generators) != 1 or lc.generators[0].is_async or not isinstance(lc.generators[0].target, ast.Name):
        fail("comprehension form", s)
    g = lc.generators[0]
    if g.target.id in env.vars:
        fail(f"comprehension variable `{g.target.id}` shadows an existing name", s)
    c0, e0 = fn.counter, fn.effects
    box, box2 = [], []
    tr(g.iter, env, lambda e: (box.append(e.ty), "?")[1])
    if len(box) != 1 or not is_list(box[0]) or box[0] == ANYLIST:
        fail("comprehension over something that is not a list", s)
    e1 = env.copy()
    e1.vars[g.target.id] = (lname(g.target.id), box[0][1])
    test = None if not g.ifs else (g.ifs[0] if len(g.ifs) == 1 else ast.BoolOp(op=ast.And(), values=list(g.ifs)))
    if test is None:
        tr(lc.elt, e1, lambda e: (box2.append(e.ty), "?")[1])
    else:
        cond(test, e1, lambda e: tr(lc.elt, e, lambda x: (box2.append(x.ty), "?")[1]), lambda e: "?")
    fn.counter, fn.effects = c0, e0
    if not box2 or any(t != box2[0] for t in box2) or box2[0] in (NUM, NONE, ANYLIST):
        fail("the element type of the comprehension is not known", s)
    fn.lc_count += 1
    name = f"comp{fn.lc_count}_"
    fn.local_types[name] = lst(box2[0])
    app = ast.Expr(value=ast.Call(func=ast.Attribute(value=ast.Name(id=name, ctx=ast.Load()), attr="append", ctx=ast.Load()), args=[lc.elt], keywords=[]))
    inner = [app] if test is None else [ast.If(test=test, body=[app], orelse=[])]
    stmts = [ast.Assign(targets=[ast.Name(id=name, ctx=ast.Store())], value=ast.List(elts=[], ctx=ast.Load())),
             ast.For(target=g.target, iter=g.iter, body=inner, orelse=[])]
    for st in stmts:
        ast.copy_location(st, s)
        ast.fix_missing_locations(st)
    return name, stmts


def target_name(x, fn):
    """assignment target: a local, or an attribute of self the function is declared to set (kept as the pseudo-local `self.<attr>`)"""
    if isinstance(x, ast.Name):
        return x.id
    if isinstance(x, ast.Attribute) and isinstance(x.value, ast.Name) and x.value.id == "self" and x.attr in [f for f, _ in fn.out_fields]:
        return "self." + x.attr
    return None


def tr_block(ss, env, k):
    """-> Coq term of type res <...>; k(env): what follows the block (None: the end of the function)"""
    fn = env.fn
    if not ss:
        if k is None:
            if fn.out_fields:           # a method that returns nothing: its result is the attributes of self it has assigned
                for fld, fty in fn.out_fields:
                    if "self." + fld not in env.vars or env.vars["self." + fld][1] != fty:
                        fail(f"`self.{fld}` is not assigned (as a {show(fty)}) on every path")
                return "Ok (" + ", ".join(lname("self." + fld) for fld, _ in fn.out_fields) + ")"
            fail(f"{fn.func}: control can reach the end of the function without a return")
        return k(env)
    s, rest = ss[0], ss[1:]

    def cont(e):
        return tr_block(rest, e, k)

    if isinstance(s, ast.Expr) and isinstance(s.value, ast.Constant) and isinstance(s.value.value, str):
        return cont(env)
    if isinstance(s, ast.Pass):
        return cont(env)
    if isinstance(s, ast.AnnAssign) and s.value is None:
        return cont(env)
    if isinstance(s, ast.Return):
        if env.loop is not None:
            fail("return inside a loop", s)
        if s.value is None:
            fail("bare return", s)
        if isinstance(s.value, ast.ListComp):
            name, stmts = desugar_listcomp(s.value, env, s)
            ret = ast.copy_location(ast.Return(value=ast.Name(id=name, ctx=ast.Load())), s)
            return tr_block(stmts + [ast.fix_missing_locations(ret)], env, None)
        if isinstance(s.value, ast.IfExp):          # `return a if c else b` = `if c: return a` / `else: return b`
            ra, rb = ast.copy_location(ast.Return(value=s.value.body), s), ast.copy_location(ast.Return(value=s.value.orelse), s)
            return cond(s.value.test, env, lambda e: tr_block([ra], e, None), lambda e: tr_block([rb], e, None))
        return tr(s.value, env, lambda e: f"Ok {paren(coerce(e, fn.ret, s))}")
    if isinstance(s, ast.Continue):
        if env.loop is None:
            fail("continue outside a loop", s)
        return env.loop(env)
    if isinstance(s, ast.Break):
        fail("break is not translated", s)
    if isinstance(s, (ast.Assign, ast.AnnAssign)):
        targets = s.targets if isinstance(s, ast.Assign) else [s.target]
        if len(targets) != 1:
            fail("chained assignment", s)
        tg = targets[0]
        ann = s.annotation if isinstance(s, ast.AnnAssign) else None
        if isinstance(tg, ast.Name) and isinstance(s.value, ast.ListComp) and tg.id not in env.vars:
            name, stmts = desugar_listcomp(s.value, env, s)
            # the comprehension builds the list under the local's own name
            class _Ren(ast.NodeTransformer):
                def visit_Name(self, n):
                    return ast.copy_location(ast.Name(id=tg.id, ctx=n.ctx), n) if n.id == name else n
            fn.local_types[tg.id] = fn.local_types[name]
            return tr_block([ast.fix_missing_locations(_Ren().visit(st)) for st in stmts] + rest, env, k)
        if isinstance(tg, ast.Name):
            def bound(e):
                prev = env.vars[tg.id][1] if tg.id in env.vars and tg.id not in env.params else None
                if e.ty == ANYLIST:
                    ty = fn.local_types.get(tg.id) or prev or ann_type(ann)
                    if ty is None or not is_list(ty):
                        fail(f"the element type of the empty list `{tg.id}` is not known", s)
                elif e.ty == NONE:
                    ty = fn.local_types.get(tg.id) or prev or ann_type(ann)
                    if ty is None or not is_opt(ty):
                        fail(f"`{tg.id} = None`: the type of the local is not known", s)
                elif e.ty == NUM:
                    ty = prev or (NAT if e.isint and e.num >= 0 and (ann is None or ast.unparse(ann) == "int") else Q)
                else:
                    ty = e.ty
                    if prev is not None and prev != ty and is_opt(prev) and prev[1] == ty:
                        ty = prev
                if is_list(ty) and isinstance(s.value, ast.Name):
                    fail(f"`{tg.id}` would alias the list `{s.value.id}`", s)
                made = is_list(ty) and isinstance(s.value, ast.List)
                e1 = bind_local(env, tg.id, ty, s, made=made)
                return f"let {lname(tg.id)} := {coerce(e, ty, s)} in\n{cont(e1)}"
            return tr(s.value, env, bound)
        if isinstance(tg, ast.Tuple) and all(target_name(x, fn) is not None for x in tg.elts):
            def bound2(e):
                if not (is_tuple(e.ty) and len(e.ty[1]) == len(tg.elts)):
                    fail("tuple unpacking of something that is not a tuple of that length", s)
                names = [target_name(x, fn) for x in tg.elts]
                real = [n for n in names if n != "_"]
                if len(set(real)) != len(real):
                    fail("repeated name in a tuple target", s)
                e1 = env
                for nme, ty in zip(names, e.ty[1]):
                    if nme != "_":
                        # the lists returned by a call are fresh objects: they may be mutated
                        e1 = bind_local(e1, nme, ty, s, made=is_list(ty) and isinstance(s.value, ast.Call))
                pat = ", ".join("_" if n == "_" else lname(n) for n in names)
                return f"let '({pat}) := {e.term} in\n{cont(e1)}"
            return tr(s.value, env, bound2)
        fail("assignment target", s)
    if isinstance(s, ast.Expr) and isinstance(s.value, ast.Call) and isinstance(s.value.func, ast.Attribute) \
            and isinstance(s.value.func.value, ast.Name) and s.value.func.attr == "append":
        c = s.value
        nme = c.func.value.id
        if len(c.args) != 1 or c.keywords:
            fail("append form", s)
        if nme not in env.vars or nme in env.params or nme not in env.made or not is_list(env.vars[nme][1]):
            fail(f"append to `{nme}`, which is not a list created in this function", s)
        ety = env.vars[nme][1][1]
        x = lname(nme)
        return tr(c.args[0], env, lambda v: f"let {x} := ({x} ++ [{coerce(v, ety, s)}])%list in\n{cont(env.copy())}")
    if isinstance(s, ast.If):
        if escapes([s]):
            return cond(s.test, env, lambda e: tr_block(s.body, e, cont), lambda e: tr_block(s.orelse, e, cont))
        ab, ao = assigned(s.body), assigned(s.orelse)
        mv = [v for v in env.vars if v in ab or v in ao] + [v for v in ab if v not in env.vars and v in ao]
        if not mv:
            fail("an `if` that neither leaves nor changes a variable that is live afterwards", s)
        seen = {}

        def kj(e):
            for v in mv:
                if v not in e.vars:
                    fail(f"`{v}` is not assigned on every path", s)
                seen.setdefault(v, []).append(e.vars[v][1])
                seen.setdefault(("m", v), []).append(v in e.made)
            return f"Ok {state_tuple(mv)}"

        tree = cond(s.test, env, lambda e: tr_block(s.body, e, kj), lambda e: tr_block(s.orelse, e, kj))
        e1 = env.copy()
        for v in mv:
            if any(t != seen[v][0] for t in seen[v]):
                fail(f"`{v}` has different types on the two paths", s)
            e1.vars[v] = (lname(v), seen[v][0])
            drop_narrow(e1, v)
            if all(seen[("m", v)]):
                e1.made.add(v)
            else:
                e1.made.discard(v)
        fn.effects += 1
        return f"bind ({tree}) (fun {state_pat(mv)} =>\n{cont(e1)})"
    if isinstance(s, ast.For):
        return tr_for(s, rest, env, k)
    fail(f"statement not translated: {type(s).__name__}", s)


def tr_for(s, rest, env, k):
    fn = env.fn
    if s.orelse:
        fail("for ... else", s)
    if not isinstance(s.target, ast.Name):
        fail("loop target", s)
    x = s.target.id
    if x in env.vars:
        fail(f"loop variable `{x}` shadows an existing name", s)
    ab = assigned(s.body)
    if x in ab:
        fail(f"loop variable `{x}` is assigned in the body", s)
    for v in ab:
        if v in env.params:
            fail(f"parameter `{v}` is changed in a loop", s)
    for m in ast.walk(s.iter):
        if isinstance(m, ast.Name) and m.id in ab:
            fail(f"`{m.id}` is iterated and changed in the same loop", s)
    state = [v for v in env.vars if v in ab]
    if not state:
        fail("a loop that changes no variable defined before it", s)

    def with_iter(it):
        if not is_list(it.ty) or it.ty == ANYLIST:
            fail("loop over something that is not a list", s)
        benv = env.copy()
        benv.vars[x] = (lname(x), it.ty[1])
        drop_narrow(benv, x)
        for v in state:
            drop_narrow(benv, v)

        def end(e):
            for v in state:
                if v not in e.vars or e.vars[v][1] != env.vars[v][1]:
                    fail(f"`{v}` changes its type inside the loop", s)
                if (v in env.made) != (v in e.made):
                    fail(f"`{v}` is re-bound to a list that is not fresh inside the loop", s)
            return f"Ok {state_tuple(state)}"
        benv.loop = end
        body = tr_block(s.body, benv, end)
        fn.found.append(("list", tuple(env.vars[v][1] for v in state)))
        e1 = env.copy()
        for v in state:
            drop_narrow(e1, v)
        fn.effects += 1
        loop = (f"fold_left (fun (st_ : res {state_type(state, env)}) {lname(x)} => bind st_ (fun {state_pat(state)} =>\n{body}))\n"
                f"({it.term}) (Ok {state_tuple(state)})")
        return f"bind ({loop}) (fun {state_pat(state)} =>\n{tr_block(rest, e1, k)})"
    return tr(s.iter, env, with_iter)


# =============================================================================================
# one function
# =============================================================================================
def check_signature(tree, cls, func, expected):
    """the callee's parameter list in the source: names in order and defaults (`ast.unparse`, None = no default)"""
    f = find_function(tree, cls, func)
    a = f.args
    names = [x.arg for x in a.args if x.arg != "self"]
    defaults = [None] * (len(a.args) - len(a.defaults)) + [ast.unparse(d) for d in a.defaults]
    if a.args and a.args[0].arg == "self":
        defaults = defaults[1:]
    got = list(zip(names, defaults))
    if got != list(expected):
        fail(f"the signature of {(cls + '.') if cls else ''}{func} changed: {got} (the vocabulary was written for {list(expected)})")


def translate_function(fn, repo, trees):
    def tree_of(rel):
        if rel not in trees:
            trees[rel] = parse(repo, rel)
        return trees[rel]

    f = find_function(tree_of(fn.file), fn.cls, fn.func)
    fn.tree_body = list(tree_of(fn.file).body)
    for rel, cls, func, expected in fn.sigs:
        check_signature(tree_of(rel), cls, func, expected)
    fn.counter, fn.effects, fn.found = 0, 0, []
    body = list(f.body)
    if body and isinstance(body[0], ast.Expr) and isinstance(body[0].value, ast.Constant) and isinstance(body[0].value.value, str):
        body = body[1:]
    for n in ast.walk(f):
        if isinstance(n, (ast.While, ast.Try, ast.With, ast.Raise, ast.Lambda, ast.NamedExpr, ast.Global, ast.Nonlocal, ast.Delete, ast.Assert,
                          ast.Yield, ast.YieldFrom, ast.Await, ast.FunctionDef, ast.ClassDef, ast.Starred)) and n is not f:
            fail(f"unsupported construct {type(n).__name__}", n)
    a = f.args
    pynames = [x.arg for x in a.args if x.arg != "self" or "self" in fn.penv]
    if a.kwonlyargs or a.posonlyargs:
        fail("parameter list form")
    for star in (a.vararg, a.kwarg):
        if star is not None:
            if not fn.star_ok:
                fail("parameter list form (* / **)")
            if any(isinstance(n, ast.Name) and n.id == star.arg for n in ast.walk(f)):
                fail(f"`{star.arg}` is used in the body")
    if sorted(pynames) != sorted(fn.penv):
        fail(f"parameters changed: {pynames} (expected {sorted(fn.penv)})")
    env = Env(fn)
    for p in pynames:
        env.vars[p] = fn.penv[p]
        env.params.add(p)
    term = tr_block(body, env, None)
    if fn.found != fn.loops:
        def shw(ls):
            return "; ".join(f"{kd} over ({', '.join(show(t) for t in ts)})" for kd, ts in ls) or "none"
        fail(f"the loops of the function ({shw(fn.found)}) are not the ones its equation is proved for ({shw(fn.loops)})")
    out = [f"Module Gen_{fn.name}.", f"(* {fn.file}: {(fn.cls + '.') if fn.cls else ''}{fn.func} *)",
           f"Definition f {fn.params} : res {paren(cty(fn.ret))} :=\n{term}.", f"End Gen_{fn.name}."]
    return "\n".join(out)


# =============================================================================================
# the functions and their vocabularies
# =============================================================================================
FILTER_PY = "evaluation/matching/objects_filter.py"
RESULT_PY = "evaluation/result/object_result.py"
THRESHOLD_PY = "common/threshold.py"
PASSFAIL_PY = "evaluation/result/perception_pass_fail_result.py"

# facts of the model's records (Model/Filter.v: Obj, Res)
ATTRS = {
    (RES, "estimated_object"): ("r_est {}", OBJ),
    (RES, "ground_truth_object"): ("r_gt {}", opt(OBJ)),
    (RES, "is_label_correct"): ("r_label_ok {}", BOOL),
    (RES, "matching_label_policy"): ("tt", UNIT),
    (OBJ, "semantic_label"): ("o_label {}", LBL),
}
LABEL_METHODS = {
    (LBL, "is_fp"): CallSpec("lbl_is_fp {self}", [], BOOL),
    (LBL, "is_unknown"): CallSpec("lbl_is_unknown {self}", [], BOOL),
}
STATUS_CONSTS = {f"MatchingStatus.{m}": E(f"PassFail.{m}", STATUS, const=f"PassFail.{m}") for m in ("TP", "FP", "FN", "TN")}

OLN, OLS, OLQ, OLZ = opt(lst(NAT)), opt(lst(STR)), opt(lst(Q)), opt(lst(Z))
# _is_target_object(dynamic_object, is_gt, target_labels=None, ...) = Gen__is_target_object.f of Gen/Decisions.v on the Cfg record built
# from the keyword arguments (a parameter that is not passed takes the callee's default None; transforms: only `is None` matters)
IS_TARGET_PARAMS = [("dynamic_object", OBJ, None), ("is_gt", BOOL, None), ("target_labels", OLN, "None"), ("ignore_attributes", OLS, "None"),
                    ("max_x_position_list", OLQ, "None"), ("max_y_position_list", OLQ, "None"), ("max_distance_list", OLQ, "None"),
                    ("min_distance_list", OLQ, "None"), ("confidence_threshold_list", OLQ, "None"), ("min_point_numbers", OLZ, "None"),
                    ("target_uuids", OLS, "None"), ("transforms", FLAG, "false")]
IS_TARGET = CallSpec("Gen__is_target_object.f (mkCfg {target_labels} {ignore_attributes} {max_x_position_list} {max_y_position_list} "
                     "{max_distance_list} {min_distance_list} {min_point_numbers} {confidence_threshold_list} {target_uuids}) "
                     "{transforms} {is_gt} {dynamic_object}", IS_TARGET_PARAMS, BOOL, eff=True)
IS_TARGET_SIG = (FILTER_PY, None, "_is_target_object", [(p, None if d is None else "None") for p, _, d in IS_TARGET_PARAMS])

GLT_PARAMS = [("semantic_label", LBL, None), ("target_labels", OLN, None), ("threshold_list", OLQ, None)]
GLT = CallSpec("Gen_get_label_threshold.f {target_labels} {semantic_label} {threshold_list}", GLT_PARAMS, opt(Q), eff=True)
GLT_SIG = (THRESHOLD_PY, None, "get_label_threshold", [(p, None) for p, _, _ in GLT_PARAMS])

# the pass / fail model is the 3D one: the matching of a result is its plane distance (the fact r_score), whatever mode is passed
MODE_THR = [("matching_mode", UNIT, None), ("matching_threshold", opt(Q), None)]
RESULT_METHODS = {
    (RES, "is_result_correct"): CallSpec("Gen_is_result_correct_passfail.f {matching_threshold} {self}", MODE_THR, BOOL),
    (RES, "get_status"): CallSpec("Gen_get_status.f {matching_threshold} {self}", MODE_THR, tup(STATUS, opt(STATUS)), eff=True),
}
MODE_THR_SIG = [(p, None) for p, _, _ in MODE_THR]
# DynamicObjectWithPerceptionResult(estimate, None, policy): a result without ground truth (is_label_correct False, no matching score)
NEW_RESULT = CallSpec("mkRes {estimated_object} None false None",
                      [("estimated_object", OBJ, None), ("ground_truth_object", NONE, None), ("matching_label_policy", UNIT, "tt"),
                       ("transforms", FLAG, "false")], RES)
NEW_RESULT_SIG = (RESULT_PY, "DynamicObjectWithPerceptionResult", "__init__",
                  [("estimated_object", None), ("ground_truth_object", None), ("matching_label_policy", "MatchingLabelPolicy.DEFAULT"),
                   ("transforms", "None")])

# `g in objects`: list membership by DynamicObject.__eq__ (None is equal to nothing), abstracted as the key fact o_key
MEMBERS = {
    (OBJ, opt(OBJ)): "existsb (fun h_ => match h_ with Some h_ => Nat.eqb (o_key {x}) (o_key h_) | None => false end) {l}",
    (OBJ, OBJ): "existsb (fun h_ => Nat.eqb (o_key {x}) (o_key h_)) {l}",
}


def cfg_penv():
    return {"target_labels": ("c_targets c", OLN), "ignore_attributes": ("c_ignore c", OLS), "max_x_position_list": ("c_max_x c", OLQ),
            "max_y_position_list": ("c_max_y c", OLQ), "max_distance_list": ("c_max_dist c", OLQ), "min_distance_list": ("c_min_dist c", OLQ),
            "min_point_numbers": ("c_min_pts c", OLZ), "confidence_threshold_list": ("c_conf c", OLQ), "target_uuids": ("c_uuids c", OLS),
            "transforms": ("tf", FLAG)}


def specs():
    S = []
    # ---- 1. filtering ---------------------------------------------------------------------------------------------------
    S.append(Fn("filter_objects", FILTER_PY, "filter_objects", "(c : Cfg) (tf is_gt : bool) (objects : list Obj)",
                dict(cfg_penv(), objects=("objects", lst(OBJ)), is_gt=("is_gt", BOOL)), lst(OBJ),
                attrs=ATTRS, methods=LABEL_METHODS, funcs={"_is_target_object": IS_TARGET}, sigs=[IS_TARGET_SIG],
                loops=[("list", (lst(OBJ),))], needs_decisions=("_is_target_object",), star_ok=True))
    S.append(Fn("filter_object_results", FILTER_PY, "filter_object_results", "(c : Cfg) (tf : bool) (object_results : list Res)",
                dict(cfg_penv(), object_results=("object_results", lst(RES))), lst(RES),
                attrs=ATTRS, methods=LABEL_METHODS, funcs={"_is_target_object": IS_TARGET}, sigs=[IS_TARGET_SIG],
                loops=[("list", (lst(RES),))], needs_decisions=("_is_target_object",), star_ok=True))
    # ---- 2. pass / fail of a frame ---------------------------------------------------------------------------------------
    S.append(Fn("get_status", RESULT_PY, "get_status", "(thr : option Q) (r : Res)",
                {"self": ("r", RES), "matching_mode": ("tt", UNIT), "matching_threshold": ("thr", opt(Q))}, tup(STATUS, opt(STATUS)),
                cls="DynamicObjectWithPerceptionResult", attrs=ATTRS, methods={**LABEL_METHODS, **RESULT_METHODS}, consts=STATUS_CONSTS,
                sigs=[(RESULT_PY, "DynamicObjectWithPerceptionResult", "is_result_correct", MODE_THR_SIG)],
                needs_decisions=("is_result_correct_passfail",)))
    pf_penv = {"target_labels": ("pf_targets pf", OLN), "matching_mode": ("tt", UNIT), "matching_threshold_list": ("pf_thresholds pf", OLQ)}
    pf_sigs = [GLT_SIG, (RESULT_PY, "DynamicObjectWithPerceptionResult", "get_status", MODE_THR_SIG)]
    S.append(Fn("get_positive_objects", FILTER_PY, "get_positive_objects", "(pf : PF) (object_results : list Res)",
                dict(pf_penv, object_results=("object_results", lst(RES))), tup(lst(RES), lst(RES)),
                attrs=ATTRS, methods={**LABEL_METHODS, **RESULT_METHODS}, consts=STATUS_CONSTS,
                funcs={"get_label_threshold": GLT, "DynamicObjectWithPerceptionResult": NEW_RESULT}, sigs=pf_sigs + [NEW_RESULT_SIG],
                loops=[("list", (lst(RES), lst(RES)))], needs=("get_status",), needs_decisions=("get_label_threshold",)))
    OO = lst(opt(OBJ))
    S.append(Fn("get_negative_objects", FILTER_PY, "get_negative_objects", "(pf : PF) (ground_truth_objects : list Obj) (object_results : list Res)",
                dict(pf_penv, object_results=("object_results", lst(RES)), ground_truth_objects=("ground_truth_objects", lst(OBJ))),
                tup(OO, OO), attrs=ATTRS, methods={**LABEL_METHODS, **RESULT_METHODS}, consts=STATUS_CONSTS,
                funcs={"get_label_threshold": GLT}, sigs=pf_sigs, members=MEMBERS,
                # the first loop appends `object_result.ground_truth_object` (an Optional) to these lists: lists of options
                local_types={"tn_objects": OO, "fn_objects": OO, "non_candidates": OO},
                loops=[("list", (OO, OO, OO)), ("list", (OO, OO))], needs=("get_status",), needs_decisions=("get_label_threshold",)))
    # ---- 3. PassFailResult ---------------------------------------------------------------------------------------------------
    # self.frame_pass_fail_config = the model's PF record; the model is the 3D one: evaluation_task.is_2d() is False and the only matching
    # mode the equations cover is PLANEDISTANCE (another mode handed to the callees is not translated)
    SELF, PFC, TASK, PLANE = coqt("unit"), coqt("PF"), coqt("unit"), ("only", "MatchingMode.PLANEDISTANCE")
    pfr_attrs = dict(ATTRS)
    pfr_attrs.update({(SELF, "frame_pass_fail_config"): ("pf", PFC), (PFC, "target_labels"): ("pf_targets {}", OLN),
                      (PFC, "matching_threshold_list"): ("pf_thresholds {}", OLQ), (PFC, "evaluation_task"): ("tt", ("coq", "task"))})
    pfr_methods = {(("coq", "task"), "is_2d"): CallSpec("false", [], BOOL)}
    MODE = ("coq", "mode")
    pfr_consts = {f"MatchingMode.{m}": E("tt", MODE, const=f"MatchingMode.{m}") for m in ("PLANEDISTANCE", "IOU2D", "CENTERDISTANCE", "IOU3D")}
    LR = lst(RES)
    GET_POSITIVE = CallSpec("Gen_get_positive_objects.f (mkPF {target_labels} {matching_threshold_list}) {object_results}",
                            [("object_results", LR, None), ("target_labels", OLN, None), ("matching_mode", PLANE, None),
                             ("matching_threshold_list", OLQ, "None")], tup(LR, LR), eff=True)
    GET_POSITIVE_SIG = (FILTER_PY, None, "get_positive_objects", [("object_results", None), ("target_labels", None), ("matching_mode", "None"),
                                                                  ("matching_threshold_list", "None")])
    S.append(Fn("PassFailResult_get_positive_object_results", PASSFAIL_PY, "__get_positive_object_results", "(pf : PF) (object_results : list Res)",
                {"self": ("tt", SELF), "object_results": ("object_results", LR)}, tup(LR, LR), cls="PassFailResult",
                attrs=pfr_attrs, methods=pfr_methods, consts=pfr_consts,
                funcs={"get_positive_objects": GET_POSITIVE}, sigs=[GET_POSITIVE_SIG],
                needs=("get_positive_objects",)))
    S.append(Fn("PassFailResult_evaluate", PASSFAIL_PY, "evaluate", "(pf : PF) (object_results : list Res) (ground_truth_objects : list Obj)",
                {"self": ("tt", SELF), "object_results": ("object_results", LR), "ground_truth_objects": ("ground_truth_objects", lst(OBJ))},
                tup(LR, LR, OO, OO), cls="PassFailResult", attrs=pfr_attrs, methods=pfr_methods, consts=pfr_consts,
                funcs={"self.__get_positive_object_results": CallSpec("Gen_PassFailResult_get_positive_object_results.f pf {object_results}",
                                                                      [("object_results", LR, None)], tup(LR, LR), eff=True),
                       "get_positive_objects": GET_POSITIVE,
                       "get_negative_objects": CallSpec(
                           "Gen_get_negative_objects.f (mkPF {target_labels} {matching_threshold_list}) {ground_truth_objects} {object_results}",
                           [("ground_truth_objects", lst(OBJ), None), ("object_results", LR, None), ("target_labels", OLN, None),
                            ("matching_mode", PLANE, None), ("matching_threshold_list", OLQ, "None")], tup(OO, OO), eff=True)},
                sigs=[(FILTER_PY, None, "get_negative_objects", [("ground_truth_objects", None), ("object_results", None), ("target_labels", None),
                                                                 ("matching_mode", "None"), ("matching_threshold_list", "None")]),
                      (PASSFAIL_PY, "PassFailResult", "__get_positive_object_results", [("object_results", None)]), GET_POSITIVE_SIG],
                out_fields=[("tp_object_results", LR), ("fp_object_results", LR), ("tn_objects", OO), ("fn_objects", OO)],
                needs=("PassFailResult_get_positive_object_results", "get_negative_objects")))
    # get_num_success / get_num_fail read the four lists of the evaluated frame (the model's Frame record)
    FRAME = coqt("Frame")
    num_attrs = {(FRAME, "tp_object_results"): ("f_tp {}", LR), (FRAME, "fp_object_results"): ("f_fp {}", LR),
                 (FRAME, "tn_objects"): ("f_tn {}", lst(OBJ)), (FRAME, "fn_objects"): ("f_fn {}", lst(OBJ))}
    for nm in ("get_num_success", "get_num_fail"):
        S.append(Fn(f"PassFailResult_{nm}", PASSFAIL_PY, nm, "(fr : Frame)", {"self": ("fr", FRAME)}, NAT, cls="PassFailResult", attrs=num_attrs))
    return S


HEADER = """(* GENERATED by translator/loops_passfail.py from the Python source of /repo on every run -- do not edit.
   One module per function of the frame bookkeeping (filtering, pass / fail split); `f` = its body in the error monad Filter.res.
   A `for` loop is a fold_left over the iterated list with the tuple of the locals it changes as state; the decision functions it
   calls are the generated ones of Gen/Decisions.v.  Props/GenTiePassFail.v proves each `f` equal to the hand-written model. *)
From Coq Require Import List Bool ZArith Arith.
From PE Require Import Base.QUtil.
From PE Require Model.Filter Model.PassFail.
From PE Require Gen.Decisions.
Import Gen.Decisions.
Import ListNotations.
Import Filter.
Import PassFail.
Open Scope Q_scope.
"""


def generate(repo):
    """-> (text, {function: why-not-translated})"""
    trees, out, bad, done = {}, [HEADER], {}, []
    try:
        _, dec_bad = decisions.generate(repo)
    except Exception as e:  # noqa: BLE001
        dec_bad = None
        dec_err = f"{type(e).__name__}: {e}"
    for fn in specs():
        try:
            if dec_bad is None and fn.needs_decisions:
                fail("Gen/Decisions.v could not be generated: " + dec_err)
            missing = [n for n in fn.needs if n not in done] + [n + " (Gen/Decisions.v)" for n in fn.needs_decisions if n in (dec_bad or {})]
            if missing:
                fail("depends on " + ", ".join(missing) + " (not translated)")
            txt = translate_function(fn, repo, trees)
        except (TranslatorError, SyntaxError, OSError, RecursionError) as e:
            bad[fn.name] = f"{type(e).__name__}: {e}" if not isinstance(e, TranslatorError) else str(e)
            out.append(f"(* {fn.name}: not translated: {bad[fn.name].replace('*)', '* )').replace('(*', '( *')} *)\n")
            continue
        except Exception as e:  # noqa: BLE001  -- a defect of the translator itself must not look like a translation
            bad[fn.name] = f"internal error {type(e).__name__}: {e}"
            out.append(f"(* {fn.name}: not translated: {bad[fn.name].replace('*)', '* )').replace('(*', '( *')} *)\n")
            continue
        done.append(fn.name)
        out.append(txt + "\n")
    out.append("From Coq Require Import String.\nOpen Scope string_scope.")
    out.append("Definition translated : list string := [" + "; ".join(coq_str(n) for n in done) + "].")
    return "\n".join(out) + "\n", bad


def regenerate(repo, outdir):
    """Write <outdir>/loops_passfail.v (only when the content changes).  {"loops_passfail.v": None} when every function was translated,
    else {"loops_passfail.v": "partial: f1: not translated: why; ..."}."""
    os.makedirs(outdir, exist_ok=True)
    txt, bad = generate(repo)
    fname = MODNAME + ".v"
    path = os.path.join(outdir, fname)
    old = None
    if os.path.exists(path):
        with open(path) as fh:
            old = fh.read()
    if old != txt:
        with open(path, "w") as fh:
            fh.write(txt)
    if not bad:
        return {fname: None}
    return {fname: "partial: " + "; ".join(f"{k}: not translated: {v}" for k, v in bad.items())}


if __name__ == "__main__":
    repo_ = sys.argv[1] if len(sys.argv) > 1 else "/repo"
    outdir_ = sys.argv[2] if len(sys.argv) > 2 else os.path.join(os.path.dirname(os.path.abspath(__file__)), "..", "coq", "theories", "Gen")
    try:
        st = regenerate(repo_, outdir_)
    except OSError as e_:
        print(f"{MODNAME}.v: could not be written: {e_}")
        sys.exit(1)
    for k_, v_ in st.items():
        print(f"{k_}: {'ok' if v_ is None else v_}")
    sys.exit(0)
