#!/usr/bin/env python3
"""Translator for CONFIGURATION ACCEPTANCE of perception_eval (property C15, part 2): Python `ast` -> Gallina
(Gen/decisions_config.v), a further layer of the redundant tie.

Targets
  config/_evaluation_config_base.py        _EvaluationConfigBase._check_tasks
  config/perception_evaluation_config.py   PerceptionEvaluationConfig._extract_label_params, ._extract_params
  common/label.py                          set_target_lists
  evaluation/result/perception_frame_config.py   CriticalObjectFilterConfig.__init__, PerceptionPassFailConfig.__init__
  config/sensing_evaluation_config.py      SensingEvaluationConfig._extract_label_params, ._extract_params
Props/GenTieConfig.v proves every generated definition EQUAL, for all inputs, to the corresponding slice of the hand model
Model/Config.v (`accept`, `critical_accept`, `passfail_accept`), error class for error class.

The expression / statement translator is the one of decisions_threshold.py (dynamically typed values over Model/PyVal.pyval in the
error monad `xres`, `raise` = the class, `if` joins, `None not in (..)`, comprehensions, inlined helpers, fail closed per function).  It
is used through a PRIVATE instance of that module (loaded a second time under another name; the instance the threshold layer uses is
untouched) to which the forms of the configuration code are added:

  dicts           the configuration dictionary is a `pydict` = list (string * pyval), insertion ordered, FIRST entry of a key wins
                  (the fixed prelude of the generated file): `d.get("k")` -> dict_get d "k" NoneV, `d.get("k", x)` -> dict_get d "k" x
                  (the default is evaluated first, as Python does), `d["k"]` -> dict_getitem d "k" : xres (KeyError), `"k" in d` ->
                  dict_mem d "k", `d.copy()` -> d (values are immutable here and NO mutation of a dict is translated: `d[k] = v`,
                  `.pop`, `.update`, `del` fail closed).  Keys must be string literals.
  dict displays   `{"k": e, ..}` -> an `odict` = list (string * dval): values are dval = DPy pyval | DLabels (list of label keys) |
                  DMember (enum member key), entries in source order, values evaluated left to right
  tuples          `return a, b` of non-pyval components -> a Coq pair
  self / objects  `self` and `evaluator_config` are records of the attributes the function may READ (declared per function below):
                  self.evaluation_task -> an EvaluationTask member KEY (string), self.label_converter -> (label_type: the member keys
                  of its label enum, convert_name: string -> label key), self.support_tasks -> list of str.  Each read attribute is
                  a parameter of the generated function.  An attribute the function ASSIGNS (`self.x = e`) is a local; the
                  generated function returns (returned value, assigned attributes in the order of the specification) -- the
                  set of assigned attributes must be exactly the declared one.
  vocabulary      (leaves, as in decisions.py) task.is_2d() -> negb (mem_str task EvaluationTask_is_3d) and is_3d() (Gen/Enums.v,
                  regenerated from the source; the translator checks that is_2d is `not self.is_3d()`), `task == EvaluationTask.X` ->
                  String.eqb on keys, `X in self.support_tasks` -> py_in_strs, converter.convert_name(v) -> py_convert_name
                  (AttributeError on a non-str: `name.lower()`), `for l in converter.label_type`, MatchingLabelPolicy.from_str(v) ->
                  py_policy_from_str (Gen/Enums.v parser; AttributeError on a non-str: `.upper()`, AssertionError on a miss),
                  set_task(v) -> py_set_task (ValueError on a miss), set_thresholds / check_thresholds -> the definitions
                  TRANSLATED by decisions_threshold.py (Gen/decisions_threshold.v; the functions that call them fail closed when
                  that layer did not translate them); every imported name is checked against the `from .. import ..` of the file
  signatures      for the two constructors a second definition `call` binds a dictionary of keyword arguments to the
                  parameters: a parameter without default that is absent -> TypeError, an unknown keyword -> TypeError, the
                  defaults are read from the source (constants only).
Only `ast` is used; the library is never imported."""
import ast
import copy
import importlib.util
import os
import sys
from fractions import Fraction

HERE = os.path.dirname(os.path.abspath(__file__))
sys.path.insert(0, HERE)
from py_to_coq import PKG, TranslatorError, coq_str  # noqa: E402
from decisions import fail, paren, find_function  # noqa: E402

MODNAME = "decisions_config"          # harness/lib/core.py regenerate_gen: translator/<modname>.py writes Gen/<modname>.v
OUT_NAME = MODNAME + ".v"


def _private(name):
    spec = importlib.util.spec_from_file_location("_decisions_config_private_" + name, os.path.join(HERE, name + ".py"))
    m = importlib.util.module_from_spec(spec)
    spec.loader.exec_module(m)
    return m


P = _private("decisions_threshold")
DYN, NAT, BOOL, BOT, UNIT = P.DYN, P.NAT, P.BOOL, P.BOT, P.UNIT
E, lst, is_list, Env, Ctx, Frame, binder = P.E, P.lst, P.is_list, P.Env, P.Ctx, P.Frame, P.binder
DICT, ODICT, STR, FUNSS = "dict", "odict", "str", "fun_str_str"


def member(enum):
    return ("member", enum)


def is_member(t):
    return isinstance(t, tuple) and t[0] == "member"


def obj(name):
    return ("obj", name)


def is_obj(t):
    return isinstance(t, tuple) and t[0] == "obj"


def prod(*ts):
    return ("prod", tuple(ts))


def is_prod(t):
    return isinstance(t, tuple) and t[0] == "prod"


TASK, POLICY, LABEL = member("EvaluationTask"), member("MatchingLabelPolicy"), member("LabelType")
LABELS = lst(LABEL)
# the attributes of the objects a function may read (in this order they become parameters of the generated function)
OBJ = {
    "LabelConverter": [("label_type", LABELS), ("convert_name", FUNSS)],
    "Config": [("evaluation_task", TASK), ("label_converter", obj("LabelConverter"))],
    "ConfigBase": [("support_tasks", lst(STR))],
}
# enum classes whose members may be named: class -> (module it must be imported from (any suffix), member type)
ENUMS = {"EvaluationTask": ("perception_eval.common.evaluation_task", TASK),
         "MatchingLabelPolicy": ("perception_eval.evaluation.matching", POLICY)}

_orig = {n: getattr(P, n) for n in ("coq_ty", "inj", "coerce_term", "tr", "tr_call", "cmp1", "message_effects", "join", "truthy")}


# =============================================================================================
# types
# =============================================================================================
def coq_ty(t):
    if t == DICT:
        return "pydict"
    if t == ODICT:
        return "odict"
    if t == STR or is_member(t):
        return "string"
    if t == FUNSS:
        return "string -> string"
    if is_prod(t):
        return "(" + " * ".join(paren(coq_ty(x)) for x in t[1]) + ")"
    if is_list(t):
        return f"list {paren(coq_ty(t[1]))}"
    if is_obj(t):
        fail(f"an object of class {t[1]} is used as a value")
    return _orig["coq_ty"](t)


def inj(term, ty, ctx, node=None):
    if ty == STR:
        return f"Str {paren(term)}"
    if ty in (DICT, ODICT, FUNSS) or is_member(ty) or is_obj(ty) or is_prod(ty):
        fail(f"a {show(ty)} cannot be used as a Python value of unknown type", node)
    return _orig["inj"](term, ty, ctx, node)


def show(t):
    if is_member(t):
        return f"member of {t[1]}"
    if is_obj(t):
        return f"object of class {t[1]}"
    if is_prod(t):
        return "tuple (" + ", ".join(show(x) for x in t[1]) + ")"
    if is_list(t):
        return f"list of {show(t[1])}"
    return str(t)


def join(a, b):
    special = lambda t: t in (DICT, ODICT, FUNSS) or is_member(t) or is_obj(t) or is_prod(t)  # noqa: E731
    if a != b and a is not None and b is not None and a != BOT and b != BOT and (special(a) or special(b)):
        fail(f"a {show(a)} and a {show(b)} meet on two paths")
    return _orig["join"](a, b)


def to_dval(e, ctx, node):
    """a value stored in a dict display -> E of Coq type dval"""
    def k(t):
        ty = e.ty
        if ty == LABELS:
            return E(f"DLabels {paren(t)}", "dval")
        if is_member(ty):
            return E(f"DMember {paren(t)}", "dval")
        return E(f"DPy {paren(inj(t, ty, ctx, node))}", "dval")
    return P.bind(e, ctx, k)


def flatten(prefix, ty):
    """the Coq parameters of a Python parameter / attribute"""
    if is_obj(ty):
        out = []
        for a, t in OBJ[ty[1]]:
            out += flatten(f"{prefix}_{a}", t)
        return out
    return [(prefix, ty)]


# =============================================================================================
# expressions
# =============================================================================================
def const_key(node, what):
    if not (isinstance(node, ast.Constant) and isinstance(node.value, str)):
        fail(f"{what}: the key is not a string literal", node)
    return coq_str(node.value)


def check_import(ctx, name, module, node):
    """`name` is bound at module level by `from <..module..> import name` and by nothing else"""
    hits = 0
    for n in ctx.tree.body:
        if isinstance(n, ast.ImportFrom) and any(a.name == name and a.asname in (None, name) for a in n.names):
            mod = ("." * n.level) + (n.module or "")
            if not (mod == module or module.startswith(mod + ".") or mod.startswith(module + ".")):
                fail(f"`{name}` is imported from `{mod}`, not from `{module}`", node)
            hits += 1
        elif isinstance(n, (ast.FunctionDef, ast.ClassDef)) and n.name == name:
            fail(f"`{name}` is redefined in the module", node)
        elif isinstance(n, (ast.Assign, ast.AnnAssign, ast.Import)):
            for m in ast.walk(n):
                if (isinstance(m, ast.Name) and isinstance(m.ctx, ast.Store) and m.id == name) or (isinstance(m, ast.alias) and (m.asname or m.name) == name):
                    fail(f"`{name}` is rebound in the module", node)
    if hits != 1:
        fail(f"`{name}` is not imported from `{module}`", node)


def tr_attribute(node, env):
    ctx = env.ctx
    v = node.value
    if isinstance(v, ast.Name) and v.id in ENUMS and v.id not in env.vars:
        mod, ty = ENUMS[v.id]
        check_import(ctx, v.id, mod, node)
        if not node.attr.isupper():
            fail(f"`{v.id}.{node.attr}` is not a member", node)
        return E(coq_str(node.attr), ty, const=("member", node.attr))
    base = tr(v, env)
    if is_obj(base.ty) and not base.eff:
        for a, t in OBJ[base.ty[1]]:
            if a == node.attr:
                return E(f"{base.term}_{a}", t)
        fail(f"attribute `{node.attr}` of a {base.ty[1]} is not in the vocabulary", node)
    fail(f"attribute `{ast.unparse(node)[:50]}`", node)


def tr(node, env):
    ctx = env.ctx
    if isinstance(node, ast.Attribute):
        return tr_attribute(node, env)
    if isinstance(node, ast.Constant) and isinstance(node.value, float):
        fr = Fraction(node.value)
        if fr < 0:
            fail("negative float constant", node)
        return E(f"Num ({fr.numerator} # {fr.denominator})", DYN, const=("float", node.value))
    if isinstance(node, ast.Dict):
        if any(k is None for k in node.keys):
            fail("`**` inside a dict display", node)
        keys = [const_key(k, "dict display") for k in node.keys]
        if len(set(keys)) != len(keys):
            fail("a dict display with a repeated key", node)
        vals = [to_dval(tr(x, env), ctx, node) for x in node.values]
        return P.seq(vals, ctx, lambda ts: E("[" + "; ".join(f"({k}, {t})" for k, t in zip(keys, ts)) + "]", ODICT))
    if isinstance(node, ast.Tuple):
        es = [tr(x, env) for x in node.elts]
        if all(e.ty in (DYN, NAT, BOOL, STR) or (is_list(e.ty) and e.ty[1] in (DYN, BOT)) for e in es):
            es = [P.coerce(e, DYN, ctx, node) for e in es]
            return P.seq(es, ctx, lambda ts: E("Tuple [" + "; ".join(ts) + "]", DYN))
        if len(es) < 2:
            fail("a 1-tuple of non-Python values", node)
        return P.seq(es, ctx, lambda ts: E("(" + ", ".join(ts) + ")", prod(*[e.ty for e in es])))
    if isinstance(node, ast.Subscript):
        a = P.tr_noescape(node.value, env)
        if a.ty == DICT:
            k = const_key(node.slice, "subscript of a dict")
            return P.bind(a, ctx, lambda t: E(f"dict_getitem {paren(t)} {k}", DYN, True))
        if a.ty == ODICT:
            fail("subscript of a dict built in the function", node)
    return _orig["tr"](node, env)


def call_args(node, names, defaults=None):
    """positional / keyword arguments against parameter names -> [ast] in parameter order (constants as defaults)"""
    defaults = defaults or {}
    if any(isinstance(x, ast.Starred) for x in node.args) or any(k.arg is None for k in node.keywords) or len(node.args) > len(names):
        fail("starred / too many arguments", node)
    got = dict(zip(names, node.args))
    for kw in node.keywords:
        if kw.arg not in names or kw.arg in got:
            fail(f"bad keyword argument `{kw.arg}`", node)
        got[kw.arg] = kw.value
    for n in names:
        if n not in got:
            if n not in defaults:
                fail(f"missing argument `{n}`", node)
            got[n] = defaults[n]
    if node.keywords and [k.arg for k in node.keywords] != [n for n in names if n in [k.arg for k in node.keywords]]:
        fail("keyword arguments out of parameter order", node)
    return [got[n] for n in names]


# imported functions: name -> (module, parameter names, parameter types, result type, Coq function or None (translated here))
IMPORTED = {
    "set_thresholds": ("perception_eval.common.threshold", ["thresholds", "target_objects_num", "nest"], [DYN, NAT, BOOL], DYN, "Gen_set_thresholds.f"),
    "check_thresholds": ("perception_eval.common.threshold", ["thresholds", "num_elements"], [DYN, NAT], DYN, "Gen_check_thresholds.f"),
    "set_task": ("perception_eval.common.evaluation_task", ["task_name"], [DYN], TASK, "py_set_task"),
    "set_target_lists": ("perception_eval.common.label", ["target_labels", "label_converter"], [DYN, obj("LabelConverter")], LABELS, None),
}


def expand_arg(e, ty, ctx, node):
    """an argument of (declared) type ty -> list of E (objects are passed attribute by attribute)"""
    if is_obj(ty):
        if e.ty != ty or e.eff:
            fail(f"a {show(e.ty)} is passed where a {show(ty)} is needed", node)
        return [E(n, t) for n, t in flatten(e.term, ty)]
    return [P.coerce(e, ty, ctx, node)]


def tr_call(node, env):
    ctx = env.ctx
    f = node.func
    if isinstance(f, ast.Attribute):
        if isinstance(f.value, ast.Name) and f.value.id == "MatchingLabelPolicy" and f.attr == "from_str" and f.value.id not in env.vars:
            check_import(ctx, "MatchingLabelPolicy", ENUMS["MatchingLabelPolicy"][0], node)
            (a,) = call_args(node, ["name"])
            x = P.coerce(tr(a, env), DYN, ctx, node)
            return P.bind(x, ctx, lambda t: E(f"py_policy_from_str {paren(t)}", POLICY, True))
        recv = P.tr_noescape(f.value, env)
        if recv.ty == DICT:
            if f.attr == "copy" and not node.args and not node.keywords:
                return recv
            if f.attr == "get" and not node.keywords and len(node.args) in (1, 2):
                k = const_key(node.args[0], "dict.get")
                d = P.coerce(tr(node.args[1], env), DYN, ctx, node) if len(node.args) == 2 else E("NoneV", DYN)
                return P.seq([recv, d], ctx, lambda ts: E(f"dict_get {paren(ts[0])} {k} {paren(ts[1])}", DYN))
            fail(f"dict method `{f.attr}` (only .get and .copy are translated: nothing that mutates a dict)", node)
        if recv.ty == TASK and f.attr in ("is_2d", "is_3d") and not node.args and not node.keywords:
            ctx.uses_is_2d = True
            neg = f.attr == "is_2d"
            return P.bind(recv, ctx, lambda t: E((f"negb (mem_str {paren(t)} EvaluationTask_is_3d)" if neg else f"mem_str {paren(t)} EvaluationTask_is_3d"), BOOL))
        if is_obj(recv.ty) and f.attr == "convert_name":
            m = tr_attribute(f, env)
            if m.ty != FUNSS:
                fail(f"`{f.attr}` is not a method of the vocabulary", node)
            (a,) = call_args(node, ["name"])
            x = P.coerce(tr(a, env), DYN, ctx, node)
            return P.seq([m, x], ctx, lambda ts: E(f"py_convert_name {paren(ts[0])} {paren(ts[1])}", LABEL, True))
        fail(f"call of `{ast.unparse(f)[:50]}` on a {show(recv.ty)}", node)
    if isinstance(f, ast.Name) and f.id in IMPORTED and f.id not in env.vars and P.module_function(ctx, f.id) is None:
        mod, names, tys, rty, coqf = IMPORTED[f.id]
        check_import(ctx, f.id, mod, node)
        if coqf is None:
            if f.id not in ctx.done:
                fail(f"depends on {f.id} (not translated)", node)
            coqf = f"Gen_{f.id}.f"
        elif coqf.startswith("Gen_") and coqf[4:-2] not in ctx.threshold_done:
            fail(f"depends on {f.id}, which translator/decisions_threshold.py did not translate", node)
        args = []
        for a, ty in zip(call_args(node, names), tys):
            args += expand_arg(tr(a, env), ty, ctx, node)
        return P.seq(args, ctx, lambda ts: E(coqf + " " + " ".join(paren(t) for t in ts), rty, True))
    return _orig["tr_call"](node, env)


def cmp1(op, ln, rn, env, node):
    ctx = env.ctx
    if isinstance(op, (ast.In, ast.NotIn)) and not P.is_none_const(ln):
        neg = isinstance(op, ast.NotIn)
        r = P.tr_noescape(rn, env)
        if r.ty == DICT:
            k = const_key(ln, "`in` on a dict")
            return P.bind(r, ctx, lambda t: E((f"negb (dict_mem {paren(t)} {k})" if neg else f"dict_mem {paren(t)} {k}"), BOOL))
        if r.ty == lst(STR):
            x = P.coerce(tr(ln, env), DYN, ctx, node)
            return P.seq([x, r], ctx, lambda ts: E((f"negb (py_in_strs {paren(ts[0])} {paren(ts[1])})" if neg else f"py_in_strs {paren(ts[0])} {paren(ts[1])}"), BOOL))
        fail(f"`in` on a {show(r.ty)}", node)
    if isinstance(op, (ast.Eq, ast.NotEq)) and not P.is_none_const(ln) and not P.is_none_const(rn):
        a, b = P.tr_noescape(ln, env), P.tr_noescape(rn, env)
        if is_member(a.ty) or is_member(b.ty):
            if a.ty != b.ty:
                fail(f"comparison of a {show(a.ty)} with a {show(b.ty)}", node)
            neg = isinstance(op, ast.NotEq)
            return P.seq([a, b], ctx, lambda ts: E((f"negb (String.eqb {paren(ts[0])} {paren(ts[1])})" if neg else f"String.eqb {paren(ts[0])} {paren(ts[1])}"), BOOL))
    return _orig["cmp1"](op, ln, rn, env, node)


def truthy(e, ctx, node=None):
    if e.ty in (DICT, ODICT, FUNSS) or is_member(e.ty) or is_obj(e.ty) or is_prod(e.ty):
        fail(f"truthiness of a {show(e.ty)}", node)
    return _orig["truthy"](e, ctx, node)


class _PureAttrs(ast.NodeTransformer):
    """inside an exception message: an attribute of the vocabulary cannot raise and has no effect"""

    def __init__(self, env):
        self.env = env

    def visit_Attribute(self, node):
        e = tr_attribute(node, self.env)
        if e.eff:
            fail("an exception message that computes", node)
        return ast.copy_location(ast.Constant(value="<attr>"), node)


def message_effects(args, env):
    return _orig["message_effects"]([_PureAttrs(env).visit(copy.deepcopy(a)) for a in args], env)


for _n, _f in (("coq_ty", coq_ty), ("inj", inj), ("tr", tr), ("tr_call", tr_call), ("cmp1", cmp1), ("message_effects", message_effects),
               ("join", join), ("truthy", truthy)):
    setattr(P, _n, _f)


# =============================================================================================
# the functions
# =============================================================================================
class Fn:
    def __init__(self, name, file, cls, func, params, ret, self_ty=None, attrs=(), static=False, call=False):
        self.name, self.file, self.cls, self.func, self.params, self.ret = name, file, cls, func, params, ret
        self.self_ty, self.attrs, self.static, self.call = self_ty, list(attrs), static, call


BASE = "config/_evaluation_config_base.py"
PCFG = "config/perception_evaluation_config.py"
SCFG = "config/sensing_evaluation_config.py"
LABEL_PY = "common/label.py"
FRAME = "evaluation/result/perception_frame_config.py"
EVTASK = "common/evaluation_task.py"
CRIT_ATTRS = [("target_labels", LABELS), ("ignore_attributes", DYN), ("max_x_position_list", DYN), ("max_y_position_list", DYN),
              ("max_distance_list", DYN), ("min_distance_list", DYN), ("min_point_numbers", DYN), ("confidence_threshold_list", DYN),
              ("target_uuids", DYN), ("filtering_params", ODICT)]


def specs():
    return [
        Fn("set_target_lists", LABEL_PY, None, "set_target_lists", [("target_labels", DYN), ("label_converter", obj("LabelConverter"))], LABELS),
        Fn("check_tasks", BASE, "_EvaluationConfigBase", "_check_tasks", [("evaluation_config_dict", DICT)], TASK, self_ty=obj("ConfigBase")),
        Fn("extract_label_params", PCFG, "PerceptionEvaluationConfig", "_extract_label_params", [("evaluation_config_dict", DICT)], ODICT, static=True),
        Fn("extract_params", PCFG, "PerceptionEvaluationConfig", "_extract_params", [("evaluation_config_dict", DICT)], prod(ODICT, ODICT),
           self_ty=obj("Config"), attrs=[("target_labels", LABELS)]),
        Fn("critical_init", FRAME, "CriticalObjectFilterConfig", "__init__",
           [("evaluator_config", obj("Config")), ("target_labels", DYN), ("ignore_attributes", DYN), ("max_x_position_list", DYN),
            ("max_y_position_list", DYN), ("max_distance_list", DYN), ("min_distance_list", DYN), ("min_point_numbers", DYN),
            ("confidence_threshold_list", DYN), ("target_uuids", DYN)], None, self_ty=obj("Empty"), attrs=CRIT_ATTRS, call=True),
        Fn("passfail_init", FRAME, "PerceptionPassFailConfig", "__init__",
           [("evaluator_config", obj("Config")), ("target_labels", DYN), ("matching_threshold_list", DYN), ("confidence_threshold_list", DYN)], None,
           self_ty=obj("Empty"), attrs=[("evaluation_task", TASK), ("target_labels", LABELS), ("matching_threshold_list", DYN), ("confidence_threshold_list", DYN)],
           call=True),
        Fn("sensing_extract_label_params", SCFG, "SensingEvaluationConfig", "_extract_label_params", [("evaluation_config_dict", DICT)], ODICT, static=True),
        Fn("sensing_extract_params", SCFG, "SensingEvaluationConfig", "_extract_params", [("evaluation_config_dict", DICT)], prod(ODICT, ODICT),
           self_ty=obj("Empty")),
    ]


OBJ["Empty"] = []


class _SelfAttrs(ast.NodeTransformer):
    """`self.x` for an attribute the function assigns -> the local `self__x`"""

    def __init__(self, self_name, stored):
        self.self_name, self.stored = self_name, stored

    def visit_Attribute(self, node):
        self.generic_visit(node)
        if isinstance(node.value, ast.Name) and node.value.id == self.self_name and node.attr in self.stored:
            return ast.copy_location(ast.Name(id="self__" + node.attr, ctx=node.ctx), node)
        return node


def check_is_2d(trees, repo):
    """the vocabulary renders is_2d() as the complement of the generated is_3d table: check that the source says so"""
    tree = load(trees, repo, EVTASK)
    f = find_function(tree, "EvaluationTask", "is_2d")
    body = [s for s in f.body if not (isinstance(s, ast.Expr) and isinstance(s.value, ast.Constant))]
    if f.decorator_list or len(body) != 1 or not isinstance(body[0], ast.Return) or body[0].value is None or ast.unparse(body[0].value) != "not self.is_3d()":
        fail("EvaluationTask.is_2d is not `return not self.is_3d()`")


def check_support_tasks(tree):
    """self.support_tasks is the class attribute _support_tasks (Gen/ConfigTables.v has its value for the two subclasses)"""
    f = find_function(tree, "_EvaluationConfigBase", "support_tasks")
    body = [s for s in f.body if not (isinstance(s, ast.Expr) and isinstance(s.value, ast.Constant))]
    if [ast.unparse(d) for d in f.decorator_list] != ["property"] or len(body) != 1 or ast.unparse(body[0]) != "return self._support_tasks":
        fail("the property support_tasks is not `return self._support_tasks`")


def load(trees, repo, rel):
    if rel not in trees:
        path = os.path.join(repo, PKG, rel)
        with open(path) as fh:
            trees[rel] = ast.parse(fh.read(), filename=path)
    return trees[rel]


def translate_function(fn, trees, repo, done, threshold_done):
    tree = load(trees, repo, fn.file)
    f0 = find_function(tree, fn.cls, fn.func)
    decos = [ast.unparse(d) for d in f0.decorator_list]
    if decos != (["staticmethod"] if fn.static else []):
        fail(f"decorators {decos}")
    a = f0.args
    if a.vararg or a.kwarg or a.kwonlyargs or a.posonlyargs:
        fail("unsupported parameter kinds")
    names = [x.arg for x in a.args]
    self_name = None
    if fn.cls is not None and not fn.static:
        if not names:
            fail("a method without self")
        self_name, names = names[0], names[1:]
    if names != [p for p, _ in fn.params]:
        fail(f"parameters {names} differ from the specification {[p for p, _ in fn.params]}")
    for n in ast.walk(f0):
        if isinstance(n, (ast.While, ast.Try, ast.With, ast.Lambda, ast.NamedExpr, ast.Global, ast.Nonlocal, ast.Delete, ast.AugAssign, ast.Yield,
                          ast.YieldFrom, ast.Await, ast.Starred)):
            fail(f"unsupported construct {type(n).__name__}", n)
    f = copy.deepcopy(f0)
    if self_name is not None:
        stored = []
        for n in ast.walk(f):
            if isinstance(n, ast.Attribute) and isinstance(n.ctx, ast.Store) and isinstance(n.value, ast.Name) and n.value.id == self_name and n.attr not in stored:
                stored.append(n.attr)
            if isinstance(n, ast.Name) and n.id.startswith("self__"):
                fail(f"the name `{n.id}` is reserved", n)
            if isinstance(n, ast.Name) and n.id == self_name and isinstance(n.ctx, ast.Store):
                fail("`self` is rebound", n)
        if sorted(stored) != sorted(x for x, _ in fn.attrs):
            fail(f"the attributes assigned {sorted(stored)} differ from the specification {sorted(x for x, _ in fn.attrs)}")
        f = ast.fix_missing_locations(_SelfAttrs(self_name, set(stored)).visit(f))
    ctx = Ctx(fn, tree, done)
    ctx.threshold_done = threshold_done
    ctx.uses_is_2d = False
    env = Env(ctx)
    coq_params = []
    if self_name is not None:
        env.vars[self_name] = ("l_self", fn.self_ty)
        coq_params += flatten("l_self", fn.self_ty)
    for p, ty in fn.params:
        env.vars[p] = (binder(p), ty)
        coq_params += flatten(binder(p), ty)
    if fn.self_ty == obj("ConfigBase"):
        check_support_tasks(tree)
    rty = fn.ret
    out_tys = ([rty] if rty is not None else []) + [t for _, t in fn.attrs]

    def ret(e, en):
        parts = []
        if rty is not None:
            parts.append(P.coerce(e, rty, ctx, f))
        elif e.const != "None":
            fail("a constructor returns a value", f)
        for x, ty in fn.attrs:
            if "self__" + x not in en.vars:
                fail(f"self.{x} is not assigned on every path that returns")
            t, t_ty = en.vars["self__" + x]
            parts.append(P.coerce(E(t, t_ty), ty, ctx, f))
        return P.lift(P.seq(parts, ctx, lambda ts: E(ts[0] if len(ts) == 1 else "(" + ", ".join(ts) + ")", None)))
    res = P.tr_block(list(f.body), env, lambda en: ret(E("NoneV", DYN, const="None"), en), Frame(ret))
    if ctx.uses_is_2d:
        check_is_2d(trees, repo)
    if not out_tys:
        fail("a function without a result")
    oty = coq_ty(out_tys[0]) if len(out_tys) == 1 else "(" + " * ".join(paren(coq_ty(t)) for t in out_tys) + ")"
    ps = " ".join(f"({n} : {coq_ty(ty)})" for n, ty in coq_params)
    out = [f"Module Gen_{fn.name}.",
           f"(* {fn.file}: {(fn.cls + '.') if fn.cls else ''}{fn.func} *)",
           f"Definition f {ps} : xres {paren(oty)} :=\n  {res.term}."]
    if fn.call:
        out.append(call_wrapper(fn, f0, coq_params, oty))
    out.append(f"End Gen_{fn.name}.")
    return "\n".join(out)


def call_wrapper(fn, f0, coq_params, oty):
    """the SIGNATURE: keyword arguments (a pydict) bound to the parameters -- missing without default / unknown keyword: TypeError"""
    a = f0.args
    names = [x.arg for x in a.args][1:]
    defaults = dict(zip([x.arg for x in a.args][len(a.args) - len(a.defaults):], a.defaults))
    kw = [p for p, ty in fn.params if not is_obj(ty)]
    lines, args = [], []
    for p, ty in fn.params:
        if is_obj(ty):
            args += [n for n, _ in flatten(binder(p), ty)]
            continue
        if ty != DYN:
            fail(f"call wrapper: parameter `{p}` is not dynamically typed")
        if p in defaults:
            d = defaults[p]
            if not isinstance(d, ast.Constant) or not (d.value is None or d.value is True or d.value is False):
                fail(f"the default of `{p}` is not None / True / False", d)
            dv = "NoneV" if d.value is None else f"Bool {'true' if d.value else 'false'}"
            lines.append(f"  xbind (XOk (dict_get l_kwargs {coq_str(p)} {paren(dv)})) (fun {binder(p)} =>")
        else:
            lines.append(f"  xbind (dict_getitem_or l_kwargs {coq_str(p)} TypeError) (fun {binder(p)} =>")
        args.append(binder(p))
    ps = " ".join(f"({n} : {coq_ty(ty)})" for n, ty in coq_params if not any(n == binder(p) for p in kw))
    keys = "[" + "; ".join(coq_str(p) for p in kw) + "]"
    return (f"(* the signature of {fn.func}: the keyword arguments bound to ({', '.join(names)}) *)\n"
            f"Definition call {ps} (l_kwargs : pydict) : xres {paren(oty)} :=\n"
            f"  if negb (dict_keys_in l_kwargs {keys}) then XErr (Py TypeError) else\n"
            + "\n".join(lines) + f"\n  f {' '.join(args)}" + ")" * len(lines) + ".")


HEADER = r"""(* GENERATED by translator/decisions_config.py from the Python source of /repo on every run -- do not edit.
   Part 1 (fixed text): dictionaries with str keys, the values of the dictionaries a function builds, the vocabulary leaves.
   Part 2: one module per function, `f` = its body (`call` = its signature applied to keyword arguments).
   Props/GenTieConfig.v proves each `f` / `call` equal to the hand model Model/Config.v. *)
From Coq Require Import String Ascii List Bool Arith ZArith.
From PE Require Import Base.QUtil Base.StrUtil Model.PyVal Model.EnumParse Gen.Enums.
From PE Require Import Gen.decisions_threshold.
Import ListNotations.
Open Scope string_scope.
Open Scope list_scope.
Open Scope nat_scope.

(* ---- a dict with str keys: insertion ordered, the first entry of a key is the entry *)
Definition pydict := list (string * pyval).
Fixpoint dict_find (d : pydict) (k : string) : option pyval :=
  match d with
  | [] => None
  | (k', v) :: t => if String.eqb k k' then Some v else dict_find t k
  end.
Definition dict_get (d : pydict) (k : string) (dflt : pyval) : pyval :=          (* d.get(k, dflt) *)
  match dict_find d k with Some v => v | None => dflt end.
Definition dict_getitem (d : pydict) (k : string) : xres pyval :=                (* d[k] *)
  match dict_find d k with Some v => XOk v | None => XErr (Py KeyError) end.
Definition dict_mem (d : pydict) (k : string) : bool :=                          (* k in d *)
  match dict_find d k with Some _ => true | None => false end.
(* keyword arguments: a required parameter that is absent, a keyword that is not a parameter *)
Definition dict_getitem_or (d : pydict) (k : string) (e : pyerr) : xres pyval :=
  match dict_find d k with Some v => XOk v | None => XErr (Py e) end.
Definition dict_keys_in (d : pydict) (ks : list string) : bool := forallb (fun kv => mem_str (fst kv) ks) d.

(* ---- the values of a dict the function builds *)
Inductive dval := DPy (v : pyval) | DLabels (l : list string) | DMember (k : string).
Definition odict := list (string * dval).

(* ---- vocabulary leaves *)
Definition py_in_strs (v : pyval) (l : list string) : bool :=                    (* v in [str, ..] *)
  match v with Str s => mem_str s l | _ => false end.
Definition py_set_task (v : pyval) : xres string :=                              (* set_task(v): Gen/Enums.v *)
  match v with
  | Str s => match run_parser EvaluationTask_enum set_task s with Member k => XOk k | _ => XErr (Py ValueError) end
  | _ => XErr (Py ValueError)
  end.
Definition py_policy_from_str (v : pyval) : xres string :=                       (* MatchingLabelPolicy.from_str(v) *)
  match v with
  | Str s => match run_parser MatchingLabelPolicy_enum MatchingLabelPolicy_from_str s with
             | Member k => XOk k | _ => XErr (Py AssertionError) end
  | _ => XErr (Py AttributeError)
  end.
Definition py_convert_name (conv : string -> string) (v : pyval) : xres string :=   (* converter.convert_name(v): v.lower() *)
  match v with Str s => XOk (conv s) | _ => XErr (Py AttributeError) end.
"""


def generate(repo):
    trees, out, bad, done = {}, [HEADER], {}, []
    try:
        _, tbad = P.generate(repo)
        threshold_done = [f.name for f in P.specs() if f.name not in tbad]
    except Exception as e:  # noqa: BLE001
        threshold_done = []
        bad["<threshold layer>"] = f"{type(e).__name__}: {e}"
    for fn in specs():
        try:
            txt = translate_function(fn, trees, repo, done, threshold_done)
        except (TranslatorError, SyntaxError, OSError, RecursionError) as e:
            bad[fn.name] = f"{type(e).__name__}: {e}" if not isinstance(e, TranslatorError) else str(e)
        except Exception as e:  # noqa: BLE001 -- a defect of the translator itself must not look like a translation
            bad[fn.name] = f"internal error {type(e).__name__}: {e}"
        if fn.name in bad:
            out.append(f"(* {fn.name}: not translated: {bad[fn.name].replace('*)', '* )')} *)\n")
            continue
        done.append(fn.name)
        out.append(txt + "\n")
    out.append("Open Scope string_scope.")
    out.append("Definition translated : list string := [" + "; ".join(coq_str(n) for n in done) + "].")
    return "\n".join(out) + "\n", bad


def regenerate(repo, outdir):
    """Write <outdir>/decisions_config.v (only when the content changes).  {file: None} when every function was translated, else
    {file: "partial: f1: not translated: why; ..."}."""
    os.makedirs(outdir, exist_ok=True)
    txt, bad = generate(repo)
    path = os.path.join(outdir, OUT_NAME)
    old = None
    if os.path.exists(path):
        with open(path) as fh:
            old = fh.read()
    if old != txt:
        with open(path, "w") as fh:
            fh.write(txt)
    if not bad:
        return {OUT_NAME: None}
    return {OUT_NAME: "partial: " + "; ".join(f"{k}: not translated: {v}" for k, v in bad.items())}


if __name__ == "__main__":
    repo_ = sys.argv[1] if len(sys.argv) > 1 else "/repo"
    outdir_ = sys.argv[2] if len(sys.argv) > 2 else os.path.join(HERE, "..", "coq", "theories", "Gen")
    try:
        st = regenerate(repo_, outdir_)
    except OSError as e_:
        print(f"{OUT_NAME}: could not be written: {e_}")
        sys.exit(1)
    for k_, v_ in st.items():
        print(f"{k_}: {'ok' if v_ is None else v_}")
    sys.exit(0)
