#!/usr/bin/env python3
"""Translator for the SENSING layer of perception_eval (property C12): Python `ast` -> Gallina (Gen/loops_sensing.v).

Layer of the redundant tie for C12: the scale law (SensingFrameConfig.__init__ / get_scale_factor, util.math.get_bbox_scale), the
per-object result (DynamicObjectWithSensingResult.__init__) and the frame evaluation (SensingFrameResult.evaluate_frame,
_evaluate_pointcloud_for_detection, _evaluate_pointcloud_for_non_detection) are re-translated from the source on every run and
Props/GenTieSensing.v proves each generated definition EQUAL, for all inputs, to the hand model (Model/Sensing.v, Model/Winding.v).
NOT translated (a leaf): common.point.crop_pointcloud itself (the vectorised edge loop of the winding test) -- it stays tied to
Model/Winding.v by the correspondence of C12 only.

The statement translator is the one of loops_passfail.py with the forms loops_classif.py adds (ints in nat / Z, `raise`, `+=`), used
through a PRIVATE instance of loops_classif (which owns a private instance of loops_passfail), so that the instances the other layers
use are untouched.  What is translated is the CONTROL STRUCTURE (which list is iterated, the order of the tests, which list a result
is appended to, `return` / `continue`, which scale is computed from which distance and handed to which callee, which cloud is
cropped by which area and with which `inside`); the geometric primitives are LEAVES mapped to the model's functions by vocabulary:

  ground_truth_object.get_distance()                    Sensing.g_dist           (a fact of the object; only the call WITHOUT transforms)
  ground_truth_object.visibility                        Sensing.g_vis
  ground_truth_object.crop_pointcloud(pc, k, inside)    Winding.box_crop_idx     (a cropped cloud is named by the ROW INDICES it keeps)
  ground_truth_object.get_corners(k)                    Winding.box_corners
  crop_pointcloud(pc, area, inside)                     `crop` of the generated file's fixed text: RuntimeError unless area_ok, else
                                                        filter (Winding.selected area inside) -- clouds have >= 2 columns by representation
  self._get_nearest_point()                             not modelled (unit): it reads inside_pointcloud only

Forms added here:
  float literals   read as the DECIMAL they spell (0.01 = 1 # 100): rounding is not modelled anywhere in the Q models
  + - * on Q       exact
  self.<list>      a method that appends to lists owned by `self` and returns nothing takes the CURRENT lists as arguments and returns
                   the new ones (so calling it twice accumulates, as the code does); a bare `return` returns the lists as they are;
                   a call `self.m(...)` of such a method re-binds the lists
  constructors     the attributes a constructor assigns are locals; it returns the record of the attributes the model has
  for x in xs whose body re-assigns x:   for x_it_ in xs: x = x_it_; ...
  [f(e) for e in xs] as a value (no filter, pure element): map
Only `ast` is used; the library is never imported.
"""
import ast
import importlib.util
import os
import sys
from fractions import Fraction

HERE = os.path.dirname(os.path.abspath(__file__))
sys.path.insert(0, HERE)
from py_to_coq import TranslatorError, coq_str  # noqa: E402
from decisions import fail, paren, qlit, parse, find_function  # noqa: E402

MODNAME = "loops_sensing"          # harness/lib/core.py regenerate_gen: translator/<modname>.py writes Gen/<modname>.v


def _private(name):
    spec = importlib.util.spec_from_file_location("_loops_sensing_private_" + name, os.path.join(HERE, name + ".py"))
    m = importlib.util.module_from_spec(spec)
    spec.loader.exec_module(m)
    return m


C = _private("loops_classif")       # its own private loops_passfail is C.P
P = C.P
BOOL, NAT, Q, UNIT, NONE, NUM, ANYLIST, STR = P.BOOL, P.NAT, P.Q, P.UNIT, P.NONE, P.NUM, P.ANYLIST, P.STR
coqt, opt, lst, tup, is_opt, is_list, E, CallSpec, Fn, Env, lname, show = P.coqt, P.opt, P.lst, P.tup, P.is_opt, P.is_list, P.E, \
    P.CallSpec, P.Fn, P.Env, P.lname, P.show
ZT = "Z"
GT, CLOUD, ROWS, VERTEX, CORNERS, SRES, FC, VIS, SELF = coqt("(nat * Sensing.gt_object)"), coqt("(list Winding.point)"), \
    coqt("(list nat)"), coqt("Winding.vertex"), coqt("corners"), coqt("Sensing.sensing_result"), coqt("frame_config"), \
    coqt("Sensing.visibility"), coqt("unit")
SIZED = (CLOUD, ROWS, CORNERS)      # values with a len() that are not Python lists

_c = {n: getattr(C, n) for n in ("tr", "tr_block", "coerce")}


# =============================================================================================
# expressions
# =============================================================================================
def to_q(e, node):
    if e.ty == Q:
        return e.term
    if e.ty == NUM:
        return qlit(e.num)
    if e.ty in (NAT, ZT):
        return f"inject_Z {paren(C.to_z(e, node))}"
    fail(f"a {show(e.ty)} where a number is needed", node)


def arith(op, a, b, node, env, k):
    kinds = (NAT, ZT, NUM, Q)
    if a.ty not in kinds or b.ty not in kinds:
        fail(f"arithmetic on a {show(a.ty)} and a {show(b.ty)}", node)
    sym = {ast.Add: "+", ast.Sub: "-", ast.Mult: "*"}.get(type(op))
    if sym is None:
        fail(f"operator {type(op).__name__}", node)
    if a.ty == NUM and b.ty == NUM:
        v = {"+": a.num + b.num, "-": a.num - b.num, "*": a.num * b.num}[sym]
        return k(E(None, NUM, num=v, isint=a.isint and b.isint))

    def natlike(e):
        return e.ty == NAT or (e.ty == NUM and e.isint and e.num >= 0)
    if sym in "+*" and natlike(a) and natlike(b):
        return k(E(f"({paren(_c['coerce'](a, NAT, node))} {sym} {paren(_c['coerce'](b, NAT, node))})%nat", NAT))
    if C.is_intlike(a) and C.is_intlike(b):
        return k(E(f"({paren(C.to_z(a, node))} {sym} {paren(C.to_z(b, node))})%Z", ZT))
    return k(E(f"({paren(to_q(a, node))} {sym} {paren(to_q(b, node))})", Q))


def tr(node, env, k):
    fn = env.fn
    key = ast.unparse(node)
    if key in env.narrow or key in fn.consts or (isinstance(node, ast.Attribute) and key in env.vars):
        return _c["tr"](node, env, k)
    if isinstance(node, ast.Constant) and isinstance(node.value, float):
        c = node.value
        if c != c or c in (float("inf"), float("-inf")):
            fail("non-finite constant", node)
        return k(E(None, NUM, num=Fraction(repr(c)), isint=False))          # the decimal the literal spells
    if isinstance(node, ast.BinOp):
        return tr(node.left, env, lambda a: tr(node.right, env, lambda b: arith(node.op, a, b, node, env, k)))
    if isinstance(node, ast.Call) and isinstance(node.func, ast.Name) and node.func.id == "len" and node.func.id not in env.vars \
            and len(node.args) == 1 and not node.keywords:
        def with_x(x):
            if x.ty in SIZED:
                return k(E(f"length {paren(x.term)}", NAT))
            if is_list(x.ty) and x.ty != ANYLIST:
                return k(E(f"length {paren(x.term)}", NAT))
            fail(f"len() of a {show(x.ty)}", node)
        return tr(node.args[0], env, with_x)
    if isinstance(node, ast.ListComp):
        if len(node.generators) != 1 or node.generators[0].ifs or node.generators[0].is_async \
                or not isinstance(node.generators[0].target, ast.Name):
            fail("comprehension form", node)
        g = node.generators[0]
        if g.target.id in env.vars:
            fail(f"comprehension variable `{g.target.id}` shadows an existing name", node)

        def with_iter(l):
            if not is_list(l.ty) or l.ty == ANYLIST:
                fail("comprehension over something that is not a list", node)
            e1 = env.copy()
            e1.vars[g.target.id] = (lname(g.target.id), l.ty[1])
            P.drop_narrow(e1, g.target.id)
            c = C.pure(node.elt, e1, "an element of a comprehension used as a value")
            if c.ty in (NUM, NONE, ANYLIST):
                fail("the element type of the comprehension is not known", node)
            return k(E(f"map (fun {lname(g.target.id)} => {c.term}) {paren(l.term)}", lst(c.ty)))
        return tr(g.iter, env, with_iter)
    return _c["tr"](node, env, k)


# =============================================================================================
# statements
# =============================================================================================
def assigns_name(stmts, name):
    return any(isinstance(n, ast.Name) and isinstance(n.ctx, ast.Store) and n.id == name for s in stmts for n in ast.walk(s))


def tr_block(ss, env, k):
    if ss:
        s = ss[0]
        if isinstance(s, ast.For) and isinstance(s.target, ast.Name) and assigns_name(s.body, s.target.id) and not s.orelse:
            # the loop variable is re-assigned in the body: iterate a fresh name and bind the variable first
            it = s.target.id + "_it_"
            if it in env.vars or assigns_name(s.body, it):
                fail(f"`{it}` is in use", s)
            first = ast.Assign(targets=[ast.Name(id=s.target.id, ctx=ast.Store())], value=ast.Name(id=it, ctx=ast.Load()))
            loop = ast.For(target=ast.Name(id=it, ctx=ast.Store()), iter=s.iter, body=[first] + list(s.body), orelse=[])
            for n in (first, loop):
                ast.copy_location(n, s)
                ast.fix_missing_locations(n)
            return tr_block([loop] + list(ss[1:]), env, k)
        if isinstance(s, (ast.Assign, ast.AnnAssign)) and isinstance(getattr(s, "value", None), ast.ListComp) \
                and len(s.value.generators) == 1 and not s.value.generators[0].ifs:
            # name = [f(e) for e in xs] without a filter: a map (no loop of its own)
            targets = s.targets if isinstance(s, ast.Assign) else [s.target]
            if len(targets) == 1 and isinstance(targets[0], ast.Name):
                nme = targets[0].id

                def bound(e):
                    e1 = P.bind_local(env, nme, e.ty, s, made=True)
                    return f"let {lname(nme)} := {e.term} in\n{tr_block(list(ss[1:]), e1, k)}"
                return tr(s.value, env, bound)
    return _c["tr_block"](ss, env, k)


for _m in (P, C):
    setattr(_m, "tr", tr)
    setattr(_m, "tr_block", tr_block)
P.ANNOTATIONS = {}


# =============================================================================================
# one function
# =============================================================================================
class _SelfAttrs(ast.NodeTransformer):
    """self.x -> the local self_x, for the attributes the function owns"""

    def __init__(self, attrs):
        self.attrs = attrs

    def visit_Attribute(self, node):
        if isinstance(node.value, ast.Name) and node.value.id == "self" and node.attr in self.attrs:
            return ast.copy_location(ast.Name(id="self_" + node.attr, ctx=node.ctx), node)
        return self.generic_visit(node)


def no_attr_writes(body):
    for s in body:
        for n in ast.walk(s):
            if isinstance(n, ast.Attribute) and isinstance(n.ctx, (ast.Store, ast.Del)):
                fail(f"`{ast.unparse(n)}` is written", n)


def prepare_init(fn, body):
    """a constructor: the attributes it assigns are locals, it returns the record of the attributes the model has"""
    body = [_SelfAttrs(fn.own_attrs).visit(s) for s in body]
    no_attr_writes(body)
    for s in body:
        for n in ast.walk(s):
            if isinstance(n, ast.Return):
                fail("return in a constructor", n)
    ret = ast.Return(value=ast.Call(func=ast.Name(id="record_", ctx=ast.Load()),
                                    args=[ast.Name(id="self_" + a, ctx=ast.Load()) for a in fn.result_attrs], keywords=[]))
    body.append(ret)
    for s in body:
        ast.fix_missing_locations(s)
    return body


class _StateMethod(ast.NodeTransformer):
    """a method that returns nothing and appends to lists owned by self: `return` -> return (the lists); `self.m(...)` of another such
    method -> (the lists it changes) = self.m(..., the lists it changes)"""

    def __init__(self, fn):
        self.fn = fn

    def result(self, at):
        names = ["self_" + a for a, _ in self.fn.state]
        v = ast.Name(id=names[0], ctx=ast.Load()) if len(names) == 1 else \
            ast.Tuple(elts=[ast.Name(id=n, ctx=ast.Load()) for n in names], ctx=ast.Load())
        return ast.fix_missing_locations(ast.copy_location(ast.Return(value=v), at))

    def visit_Return(self, node):
        if node.value is not None and not (isinstance(node.value, ast.Constant) and node.value.value is None):
            fail("a method that returns nothing returns a value", node)
        return self.result(node)

    def visit_Expr(self, node):
        v = node.value
        if isinstance(v, ast.Call) and ast.unparse(v.func) in self.fn.implicit:
            outs = self.fn.implicit[ast.unparse(v.func)]
            for a in outs:
                if any(kw.arg == "self_" + a for kw in v.keywords):
                    fail(f"`self_{a}` passed to {ast.unparse(v.func)}", node)
            call = ast.Call(func=v.func, args=list(v.args),
                            keywords=list(v.keywords) + [ast.keyword(arg="self_" + a, value=ast.Name(id="self_" + a, ctx=ast.Load())) for a in outs])
            tg = ast.Name(id="self_" + outs[0], ctx=ast.Store()) if len(outs) == 1 else \
                ast.Tuple(elts=[ast.Name(id="self_" + a, ctx=ast.Store()) for a in outs], ctx=ast.Store())
            return ast.fix_missing_locations(ast.copy_location(ast.Assign(targets=[tg], value=call), node))
        return node

    def visit_FunctionDef(self, node):
        fail("nested function", node)


def prepare_state_method(fn, f, body):
    body = [_SelfAttrs([a for a, _ in fn.state]).visit(s) for s in body]
    no_attr_writes(body)
    tr_ = _StateMethod(fn)
    body = [tr_.visit(s) for s in body]
    body.append(tr_.result(f))
    return body


def translate_function(fn, repo, trees):
    def tree_of(rel):
        if rel not in trees:
            trees[rel] = parse(repo, rel)
        return trees[rel]

    f = find_function(tree_of(fn.file), fn.cls, fn.func)
    fn.tree_body = []
    fn.nested = {}
    for rel, cls, func, expected in fn.sigs:
        P.check_signature(tree_of(rel), cls, func, expected)
    fn.counter, fn.effects, fn.found, fn.inline_depth = 0, 0, [], 0
    body = list(f.body)
    if body and isinstance(body[0], ast.Expr) and isinstance(body[0].value, ast.Constant) and isinstance(body[0].value.value, str):
        body = body[1:]
    for st in body:
        for n in ast.walk(st):
            if isinstance(n, (ast.While, ast.Try, ast.With, ast.NamedExpr, ast.Global, ast.Nonlocal, ast.Delete, ast.Assert, ast.Lambda,
                              ast.Yield, ast.YieldFrom, ast.Await, ast.FunctionDef, ast.ClassDef, ast.Starred, ast.Break)):
                fail(f"unsupported construct {type(n).__name__}", n)
    a = f.args
    if a.kwonlyargs or a.posonlyargs or a.vararg or a.kwarg:
        fail("parameter list form")
    pynames = [x.arg for x in a.args if x.arg != "self" or "self" in fn.penv]
    if sorted(pynames) != sorted(fn.penv):
        fail(f"parameters changed: {pynames} (expected {sorted(fn.penv)})")
    defaults = [None] * (len(a.args) - len(a.defaults)) + [ast.unparse(d) for d in a.defaults]
    for x, d in zip(a.args, defaults):
        if fn.pdefaults.get(x.arg) != d:
            fail(f"the default of `{x.arg}` changed: {d} (the callers' vocabulary was written for {fn.pdefaults.get(x.arg)})")
    body = [ast.parse(ast.unparse(s)).body[0] for s in body]          # a private copy: the transformations below edit it in place
    if getattr(fn, "own_attrs", None):
        body = prepare_init(fn, body)
    if getattr(fn, "state", None):
        body = prepare_state_method(fn, f, body)
    env = Env(fn)
    for p in pynames:
        env.vars[p] = fn.penv[p]
        env.params.add(p)
    for at, ty in getattr(fn, "state", None) or []:
        env.vars["self_" + at] = (lname("self_" + at), ty)
        env.made.add("self_" + at)
    term = P.tr_block(body, env, None)
    if fn.found != fn.loops:
        def shw(ls):
            return "; ".join(f"{kd} over ({', '.join(show(t) for t in ts)})" for kd, ts in ls) or "none"
        fail(f"the loops of the function ({shw(fn.found)}) are not the ones its equation is proved for ({shw(fn.loops)})")
    out = [f"Module Gen_{fn.name}.", f"(* {fn.file}: {(fn.cls + '.') if fn.cls else ''}{fn.func} *)",
           f"Definition f {fn.params} : res {paren(P.cty(fn.ret))} :=\n{term}.", f"End Gen_{fn.name}."]
    return "\n".join(out)


# =============================================================================================
# the functions and their vocabularies
# =============================================================================================
CONFIG_PY = "evaluation/sensing/sensing_frame_config.py"
RESULT_PY = "evaluation/sensing/sensing_result.py"
FRAME_PY = "evaluation/sensing/sensing_frame_result.py"
MATH_PY = "util/math.py"
OBJECT_PY = "common/object.py"
POINT_PY = "common/point.py"

OLS = opt(lst(STR))
LR, LC, LGT = lst(SRES), lst(CLOUD), lst(GT)

FC_ATTRS = {
    (FC, "target_uuids"): ("fc_uuids {}", OLS),
    (FC, "box_scale_0m"): ("fc_s0 {}", Q),
    (FC, "box_scale_100m"): ("fc_s100 {}", Q),
    (FC, "min_points_threshold"): ("fc_min {}", ZT),
    (FC, "scale_slope_"): ("fc_slope {}", Q),
    (SELF, "sensing_frame_config"): ("fc", FC),
}
GT_ATTRS = {(GT, "visibility"): ("Sensing.g_vis (snd {})", opt(VIS))}
SRES_ATTRS = {(SRES, "is_occluded"): ("Sensing.r_occluded {}", BOOL), (SRES, "is_detected"): ("Sensing.r_detected {}", BOOL),
              (SRES, "inside_pointcloud_num"): ("Sensing.r_num {}", NAT)}
VIS_CONSTS = {f"Visibility.{m}": E(f"Sensing.V_{m}", VIS, const=f"Sensing.V_{m}") for m in ("FULL", "MOST", "PARTIAL", "NONE", "UNAVAILABLE")}

# the leaves (geometry): the model's functions
GET_DISTANCE = CallSpec("Sensing.g_dist (snd {self})", [("transforms", NONE, "tt")], Q)
GET_DISTANCE_SIG = (OBJECT_PY, "DynamicObject", "get_distance", [("transforms", "None")])
OBJ_CROP = CallSpec("Winding.box_crop_idx (Sensing.g_box (snd {self})) {bbox_scale} {inside} {pointcloud}",
                    [("pointcloud", CLOUD, None), ("bbox_scale", Q, "1"), ("inside", BOOL, "true")], ROWS)
OBJ_CROP_SIG = (OBJECT_PY, "DynamicObject", "crop_pointcloud", [("pointcloud", None), ("bbox_scale", "1.0"), ("inside", "True")])
GET_CORNERS = CallSpec("Winding.box_corners (Sensing.g_box (snd {self})) {scale}", [("scale", Q, "1")], CORNERS)
GET_CORNERS_SIG = (OBJECT_PY, "DynamicObject", "get_corners", [("scale", "1.0")])
TOLIST = CallSpec("{self}", [], lst(VERTEX))
CROP = CallSpec("crop {pointcloud} {area} {inside}", [("pointcloud", CLOUD, None), ("area", lst(VERTEX), None), ("inside", BOOL, "true")],
                CLOUD, eff=True)
CROP_SIG = (POINT_PY, None, "crop_pointcloud", [("pointcloud", None), ("area", None), ("inside", "True")])
TUPLE_OF_ROW = CallSpec("{iterable}", [("iterable", VERTEX, None)], VERTEX)          # tuple(e) of a row [x, y, z]

GET_SCALE = CallSpec("Gen_get_scale_factor.f {self} {distance}", [("distance", Q, None)], Q, eff=True)
GET_SCALE_SIG = (CONFIG_PY, "SensingFrameConfig", "get_scale_factor", [("distance", None)])
NEW_RESULT = CallSpec("Gen_DynamicObjectWithSensingResult___init__.f {ground_truth_object} {pointcloud} {scale_factor} {min_points_threshold}",
                      [("ground_truth_object", GT, None), ("pointcloud", CLOUD, None), ("scale_factor", Q, None),
                       ("min_points_threshold", ZT, None)], SRES, eff=True)
NEW_RESULT_SIG = (RESULT_PY, "DynamicObjectWithSensingResult", "__init__",
                  [("ground_truth_object", None), ("pointcloud", None), ("scale_factor", None), ("min_points_threshold", None)])

DET_STATE = [("detection_success_results", LR), ("detection_fail_results", LR), ("detection_warning_results", LR)]
NONDET_STATE = [("pointcloud_failed_non_detection", LC)]
DET_PARAMS = "(l_self_detection_success_results l_self_detection_fail_results l_self_detection_warning_results : list Sensing.sensing_result)"
NONDET_PARAMS = "(l_self_pointcloud_failed_non_detection : list (list Winding.point))"


def mk(name, file, func, params, penv, ret, pdefaults=None, **kw):
    extra = {k: kw.pop(k) for k in ("own_attrs", "result_attrs", "state", "implicit") if k in kw}
    fn = Fn(name, file, func, params, penv, ret, **kw)
    fn.pdefaults = pdefaults or {}
    fn.implicit = {}
    for k, v in extra.items():
        setattr(fn, k, v)
    return fn


def specs():
    S = []
    # ---- 1. the scale law ---------------------------------------------------------------------------------------------------------------
    S.append(mk("SensingFrameConfig___init__", CONFIG_PY, "__init__",
                "(target_uuids : option (list string)) (box_scale_0m box_scale_100m : Q) (min_points_threshold : Z)",
                {"self": ("tt", SELF), "target_uuids": ("target_uuids", OLS), "box_scale_0m": ("box_scale_0m", Q),
                 "box_scale_100m": ("box_scale_100m", Q), "min_points_threshold": ("min_points_threshold", ZT)}, FC,
                cls="SensingFrameConfig",
                funcs={"record_": CallSpec("mkFC {a} {b} {c} {d} {e}", [("a", OLS, None), ("b", Q, None), ("c", Q, None), ("d", ZT, None),
                                                                        ("e", Q, None)], FC)},
                own_attrs=("target_uuids", "box_scale_0m", "box_scale_100m", "min_points_threshold", "scale_slope_"),
                result_attrs=("target_uuids", "box_scale_0m", "box_scale_100m", "min_points_threshold", "scale_slope_")))
    S.append(mk("get_scale_factor", CONFIG_PY, "get_scale_factor", "(fc : frame_config) (distance : Q)",
                {"self": ("fc", FC), "distance": ("distance", Q)}, Q, cls="SensingFrameConfig", attrs=FC_ATTRS))
    S.append(mk("get_bbox_scale", MATH_PY, "get_bbox_scale", "(distance box_scale_0m box_scale_100m : Q)",
                {"distance": ("distance", Q), "box_scale_0m": ("box_scale_0m", Q), "box_scale_100m": ("box_scale_100m", Q)}, Q))
    # ---- 2. the result of one object ----------------------------------------------------------------------------------------------------
    S.append(mk("DynamicObjectWithSensingResult___init__", RESULT_PY, "__init__",
                "(ground_truth_object : nat * Sensing.gt_object) (pointcloud : list Winding.point) (scale_factor : Q) (min_points_threshold : Z)",
                {"self": ("tt", SELF), "ground_truth_object": ("ground_truth_object", GT), "pointcloud": ("pointcloud", CLOUD),
                 "scale_factor": ("scale_factor", Q), "min_points_threshold": ("min_points_threshold", ZT)}, SRES,
                cls="DynamicObjectWithSensingResult", attrs=GT_ATTRS, methods={(GT, "crop_pointcloud"): OBJ_CROP}, consts=VIS_CONSTS,
                funcs={"self._get_nearest_point": CallSpec("tt", [], UNIT),
                       "record_": CallSpec("Sensing.mkRes (fst {g}) {ins} {n} {d} {o}",
                                           [("g", GT, None), ("ins", ROWS, None), ("n", NAT, None), ("d", BOOL, None), ("o", BOOL, None)], SRES)},
                sigs=[OBJ_CROP_SIG, (RESULT_PY, "DynamicObjectWithSensingResult", "_get_nearest_point", [])],
                own_attrs=("ground_truth_object", "inside_pointcloud", "inside_pointcloud_num", "is_detected", "nearest_point", "is_occluded"),
                result_attrs=("ground_truth_object", "inside_pointcloud", "inside_pointcloud_num", "is_detected", "is_occluded")))
    # ---- 3. the frame ----------------------------------------------------------------------------------------------------------------------
    frame_attrs = {**FC_ATTRS, **GT_ATTRS, **SRES_ATTRS}
    gt_methods = {(GT, "get_distance"): GET_DISTANCE, (GT, "get_corners"): GET_CORNERS, (CORNERS, "tolist"): TOLIST,
                  (FC, "get_scale_factor"): GET_SCALE}
    S.append(mk("_evaluate_pointcloud_for_detection", FRAME_PY, "_evaluate_pointcloud_for_detection",
                "(fc : frame_config) " + DET_PARAMS + " (ground_truth_objects : list (nat * Sensing.gt_object)) "
                "(pointcloud_for_detection : list Winding.point)",
                {"self": ("tt", SELF), "ground_truth_objects": ("ground_truth_objects", LGT),
                 "pointcloud_for_detection": ("pointcloud_for_detection", CLOUD)}, tup(LR, LR, LR),
                cls="SensingFrameResult", attrs=frame_attrs, methods=gt_methods, consts=VIS_CONSTS,
                funcs={"DynamicObjectWithSensingResult": NEW_RESULT}, sigs=[GET_DISTANCE_SIG, GET_SCALE_SIG, NEW_RESULT_SIG],
                loops=[("list", (LR, LR, LR))], needs=("get_scale_factor", "DynamicObjectWithSensingResult___init__"), state=DET_STATE))
    S.append(mk("_evaluate_pointcloud_for_non_detection", FRAME_PY, "_evaluate_pointcloud_for_non_detection",
                "(fc : frame_config) " + NONDET_PARAMS + " (ground_truth_objects : list (nat * Sensing.gt_object)) "
                "(pointcloud_for_non_detection : list (list Winding.point))",
                {"self": ("tt", SELF), "ground_truth_objects": ("ground_truth_objects", LGT),
                 "pointcloud_for_non_detection": ("pointcloud_for_non_detection", LC)}, LC,
                cls="SensingFrameResult", attrs=frame_attrs, methods=gt_methods, consts=VIS_CONSTS,
                funcs={"crop_pointcloud": CROP, "tuple": TUPLE_OF_ROW}, sigs=[GET_DISTANCE_SIG, GET_SCALE_SIG, GET_CORNERS_SIG, CROP_SIG],
                loops=[("list", (CLOUD,)), ("list", (LC,))], needs=("get_scale_factor",), state=NONDET_STATE))
    det_call = CallSpec("Gen__evaluate_pointcloud_for_detection.f fc {self_detection_success_results} {self_detection_fail_results} "
                        "{self_detection_warning_results} {ground_truth_objects} {pointcloud_for_detection}",
                        [("ground_truth_objects", LGT, None), ("pointcloud_for_detection", CLOUD, None)] + [("self_" + a, t, None) for a, t in DET_STATE],
                        tup(LR, LR, LR), eff=True)
    nondet_call = CallSpec("Gen__evaluate_pointcloud_for_non_detection.f fc {self_pointcloud_failed_non_detection} {ground_truth_objects} "
                           "{pointcloud_for_non_detection}",
                           [("ground_truth_objects", LGT, None), ("pointcloud_for_non_detection", LC, None)] + [("self_" + a, t, None) for a, t in NONDET_STATE],
                           LC, eff=True)
    S.append(mk("evaluate_frame", FRAME_PY, "evaluate_frame",
                "(fc : frame_config) " + DET_PARAMS + " " + NONDET_PARAMS + " (ground_truth_objects : list (nat * Sensing.gt_object)) "
                "(pointcloud_for_detection : list Winding.point) (pointcloud_for_non_detection : list (list Winding.point))",
                {"self": ("tt", SELF), "ground_truth_objects": ("ground_truth_objects", LGT),
                 "pointcloud_for_detection": ("pointcloud_for_detection", CLOUD),
                 "pointcloud_for_non_detection": ("pointcloud_for_non_detection", LC)}, tup(LR, LR, LR, LC),
                cls="SensingFrameResult", attrs=frame_attrs,
                funcs={"self._evaluate_pointcloud_for_detection": det_call, "self._evaluate_pointcloud_for_non_detection": nondet_call},
                sigs=[(FRAME_PY, "SensingFrameResult", "_evaluate_pointcloud_for_detection",
                       [("ground_truth_objects", None), ("pointcloud_for_detection", None)]),
                      (FRAME_PY, "SensingFrameResult", "_evaluate_pointcloud_for_non_detection",
                       [("ground_truth_objects", None), ("pointcloud_for_non_detection", None)])],
                needs=("_evaluate_pointcloud_for_detection", "_evaluate_pointcloud_for_non_detection"),
                state=DET_STATE + NONDET_STATE,
                implicit={"self._evaluate_pointcloud_for_detection": [a for a, _ in DET_STATE],
                          "self._evaluate_pointcloud_for_non_detection": [a for a, _ in NONDET_STATE]}))
    return S


HEADER = """(* GENERATED by translator/loops_sensing.py from the Python source of /repo on every run -- do not edit.
   Part 1 (fixed text): exceptions, the error monad, the attributes of a SensingFrameConfig, the leaf `crop`.
   Part 2: one module per function, `f` = its body.  Props/GenTieSensing.v proves each `f` equal to the hand model
   (Model/Sensing.v, Model/Winding.v). *)
From Coq Require Import String.
From Coq Require Import List Bool ZArith Arith QArith.
From PE Require Import Base.QUtil.
From PE Require Model.Winding Model.Sensing.
Import ListNotations.
Open Scope Q_scope.

(* ---- results: a value, or the class of the exception *)
Inductive exn := RuntimeError | ValueError | ZeroDivisionError | TypeError | AttributeError | IndexError | KeyError.
Inductive res (A : Type) : Type := Ok (a : A) | Err (e : exn).
Arguments Ok {A} a.
Arguments Err {A} e.
Definition bind {A B} (r : res A) (f : A -> res B) : res B := match r with Ok a => f a | Err e => Err e end.

(* ---- the attributes of a SensingFrameConfig: scale_slope_ is computed ONCE, by the constructor *)
Record frame_config := mkFC { fc_uuids : option (list string); fc_s0 : Q; fc_s100 : Q; fc_min : Z; fc_slope : Q }.

(* ---- the (8, 3) array of get_corners and its .tolist() *)
Definition corners := list Winding.vertex.

(* ---- leaf: common.point.crop_pointcloud on a cloud with >= 2 columns (the representation of a row has x and y): RuntimeError unless
   the area has 2n >= 6 vertices, else the rows selected by the winding / z test of Model/Winding.v *)
Definition crop (pc : list Winding.point) (area : list Winding.vertex) (inside : bool) : res (list Winding.point) :=
  if Winding.area_ok area then Ok (filter (Winding.selected area inside) pc) else Err RuntimeError.
"""


def generate(repo):
    """-> (text, {function: why-not-translated})"""
    trees, out, bad, done = {}, [HEADER], {}, []
    for fn in specs():
        try:
            missing = [n for n in fn.needs if n not in done]
            if missing:
                fail("depends on " + ", ".join(missing) + " (not translated)")
            txt = translate_function(fn, repo, trees)
        except (TranslatorError, SyntaxError, OSError, RecursionError) as e:
            bad[fn.name] = f"{type(e).__name__}: {e}" if not isinstance(e, TranslatorError) else str(e)
            out.append(f"(* {fn.name}: not translated: {bad[fn.name].replace('*)', '* )').replace('(*', '( *')} *)\n")
            continue
        except Exception as e:  # noqa: BLE001  -- a defect of the translator itself must not look like a translation
            bad[fn.name] = f"internal error {type(e).__name__}: {e}"
            out.append(f"(* {fn.name}: not translated: {bad[fn.name].replace('*)', '* )').replace('(*', '( *')} *)\n")
            continue
        done.append(fn.name)
        out.append(txt + "\n")
    out.append("Open Scope string_scope.")
    out.append("Definition translated : list string := [" + "; ".join(coq_str(n) for n in done) + "].")
    return "\n".join(out) + "\n", bad


def regenerate(repo, outdir):
    """Write <outdir>/loops_sensing.v (only when the content changes).  {"loops_sensing.v": None} when every function was translated,
    else {"loops_sensing.v": "partial: f1: not translated: why; ..."}."""
    os.makedirs(outdir, exist_ok=True)
    txt, bad = generate(repo)
    fname = MODNAME + ".v"
    path = os.path.join(outdir, fname)
    old = None
    if os.path.exists(path):
        with open(path) as fh:
            old = fh.read()
    if old != txt:
        with open(path, "w") as fh:
            fh.write(txt)
    if not bad:
        return {fname: None}
    return {fname: "partial: " + "; ".join(f"{k}: not translated: {v}" for k, v in bad.items())}


if __name__ == "__main__":
    repo_ = sys.argv[1] if len(sys.argv) > 1 else "/repo"
    outdir_ = sys.argv[2] if len(sys.argv) > 2 else os.path.join(HERE, "..", "coq", "theories", "Gen")
    try:
        st = regenerate(repo_, outdir_)
    except OSError as e_:
        print(f"{MODNAME}.v: could not be written: {e_}")
        sys.exit(1)
    for k_, v_ in st.items():
        print(f"{k_}: {'ok' if v_ is None else v_}")
    sys.exit(0)
