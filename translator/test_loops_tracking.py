#!/usr/bin/env python3
"""Self-test of translator/loops_tracking.py + coq/theories/Props/GenTieTracking.v (same scheme as test_loops.py).

  (1) unchanged /repo: translate, build loops_tracking.v, Proofs/GenTieTrackingLemmas.v and the whole Props/GenTieTracking.v
      (theorems closed, non-vacuity examples evaluate);
  (2) MUTANTS: one-token changes of the translated functions in a scratch copy (/tmp/gen_tracking_scratch/<id>/): each must break an
      equation (named), or fail closed in the translator, or be semantically equivalent (the reason is in the table); a mutant that
      translates, is not equivalent and still proves is reported as MISSED (exit status 1);
  (3) REFACTORINGS: behaviour-preserving rewrites: survive / translator fails closed / translated but the proof rejects.

Each theorem of GenTieTracking.v is compiled on its own (header + that theorem), only the theorems that mention a module whose
generated text changed.  usage: python3 translator/test_loops_tracking.py [--jobs N] [--only base|mutants|refactorings] [--keep] [ids...]
"""
import ast
import concurrent.futures as cf
import os
import re
import shutil
import subprocess
import sys
import time

HERE = os.path.dirname(os.path.abspath(__file__))
VERIF = os.path.dirname(HERE)
sys.path.insert(0, HERE)
import loops_tracking as LT  # noqa: E402
from test_decisions import apply_edit, replace_function  # noqa: E402

REPO = "/repo"
PKGDIR = os.path.join(REPO, "perception_eval", "perception_eval")
SCRATCH = "/tmp/gen_tracking_scratch"
THEORIES = os.path.join(VERIF, "coq", "theories")
COQ_TIMEOUT = 300
GENFILE = LT.MODNAME + ".v"

CL = "evaluation/metrics/tracking/clear.py"
DS = "common/dataset.py"
T, S, N = "_calculate_tp_fp", "_calculate_score", "__init__"
G, GI = "get_now_frame", "get_interpolated_now_frame"

# (id, file, class, function, old, new, expected, why)   expected: caught | closed (translator fails closed) | equivalent
MUTANTS = [
    # ---- CLEAR._calculate_tp_fp
    ("M01", CL, "CLEAR", T, "if matching_threshold_ is None:", "if matching_threshold_ is not None:", "closed",
     "is_result_correct would be called with a threshold that is None"),
    ("M02", CL, "CLEAR", T, "if not is_tp_prev:", "if is_tp_prev:", "caught", ""),
    ("M03", CL, "CLEAR", T, "if is_id_switched:\n                    break", "if not is_id_switched:\n                    break", "caught", ""),
    ("M04", CL, "CLEAR", T, "if is_id_switched:\n                    break", "if is_id_switched:\n                    continue", "caught",
     "the search goes on after an id switch (the flag can be overwritten by a later previous result)"),
    ("M05", CL, "CLEAR", T, ".value\n                    break", ".value\n                    continue", "caught",
     "the search goes on after the same match: a second previous TP with the same pair would be added again"),
    ("M06", CL, "CLEAR", T, "tp += self.tp_metrics.get_value(prev_obj_result)", "tp += self.tp_metrics.get_value(cur_obj_result)", "caught",
     "only the weighted statement sees it (for TPMetricsAp every value is 1.0)"),
    ("M07", CL, "CLEAR", T, "tp_matching_score += prev_obj_result.get_matching(self.matching_mode).value",
     "tp_matching_score += cur_obj_result.get_matching(self.matching_mode).value", "caught", "carried TP keeps the PREVIOUS score"),
    ("M08", CL, "CLEAR", T, "            if is_same_match:\n                continue", "            if is_id_switched:\n                continue", "caught", ""),
    ("M09", CL, "CLEAR", T, "if is_tp_cur:", "if not is_tp_cur:", "caught", ""),
    ("M10", CL, "CLEAR", T, "                fp += 1.0", "                fp += 2.0", "caught", ""),
    ("M11", CL, "CLEAR", T, "                    num_id_switch += 1", "                    num_id_switch += 2", "caught", ""),
    ("M12", CL, "CLEAR", T, "if is_id_switched:\n                    num_id_switch += 1", "if not is_id_switched:\n                    num_id_switch += 1", "caught", ""),
    ("M13", CL, "CLEAR", T, "is_tp_prev: bool = prev_obj_result.is_result_correct(", "is_tp_prev: bool = cur_obj_result.is_result_correct(", "caught", ""),
    ("M14", CL, "CLEAR", T, "            is_tp_cur: bool = cur_obj_result.is_result_correct(", "            is_tp_cur: bool = prev_obj_result.is_result_correct(", "closed",
     "the loop variable of the inner loop is used after that loop (unbound for an empty previous frame)"),
    ("M15", CL, "CLEAR", T, "for prev_obj_result in prev_object_results:", "for prev_obj_result in cur_object_results:", "caught", ""),
    ("M16", CL, "CLEAR", T, "for cur_obj_result in cur_object_results:", "for cur_obj_result in prev_object_results:", "caught", ""),
    ("M17", CL, "CLEAR", T, "return tp, fp, num_id_switch, tp_matching_score", "return fp, tp, num_id_switch, tp_matching_score", "caught", ""),
    ("M18", CL, "CLEAR", T, "is_same_match: bool = False", "is_same_match: bool = True", "caught", ""),
    ("M19", CL, "CLEAR", T, "is_id_switched: bool = False", "is_id_switched: bool = True", "caught", ""),
    ("M20", CL, "CLEAR", T, "        tp: float = 0.0", "        tp: float = 1.0", "caught", ""),
    ("M21", CL, "CLEAR", T, "self._is_id_switched(cur_obj_result, prev_obj_result)", "self._is_id_switched(prev_obj_result, cur_obj_result)", "equivalent",
     "_is_id_switched is symmetric in its two arguments (every comparison in it is an equality of ids / labels)"),
    ("M22", CL, "CLEAR", T, "self._is_same_match(cur_obj_result, prev_obj_result)", "self._is_same_match(prev_obj_result, cur_obj_result)", "equivalent",
     "_is_same_match is symmetric in its two arguments"),
    ("M23", CL, "CLEAR", T, "tp += self.tp_metrics.get_value(cur_obj_result)", "fp += self.tp_metrics.get_value(cur_obj_result)", "caught", ""),
    ("M24", CL, "CLEAR", T, "            else:\n                fp += 1.0", "            else:\n                tp += 1.0", "caught", ""),
    ("M25", CL, "CLEAR", T, "if cur_obj_result.ground_truth_object is not None", "if cur_obj_result.ground_truth_object is None", "closed",
     "the label whose threshold is looked up: no longer the expression the vocabulary gives a meaning to"),
    ("M26", CL, "CLEAR", T, "tp_matching_score += cur_obj_result.get_matching(self.matching_mode).value",
     "tp_matching_score -= cur_obj_result.get_matching(self.matching_mode).value", "caught", ""),
    ("M27", CL, "CLEAR", T, "        num_id_switch: int = 0", "        num_id_switch: int = 1", "caught", ""),
    ("M28", CL, "CLEAR", T, "                if is_same_match:\n                    #", "                if not is_same_match:\n                    #", "caught", ""),
    # ---- CLEAR._calculate_score
    ("M30", CL, "CLEAR", S, "if self.num_ground_truth == 0:", "if self.num_ground_truth != 0:", "closed", "the division is no longer guarded"),
    ("M31", CL, "CLEAR", S, "if self.tp == 0.0:", "if self.fp == 0.0:", "closed", "the division by tp is no longer guarded"),
    ("M32", CL, "CLEAR", S, "mota = max(0.0, mota)", "mota = max(1.0, mota)", "caught", ""),
    ("M33", CL, "CLEAR", S, "(self.tp - self.fp - self.id_switch)", "(self.tp + self.fp - self.id_switch)", "caught", ""),
    ("M34", CL, "CLEAR", S, "motp: float = self.tp_matching_score / self.tp", "motp: float = self.tp_matching_score * self.tp", "caught", ""),
    ("M35", CL, "CLEAR", S, "return mota, motp", "return motp, mota", "caught", ""),
    ("M36", CL, "CLEAR", S, "/ self.num_ground_truth", "/ self.id_switch", "closed", "division by a number not known to be non-zero"),
    ("M37", CL, "CLEAR", S, 'mota: float = float("inf")', 'mota: float = float("-inf")', "closed", "-inf has no rendering"),
    ("M38", CL, "CLEAR", S, "mota = max(0.0, mota)", "mota = min(0.0, mota)", "closed", "min of a value that may be inf is not translated"),
    ("M39", CL, "CLEAR", S, "(self.tp - self.fp - self.id_switch)", "(self.tp - self.fp - self.num_ground_truth)", "caught", ""),
    # ---- CLEAR.__init__
    ("M40", CL, "CLEAR", N, "enumerate(object_results[1:], 1)", "enumerate(object_results[1:], 0)", "closed",
     "object_results[i - 1] would be the LAST frame for the first pair: not the loop the equation is proved for"),
    ("M41", CL, "CLEAR", N, "= object_results[i - 1]", "= object_results[i]", "caught", ""),
    ("M42", CL, "CLEAR", N, "self.objects_results_num += len(cur_object_results)", "self.objects_results_num += len(prev_object_results)", "caught", ""),
    ("M43", CL, "CLEAR", N, "self.tp += tp_t", "self.tp += fp_t", "caught", ""),
    ("M44", CL, "CLEAR", N, "self.id_switch += id_switch_t", "self.id_switch -= id_switch_t", "closed", "subtraction of integers (could be negative)"),
    ("M45", CL, "CLEAR", N, "cur_object_results=cur_object_results,\n                prev_object_results=prev_object_results,",
     "cur_object_results=prev_object_results,\n                prev_object_results=cur_object_results,", "caught", ""),
    ("M46", CL, "CLEAR", N, "self.tp_matching_score: float = 0.0", "self.tp_matching_score: float = 1.0", "caught", ""),
    ("M47", CL, "CLEAR", N, "            num_ground_truth=num_ground_truth,", "            num_ground_truth=0,", "closed",
     "super().__init__ no longer passes every parameter on under its own name"),
    ("M48", CL, "CLEAR", N, "enumerate(object_results[1:], 1)", "enumerate(object_results[0:], 1)", "closed", "another slice"),
    ("M49", CL, "CLEAR", N, "self.fp += fp_t", "self.fp += tp_t", "caught", ""),
    ("M50", CL, "CLEAR", N, "self.mota, self.motp = self._calculate_score()", "self.motp, self.mota = self._calculate_score()", "caught", ""),
    ("M51", CL, "CLEAR", N, "self.tp_matching_score += tp_matching_score_t", "self.tp_matching_score += tp_t", "caught", ""),
    # ---- common/dataset.py get_now_frame
    ("M60", DS, None, G, "if diff_time < min_time:", "if diff_time <= min_time:", "caught", "the LAST of the closest frames instead of the first"),
    ("M61", DS, None, G, "if min_time > threshold_min_time:", "if min_time >= threshold_min_time:", "caught", "the tolerance is inclusive"),
    ("M62", DS, None, G, "= ground_truth_frames[0]", "= ground_truth_frames[-1]", "caught", ""),
    ("M63", DS, None, G, "if unix_time > threshold_max_time:", "if unix_time >= threshold_max_time:", "caught", "GenTie_get_now_frame_outside"),
    ("M64", DS, None, G, "threshold_max_time = 10**17", "threshold_max_time = 10**16", "caught", "GenTie_get_now_frame_outside"),
    ("M65", DS, None, G, "diff_time = abs(unix_time - ground_truth_frame.unix_time)", "diff_time = abs(unix_time + ground_truth_frame.unix_time)", "caught", ""),
    ("M66", DS, None, G, "            min_time = diff_time", "            min_time = min_time", "caught", ""),
    ("M67", DS, None, G, "if min_time > threshold_min_time:", "if min_time < threshold_min_time:", "caught", ""),
    ("M68", DS, None, G, "min_time: int = abs(unix_time - ground_truth_now_frame.unix_time)", "min_time: int = abs(unix_time)", "caught", ""),
    ("M69", DS, None, G, "diff_time = abs(unix_time - ground_truth_frame.unix_time)", "diff_time = unix_time - ground_truth_frame.unix_time", "caught", ""),
    ("M6A", DS, None, G, "            ground_truth_now_frame = ground_truth_frame", "            ground_truth_now_frame = ground_truth_now_frame", "caught", ""),
    # ---- common/dataset.py get_interpolated_now_frame (neighbour search)
    ("M70", DS, None, GI, "if diff_time >= 0:", "if diff_time > 0:", "caught", ""),
    ("M71", DS, None, GI, "dt_after = -diff_time", "dt_after = diff_time", "caught", ""),
    ("M72", DS, None, GI, "            break", "            continue", "closed", "the repaired defect F10 (after_frame overwritten by every later frame): another loop"),
    ("M73", DS, None, GI, "if dt_before > threshold_min_time:", "if dt_before >= threshold_min_time:", "caught", ""),
    ("M74", DS, None, GI, "if dt_after > threshold_min_time:\n        after_frame = None", "if dt_after > threshold_min_time:\n        before_frame = None", "caught", ""),
    ("M75", DS, None, GI, "            before_frame = ground_truth_frame", "            after_frame = ground_truth_frame", "caught", ""),
    ("M76", DS, None, GI, "dt_before = 0.0", "dt_before = 1.0", "caught",
     "equivalent for the whole function (dt_before only gates a before_frame that is None then), visible in the returned dt_before"),
    ("M77", DS, None, GI, "if dt_after > threshold_min_time:", "if dt_before > threshold_min_time:", "caught", ""),
    ("M78", DS, None, GI, "diff_time = unix_time - ground_truth_frame.unix_time", "diff_time = ground_truth_frame.unix_time - unix_time", "caught", ""),
    ("M79", DS, None, GI, "            dt_before = diff_time", "            dt_after = diff_time", "caught", ""),
    ("M52", CL, "CLEAR", N, "= object_results[i - 1]", "= object_results[i - 2]", "caught",
     "for the first pair the index is -1: Python reads the LAST frame (rendered exactly)"),
]

# (id, description, file, class, function, new source of the whole function)
REFACTORINGS = [
    ("R01", "_calculate_tp_fp: nested `if is_tp_prev:` instead of `continue`, `tp = tp + ...`, `is False`", CL, "CLEAR", T, '''
def _calculate_tp_fp(self, cur_object_results, prev_object_results):
    tp: float = 0.0
    fp: float = 0.0
    num_id_switch: int = 0
    tp_matching_score: float = 0.0
    for cur_obj_result in cur_object_results:
        matching_threshold_: float = get_label_threshold(
            semantic_label=cur_obj_result.ground_truth_object.semantic_label
            if cur_obj_result.ground_truth_object is not None
            else cur_obj_result.estimated_object.semantic_label,
            target_labels=self.target_labels,
            threshold_list=self.matching_threshold_list,
        )
        if matching_threshold_ is None:
            continue
        is_same_match: bool = False
        is_id_switched: bool = False
        for prev_obj_result in prev_object_results:
            is_tp_prev: bool = prev_obj_result.is_result_correct(self.matching_mode, matching_threshold_)
            if is_tp_prev:
                is_id_switched = self._is_id_switched(cur_obj_result, prev_obj_result)
                if is_id_switched:
                    break
                is_same_match = self._is_same_match(cur_obj_result, prev_obj_result)
                if is_same_match:
                    tp = tp + self.tp_metrics.get_value(prev_obj_result)
                    tp_matching_score = tp_matching_score + prev_obj_result.get_matching(self.matching_mode).value
                    break
        if is_same_match:
            continue
        is_tp_cur: bool = cur_obj_result.is_result_correct(self.matching_mode, matching_threshold_)
        if is_tp_cur is False:
            fp += 1.0
        else:
            tp += self.tp_metrics.get_value(cur_obj_result)
            tp_matching_score += cur_obj_result.get_matching(self.matching_mode).value
            if is_id_switched:
                num_id_switch += 1
    return tp, fp, num_id_switch, tp_matching_score
'''),
    ("R02", "_calculate_tp_fp: the carried TP is added after the search loop, from the loop variable", CL, "CLEAR", T, '''
def _calculate_tp_fp(self, cur_object_results, prev_object_results):
    tp: float = 0.0
    fp: float = 0.0
    num_id_switch: int = 0
    tp_matching_score: float = 0.0
    for cur_obj_result in cur_object_results:
        matching_threshold_: float = get_label_threshold(
            semantic_label=cur_obj_result.ground_truth_object.semantic_label
            if cur_obj_result.ground_truth_object is not None
            else cur_obj_result.estimated_object.semantic_label,
            target_labels=self.target_labels,
            threshold_list=self.matching_threshold_list,
        )
        if matching_threshold_ is None:
            continue
        is_same_match: bool = False
        is_id_switched: bool = False
        for prev_obj_result in prev_object_results:
            if not prev_obj_result.is_result_correct(self.matching_mode, matching_threshold_):
                continue
            is_id_switched = self._is_id_switched(cur_obj_result, prev_obj_result)
            if is_id_switched:
                break
            is_same_match = self._is_same_match(cur_obj_result, prev_obj_result)
            if is_same_match:
                break
        if is_same_match:
            tp += self.tp_metrics.get_value(prev_obj_result)
            tp_matching_score += prev_obj_result.get_matching(self.matching_mode).value
            continue
        is_tp_cur: bool = cur_obj_result.is_result_correct(self.matching_mode, matching_threshold_)
        if is_tp_cur:
            tp += self.tp_metrics.get_value(cur_obj_result)
            tp_matching_score += cur_obj_result.get_matching(self.matching_mode).value
            if is_id_switched:
                num_id_switch += 1
        else:
            fp += 1.0
    return tp, fp, num_id_switch, tp_matching_score
'''),
    ("R03", "_calculate_tp_fp: is_tp_cur computed before the search loop, test inlined in `if not ...: continue`", CL, "CLEAR", T, '''
def _calculate_tp_fp(self, cur_object_results, prev_object_results):
    tp: float = 0.0
    fp: float = 0.0
    num_id_switch: int = 0
    tp_matching_score: float = 0.0
    for cur_obj_result in cur_object_results:
        matching_threshold_: float = get_label_threshold(
            semantic_label=cur_obj_result.ground_truth_object.semantic_label
            if cur_obj_result.ground_truth_object is not None
            else cur_obj_result.estimated_object.semantic_label,
            target_labels=self.target_labels,
            threshold_list=self.matching_threshold_list,
        )
        if matching_threshold_ is None:
            continue
        is_tp_cur: bool = cur_obj_result.is_result_correct(self.matching_mode, matching_threshold_)
        is_same_match: bool = False
        is_id_switched: bool = False
        for prev_obj_result in prev_object_results:
            if not prev_obj_result.is_result_correct(self.matching_mode, matching_threshold_):
                continue
            is_id_switched = self._is_id_switched(cur_obj_result, prev_obj_result)
            if is_id_switched:
                break
            is_same_match = self._is_same_match(cur_obj_result, prev_obj_result)
            if is_same_match:
                tp += self.tp_metrics.get_value(prev_obj_result)
                tp_matching_score += prev_obj_result.get_matching(self.matching_mode).value
                break
        if is_same_match:
            continue
        if is_tp_cur:
            tp += self.tp_metrics.get_value(cur_obj_result)
            tp_matching_score += cur_obj_result.get_matching(self.matching_mode).value
            if is_id_switched:
                num_id_switch += 1
        else:
            fp += 1.0
    return tp, fp, num_id_switch, tp_matching_score
'''),
    ("R04", "_calculate_tp_fp: `if not is_same_match:` around the rest instead of `continue`, switch counted by `and`", CL, "CLEAR", T, '''
def _calculate_tp_fp(self, cur_object_results, prev_object_results):
    tp: float = 0.0
    fp: float = 0.0
    num_id_switch: int = 0
    tp_matching_score: float = 0.0
    for cur_obj_result in cur_object_results:
        matching_threshold_: float = get_label_threshold(
            semantic_label=cur_obj_result.ground_truth_object.semantic_label
            if cur_obj_result.ground_truth_object is not None
            else cur_obj_result.estimated_object.semantic_label,
            target_labels=self.target_labels,
            threshold_list=self.matching_threshold_list,
        )
        if matching_threshold_ is None:
            continue
        is_same_match: bool = False
        is_id_switched: bool = False
        for prev_obj_result in prev_object_results:
            is_tp_prev: bool = prev_obj_result.is_result_correct(self.matching_mode, matching_threshold_)
            if not is_tp_prev:
                continue
            is_id_switched = self._is_id_switched(cur_obj_result, prev_obj_result)
            if is_id_switched:
                break
            is_same_match = self._is_same_match(cur_obj_result, prev_obj_result)
            if is_same_match:
                tp += self.tp_metrics.get_value(prev_obj_result)
                tp_matching_score += prev_obj_result.get_matching(self.matching_mode).value
                break
        if not is_same_match:
            is_tp_cur: bool = cur_obj_result.is_result_correct(self.matching_mode, matching_threshold_)
            if is_tp_cur and is_id_switched:
                num_id_switch += 1
            if is_tp_cur:
                tp += self.tp_metrics.get_value(cur_obj_result)
                tp_matching_score += cur_obj_result.get_matching(self.matching_mode).value
            else:
                fp += 1.0
    return tp, fp, num_id_switch, tp_matching_score
'''),
    ("R05", "_calculate_score: conditional expressions instead of if / else", CL, "CLEAR", S, '''
def _calculate_score(self):
    mota: float = float("inf") if self.num_ground_truth == 0 else (self.tp - self.fp - self.id_switch) / self.num_ground_truth
    motp: float = float("inf") if self.tp == 0.0 else self.tp_matching_score / self.tp
    mota = max(0.0, mota)
    return mota, motp
'''),
    ("R06", "_calculate_score: MOTP first, `!=` tests with swapped branches", CL, "CLEAR", S, '''
def _calculate_score(self):
    if self.tp != 0.0:
        motp: float = self.tp_matching_score / self.tp
    else:
        motp: float = float("inf")
    if self.num_ground_truth != 0:
        mota: float = (self.tp - self.fp - self.id_switch) / self.num_ground_truth
    else:
        mota: float = float("inf")
    mota = max(0.0, mota)
    return mota, motp
'''),
    ("R07", "__init__: previous frame inlined into the call, positional arguments", CL, "CLEAR", N, '''
def __init__(self, object_results, num_ground_truth, target_labels, matching_mode, matching_threshold_list, tp_metrics=TPMetricsAp(), metrics_field=None):
    super().__init__(
        num_ground_truth=num_ground_truth,
        target_labels=target_labels,
        matching_mode=matching_mode,
        matching_threshold_list=matching_threshold_list,
        tp_metrics=tp_metrics,
        metrics_field=metrics_field,
    )
    self.tp: float = 0.0
    self.fp: float = 0.0
    self.id_switch: int = 0
    self.tp_matching_score: float = 0.0
    self.objects_results_num: int = 0
    for i, cur_object_results in enumerate(object_results[1:], 1):
        self.objects_results_num += len(cur_object_results)
        tp_t, fp_t, id_switch_t, tp_matching_score_t = self._calculate_tp_fp(cur_object_results, object_results[i - 1])
        self.tp += tp_t
        self.fp += fp_t
        self.id_switch += id_switch_t
        self.tp_matching_score += tp_matching_score_t
    self.mota, self.motp = self._calculate_score()
'''),
    ("R08", "__init__: statements of the loop body reordered, `x = x + ...`, positional call", CL, "CLEAR", N, '''
def __init__(self, object_results, num_ground_truth, target_labels, matching_mode, matching_threshold_list, tp_metrics=TPMetricsAp(), metrics_field=None):
    super().__init__(
        num_ground_truth=num_ground_truth,
        target_labels=target_labels,
        matching_mode=matching_mode,
        matching_threshold_list=matching_threshold_list,
        tp_metrics=tp_metrics,
        metrics_field=metrics_field,
    )
    self.tp: float = 0.0
    self.fp: float = 0.0
    self.id_switch: int = 0
    self.tp_matching_score: float = 0.0
    self.objects_results_num: int = 0
    for i, cur_object_results in enumerate(object_results[1:], 1):
        prev_object_results = object_results[i - 1]
        tp_t, fp_t, id_switch_t, tp_matching_score_t = self._calculate_tp_fp(cur_object_results, prev_object_results)
        self.tp_matching_score = self.tp_matching_score + tp_matching_score_t
        self.id_switch = self.id_switch + id_switch_t
        self.fp = self.fp + fp_t
        self.tp = self.tp + tp_t
        self.objects_results_num = self.objects_results_num + len(cur_object_results)
    self.mota, self.motp = self._calculate_score()
'''),
    ("R10", "get_now_frame: `continue` for the frames that are not closer, early return without else, `not a <= b`", DS, None, G, '''
def get_now_frame(ground_truth_frames, unix_time, threshold_min_time):
    threshold_max_time = 10**17
    if unix_time > threshold_max_time:
        raise DatasetLoadingError(f"Error: The unit time of unix time is micro second, but you may input nano second {unix_time}")
    ground_truth_now_frame: FrameGroundTruth = ground_truth_frames[0]
    min_time: int = abs(unix_time - ground_truth_now_frame.unix_time)
    for ground_truth_frame in ground_truth_frames:
        diff_time = abs(unix_time - ground_truth_frame.unix_time)
        if diff_time >= min_time:
            continue
        min_time = diff_time
        ground_truth_now_frame = ground_truth_frame
    if not min_time <= threshold_min_time:
        return None
    return ground_truth_now_frame
'''),
    ("R11", "get_now_frame: index loop over range(len(...))", DS, None, G, '''
def get_now_frame(ground_truth_frames, unix_time, threshold_min_time):
    threshold_max_time = 10**17
    if unix_time > threshold_max_time:
        raise DatasetLoadingError(f"nano second {unix_time}")
    ground_truth_now_frame: FrameGroundTruth = ground_truth_frames[0]
    min_time: int = abs(unix_time - ground_truth_now_frame.unix_time)
    for i in range(len(ground_truth_frames)):
        ground_truth_frame = ground_truth_frames[i]
        diff_time = abs(unix_time - ground_truth_frame.unix_time)
        if diff_time < min_time:
            ground_truth_now_frame = ground_truth_frame
            min_time = diff_time
    if min_time > threshold_min_time:
        return None
    else:
        return ground_truth_now_frame
'''),
    ("R12", "neighbour search: `if diff_time < 0:` with swapped branches, gates written `not (dt <= tol)`", DS, None, GI, '''
def get_interpolated_now_frame(ground_truth_frames, unix_time, threshold_min_time):
    before_frame = None
    after_frame = None
    dt_before = 0.0
    dt_after = 0.0
    for ground_truth_frame in ground_truth_frames:
        diff_time = unix_time - ground_truth_frame.unix_time
        if diff_time < 0:
            after_frame = ground_truth_frame
            dt_after = -diff_time
            break
        before_frame = ground_truth_frame
        dt_before = diff_time
    if not (dt_after <= threshold_min_time):
        after_frame = None
    if not (dt_before <= threshold_min_time):
        before_frame = None
    if before_frame is None and after_frame is None:
        return None
    elif before_frame is None:
        return after_frame
    elif after_frame is None:
        return before_frame
    else:
        return interpolate_ground_truth_frames(before_frame, after_frame, unix_time)
'''),
    ("R09", "__init__: index loop `for i in range(1, len(object_results))`", CL, "CLEAR", N, '''
def __init__(self, object_results, num_ground_truth, target_labels, matching_mode, matching_threshold_list, tp_metrics=TPMetricsAp(), metrics_field=None):
    super().__init__(
        num_ground_truth=num_ground_truth,
        target_labels=target_labels,
        matching_mode=matching_mode,
        matching_threshold_list=matching_threshold_list,
        tp_metrics=tp_metrics,
        metrics_field=metrics_field,
    )
    self.tp: float = 0.0
    self.fp: float = 0.0
    self.id_switch: int = 0
    self.tp_matching_score: float = 0.0
    self.objects_results_num: int = 0
    for i in range(1, len(object_results)):
        cur_object_results = object_results[i]
        prev_object_results = object_results[i - 1]
        self.objects_results_num += len(cur_object_results)
        tp_t, fp_t, id_switch_t, tp_matching_score_t = self._calculate_tp_fp(
            cur_object_results=cur_object_results, prev_object_results=prev_object_results
        )
        self.tp += tp_t
        self.fp += fp_t
        self.id_switch += id_switch_t
        self.tp_matching_score += tp_matching_score_t
    self.mota, self.motp = self._calculate_score()
'''),
]


# ---------------------------------------------------------------------------------------------------------------------
def make_scratch(n):
    d = os.path.join(SCRATCH, str(n))
    shutil.rmtree(d, ignore_errors=True)
    for rel in sorted({fn.file for fn in LT.specs()}):
        dst = os.path.join(d, "repo", "perception_eval", "perception_eval", rel)
        os.makedirs(os.path.dirname(dst), exist_ok=True)
        shutil.copy(os.path.join(PKGDIR, rel), dst)
    os.makedirs(os.path.join(d, "coq"))
    return d


def split_gentie():
    with open(os.path.join(THEORIES, "Props", "GenTieTracking.v")) as f:
        txt = f.read()
    whole = txt.replace(f"From PE Require Gen.{LT.MODNAME}.\nImport Gen.{LT.MODNAME}.", f"From SCR Require {LT.MODNAME}.\nImport {LT.MODNAME}.")
    assert "SCR" in whole
    m0 = re.search(r"^\(\* ---- ", whole, flags=re.M)
    header, blocks = whole[:m0.start()], {}
    for m in re.finditer(r"(?ms)^Theorem (\w+)\b.*?^Print Assumptions \1\.", whole):
        blocks[m.group(1)] = m.group(0) + "\n"
    return whole, header, blocks


def modules_of(text):
    return {m.group(1): m.group(2) for m in re.finditer(r"(?s)Module (Gen_\w+)\.(.*?)End \1\.", text)}


def coqc(args, cwd):
    try:
        p = subprocess.run(["timeout", str(COQ_TIMEOUT), "coqc"] + args, cwd=cwd, capture_output=True, text=True)
        return p.returncode, p.stdout + p.stderr
    except Exception as e:  # noqa: BLE001
        return 99, str(e)


def check_text(d, name, text, nthm):
    fn = os.path.join(d, "coq", f"T_{name}.v")
    with open(fn, "w") as f:
        f.write(text)
    t0 = time.time()
    rc, out = coqc(["-Q", THEORIES, "PE", "-Q", os.path.join(d, "coq"), "SCR", fn], os.path.join(d, "coq"))
    dt = time.time() - t0
    if rc == 0 and out.count("Closed under the global context") == nthm and "Axioms:" not in out:
        return "ok", dt
    if rc == 124:
        return "timeout", dt
    m = re.search(r"Error:\s*(.*)", out, re.S)
    return "FAILS: " + (" ".join(m.group(1).split())[:110] if m else f"rc={rc}"), dt


def run_variant(n, edits, header, blocks, base_modules):
    """-> (translator status, {theorem: (result, seconds)}, scratch dir)"""
    d = make_scratch(n)
    for rel, fn in edits:
        path = os.path.join(d, "repo", "perception_eval", "perception_eval", rel)
        with open(path) as f:
            src = f.read()
        new = fn(src)
        ast.parse(new)
        assert new != src, "the edit changes nothing"
        with open(path, "w") as f:
            f.write(new)
    st = LT.regenerate(os.path.join(d, "repo"), os.path.join(d, "coq"))[GENFILE]
    with open(os.path.join(d, "coq", GENFILE)) as f:
        mods = modules_of(f.read())
    rc, out = coqc(["-Q", THEORIES, "PE", "-Q", os.path.join(d, "coq"), "SCR", GENFILE], os.path.join(d, "coq"))
    if rc != 0:
        return st, {"<" + GENFILE + ">": ("FAILS to compile: " + " ".join(out.split())[:200], 0)}, d
    if base_modules is None:
        todo = list(blocks)
    else:
        changed = [m for m in base_modules if mods.get(m) != base_modules[m]]
        todo = [t for t, b in blocks.items() if any(re.search(r"\b" + re.escape(m) + r"\.", b) for m in changed)]
    res = {}
    for t in todo:
        res[t] = check_text(d, t, header + blocks[t], 1)
    return st, res, d


def main():
    jobs = 3
    only = None
    keep = "--keep" in sys.argv
    if "--jobs" in sys.argv:
        jobs = int(sys.argv[sys.argv.index("--jobs") + 1])
    if "--only" in sys.argv:
        only = sys.argv[sys.argv.index("--only") + 1]
    ids = [a for a in sys.argv[1:] if re.fullmatch(r"[MR]\d[\dA-Z]", a)]
    shutil.rmtree(SCRATCH, ignore_errors=True)
    os.makedirs(SCRATCH)
    rc, out = coqc(["-Q", THEORIES, "PE", os.path.join(THEORIES, "Proofs", "GenTieTrackingLemmas.v")], THEORIES)
    if rc != 0:
        print("Proofs/GenTieTrackingLemmas.v does not compile:", out)
        return 1
    whole, header, blocks = split_gentie()
    failures = 0
    # ---- (1) unchanged repo
    t0 = time.time()
    st, res, d0 = run_variant("base", [], header, blocks, None)
    with open(os.path.join(d0, "coq", GENFILE)) as f:
        base_modules = modules_of(f.read())
    print(f"(1) UNCHANGED /repo: translation: {'all translated' if st is None else st}")
    for k, (r, dt) in res.items():
        print(f"    {k:55s} {r}  ({dt:.1f}s)")
    bad = [k for k, v in res.items() if v[0] != "ok"]
    r, dt = check_text(d0, "whole_file", whole, len(blocks))
    print(f"    {'<the whole file, with the non-vacuity examples>':55s} {r}  ({dt:.1f}s)")
    print(f"    -> {len(res) - len(bad)}/{len(res)} theorems closed, {time.time() - t0:.0f}s")
    if bad or st is not None or r != "ok":
        failures += 1
    if only == "base":
        if not keep:
            shutil.rmtree(SCRATCH, ignore_errors=True)
        return failures
    with cf.ThreadPoolExecutor(max_workers=jobs) as pool:
        # ---- (2) mutants
        if only in (None, "mutants"):
            print("\n(2) MUTANTS (one token each)")
            tally = {}
            todo = [m for m in MUTANTS if not ids or m[0] in ids]
            futs = [pool.submit(run_variant, m[0], [(m[1], lambda s, c=m[2], f=m[3], o=m[4], n=m[5]: apply_edit(s, c, f, o, n))], header, blocks, base_modules)
                    for m in todo]
            for (mid, rel, cls, func, old, new, expected, why), fut in zip(todo, futs):
                try:
                    st, res, d = fut.result()
                except Exception as e:  # noqa: BLE001
                    print(f"  {mid} ERROR {e}")
                    failures += 1
                    continue
                badt = [f"{k} [{v[0]}]" for k, v in res.items() if v[0] != "ok"]
                if st:
                    verdict = "fails closed (translator)"
                    okv = expected in ("closed", "caught", "equivalent")
                elif not res:
                    verdict = "generated text unchanged" + (" (equivalent)" if expected == "equivalent" else "")
                    okv = expected == "equivalent"
                elif badt:
                    verdict = "caught" if expected != "equivalent" else "equivalent, proof script rejects"
                    okv = True
                else:
                    verdict = "equivalent, still proves" if expected == "equivalent" else "MISSED"
                    okv = expected == "equivalent"
                if expected == "equivalent" and st:
                    verdict = "equivalent, fails closed"
                if expected == "closed" and not st:
                    verdict += " (expected to fail closed)"
                tally[verdict] = tally.get(verdict, 0) + 1
                if not okv:
                    failures += 1
                    verdict += "  <<<<<< UNEXPECTED"
                desc = f"{func}: {' '.join(old.split())[:58]!r} -> {' '.join(new.split())[:58]!r}"
                print(f"  {mid} {verdict:34s} {desc}")
                if why:
                    print(f"        note: {why}")
                if st:
                    print(f"        translator: {st[:230]}")
                for b in badt:
                    print(f"        breaks: {b[:190]}")
                if not keep:
                    shutil.rmtree(d, ignore_errors=True)
            print("  tally:", tally)
        # ---- (3) refactorings
        if only in (None, "refactorings"):
            print("\n(3) REFACTORINGS (behaviour preserving)")
            survived = 0
            allr = [r for r in REFACTORINGS if not ids or r[0] in ids]
            futs = [pool.submit(run_variant, rid, [(rel, lambda s, c=cls, f=func, n=new: replace_function(s, c, f, n))], header, blocks, base_modules)
                    for (rid, desc, rel, cls, func, new) in allr]
            for (rid, desc, rel, cls, func, new), fut in zip(allr, futs):
                try:
                    st, res, d = fut.result()
                except Exception as e:  # noqa: BLE001
                    print(f"  {rid} ERROR {e}")
                    failures += 1
                    continue
                badt = [f"{k} [{v[0]}]" for k, v in res.items() if v[0] != "ok"]
                if st:
                    verdict = "translator FAILS CLOSED"
                elif badt:
                    verdict = "translated, proof REJECTS"
                else:
                    verdict = "survives" + ("" if res else " (generated text identical)")
                    survived += 1
                print(f"  {rid} {verdict:28s} {desc}  [{len(res)} theorem(s) re-checked]")
                if st:
                    print(f"        translator: {st[:230]}")
                for b in badt:
                    print(f"        breaks: {b[:190]}")
                if not keep:
                    shutil.rmtree(d, ignore_errors=True)
            print(f"  {survived}/{len(allr)} refactorings survive")
    if not keep:
        shutil.rmtree(SCRATCH, ignore_errors=True)
    return 1 if failures else 0


if __name__ == "__main__":
    sys.exit(main())
