#!/usr/bin/env python3
"""Translator for the DYNAMICALLY TYPED configuration checks of perception_eval: Python `ast` -> Gallina
(Gen/decisions_threshold.v), the third layer of the redundant tie (after decisions.py and loops.py).

Targets: common/threshold.py (set_thresholds, __get_thresholds, __get_nested_thresholds, check_thresholds,
check_nested_thresholds and the exception class they raise).  Props/GenTieThreshold.v proves every generated definition EQUAL,
for all inputs, to the hand model of Model/Threshold.v over the Python-value datatype of Model/PyVal.v.

How dynamic typing is rendered
  * a value whose Python type is not known statically is a `pyval` (Model/PyVal.v: Num / Bool / Str / NoneV / List / Tuple);
    every operation on it is a total Coq function of the PRELUDE below that returns the exception class Python raises when the
    operand has the wrong type: `len(x)` -> `py_len x : xres nat` (TypeError on a number / None), `for t in x` -> `py_iter x`,
    `x[k]` -> `py_getitem x k` (TypeError, IndexError), `x * n` -> `py_mul x n`, `isinstance(x, Real)` -> `is_real x` (the
    model's predicate: bool IS a real number), `isinstance(x, list)` -> `is_list x` (a tuple is not), `x is None` -> `is_none x`,
    truthiness -> `py_truthy x`;
  * values whose type IS known (the `int` number of labels -> nat, the `bool` flag -> bool, list displays and comprehensions ->
    Coq lists, `len(..)` results -> nat) keep their static type and are injected into pyval only where they meet a dynamic
    context (`Bool b`, `py_of_nat n`, `List (map .. l)`);
  * everything that can raise lives in the error monad `xres` = XOk a | XErr (Py <class of Model/PyVal.pyerr>) | XErr IndexError
    (IndexError is not a class of the hand models: the equations `f v n = of_res (model v n)` therefore also say that it is
    never raised); `raise C(msg)` is `XErr (Py C)` -- the class only; `len(..)` calls inside the message are evaluated first;
  * `[e for t in xs if c]` -> map / filter / flat_map when nothing can raise, mmap / mflat_map (left to right, first exception
    wins) otherwise; `any([..])` / `all([..])` -> existsb / forallb over the list built first; `any(.. for ..)` (a generator:
    short circuit) -> mexistsb / mforallb when an element can raise; `for` -> mfold over the re-assigned / appended locals;
    `xs.append(e)` only on a local created by a list display / comprehension in this function that has not been used as a value
    since (no aliasing); `and` / `or` short-circuit also when an operand can raise.
  * a call of another translated function of the file is a call of its generated definition; a call of any OTHER module-level
    function of the same file (an extracted helper) is inlined with the argument types of the call.
Fail-closed per function: an unknown name / attribute / statement form / type clash is a TranslatorError for that function (and
for the functions that call it); `isinstance(x, int)` / `isinstance(x, float)` cannot be expressed (Num holds both).

Only `ast` is used; the library is never imported."""
import ast
import os
import sys

sys.path.insert(0, os.path.dirname(os.path.abspath(__file__)))
from py_to_coq import PKG, TranslatorError, coq_str  # noqa: E402
from decisions import fail, paren, find_function  # noqa: E402

OUT_NAME = "decisions_threshold.v"      # core.regenerate_gen: translator/<modname>.py writes Gen/<modname>.v

# =============================================================================================
# types: "dyn" | "nat" | "bool" | "bot" (element type of an empty display) | ("list", T)
# =============================================================================================
DYN, NAT, BOOL, BOT, UNIT = "dyn", "nat", "bool", "bot", "unit"


def lst(t):
    return ("list", t)


def is_list(t):
    return isinstance(t, tuple) and t[0] == "list"


def coq_ty(t):
    if t == DYN:
        return "pyval"
    if t in (NAT, BOOL, UNIT):
        return t
    if is_list(t):
        return f"list {paren(coq_ty(t[1]))}"
    fail(f"type {t} has no Coq rendering")


def join(a, b):
    if a == b:
        return a
    if a == BOT:
        return b
    if b == BOT:
        return a
    if a is None:
        return b
    if b is None:
        return a
    if is_list(a) and is_list(b):
        return lst(join(a[1], b[1]))
    return DYN


class E:
    """a translated expression: Coq term, type (None: any -- an `XErr`), eff (the term has type `xres <type>`)"""

    def __init__(self, term, ty, eff=False, const=None):
        self.term, self.ty, self.eff, self.const = term, ty, eff, const


def lift(e):
    return e if e.eff else E(f"XOk {paren(e.term)}", e.ty, True)


PYERR = ("ThresholdError", "TypeError", "ValueError", "KeyError", "RuntimeError", "MetricsParameterError", "NotImplementedError",
         "AttributeError", "AssertionError")
BUILTIN_EXC = ("TypeError", "ValueError", "KeyError", "RuntimeError", "NotImplementedError", "AttributeError", "AssertionError")


class Ctx:
    def __init__(self, fn, tree, done):
        self.fn, self.tree, self.done = fn, tree, done
        self.counter = 0
        self.depth = 0

    def fresh(self, hint="v"):
        self.counter += 1
        return f"{hint}{self.counter}"


class Env:
    def __init__(self, ctx):
        self.ctx = ctx
        self.vars = {}          # python local -> (Coq binder, type)
        self.fresh = set()      # locals holding a list created here (append allowed)
        self.escaped = set()    # ... that have been used as a value since

    def copy(self):
        e = Env(self.ctx)
        e.vars, e.fresh, e.escaped = dict(self.vars), set(self.fresh), set(self.escaped)
        return e


class Frame:
    def __init__(self, ret, loop=False):
        self.ret, self.loop = ret, loop


def binder(name):
    return "l_" + name


# =============================================================================================
# coercions
# =============================================================================================
def inj(term, ty, ctx, node=None):
    """static value -> pyval"""
    if ty == DYN:
        return term
    if ty == NAT:
        return f"py_of_nat {paren(term)}"
    if ty == BOOL:
        return f"Bool {paren(term)}"
    if is_list(ty):
        if ty[1] == DYN:
            return f"List {paren(term)}"
        if ty[1] == BOT:
            return "List []"
        x = ctx.fresh("x")
        return f"List (map (fun {x} => {inj(x, ty[1], ctx, node)}) {paren(term)})"
    fail(f"a {ty} cannot be used as a Python value", node)


def coerce_term(term, frm, to, ctx, node=None):
    if frm == to or frm is None:
        return term
    if to == DYN:
        return inj(term, frm, ctx, node)
    if is_list(frm) and is_list(to):
        if frm[1] == BOT:
            return f"(@nil {paren(coq_ty(to[1]))})"
        x = ctx.fresh("x")
        return f"map (fun {x} => {coerce_term(x, frm[1], to[1], ctx, node)}) {paren(term)}"
    fail(f"a {frm} is used where a {to} is needed", node)


def bind(e, ctx, k, hint="v"):
    """evaluate e, then k(pure term) -> E"""
    if not e.eff:
        return k(e.term)
    v = ctx.fresh(hint)
    body = k(v)
    return E(f"xbind {paren(e.term)} (fun {v} =>\n  {lift(body).term})", body.ty, True)


def seq(es, ctx, k):
    """evaluate the Es left to right, then k([pure terms]) -> E"""
    terms = []

    def go(i):
        if i == len(es):
            return k(list(terms))

        def nxt(t):
            terms.append(t)
            return go(i + 1)
        return bind(es[i], ctx, nxt)
    return go(0)


def coerce(e, to, ctx, node=None):
    if e.ty == to or e.ty is None:
        return e
    return bind(e, ctx, lambda t: E(coerce_term(t, e.ty, to, ctx, node), to))


def truthy(e, ctx, node=None):
    if e.ty == BOOL:
        return e
    if e.ty == DYN:
        return bind(e, ctx, lambda t: E(f"py_truthy {paren(t)}", BOOL))
    if e.ty == NAT:
        return bind(e, ctx, lambda t: E(f"negb (Nat.eqb {paren(t)} 0)", BOOL))
    if is_list(e.ty):
        return bind(e, ctx, lambda t: E(f"negb (Nat.eqb (length {paren(t)}) 0)", BOOL))
    fail(f"truthiness of a {e.ty}", node)


# =============================================================================================
# expressions
# =============================================================================================
ISINSTANCE = {"Real": "is_real", "list": "is_list", "str": "is_str", "tuple": "py_is_tuple", "bool": "py_is_bool"}


def lookup_name(node, env, escape=True):
    if node.id not in env.vars:
        fail(f"unknown name `{node.id}`", node)
    if escape and node.id in env.fresh:
        env.escaped.add(node.id)
    t, ty = env.vars[node.id]
    return E(t, ty)


def tr_noescape(node, env):
    """an operand that is only READ (len, iteration, any/all, return): a fresh list does not escape through it"""
    if isinstance(node, ast.Name):
        return lookup_name(node, env, escape=False)
    return tr(node, env)


def module_names(tree):
    """every name bound at module level (def / class / import / assignment): a builtin of that name is shadowed"""
    out = set()
    for n in tree.body:
        if isinstance(n, (ast.FunctionDef, ast.ClassDef, ast.AsyncFunctionDef)):
            out.add(n.name)
        elif isinstance(n, (ast.Import, ast.ImportFrom)):
            out |= {(a.asname or a.name).split(".")[0] for a in n.names}
        else:
            for m in ast.walk(n):
                if isinstance(m, ast.Name) and isinstance(m.ctx, ast.Store):
                    out.add(m.id)
    return out


def check_builtin(name, env, node):
    if name in env.vars or name in module_names(env.ctx.tree):
        fail(f"the builtin `{name}` is shadowed", node)


def module_function(ctx, name):
    fs = [n for n in ctx.tree.body if isinstance(n, ast.FunctionDef) and n.name == name]
    return fs[0] if len(fs) == 1 else None


def tr(node, env):
    ctx = env.ctx
    if isinstance(node, ast.Name):
        return lookup_name(node, env)
    if isinstance(node, ast.Constant):
        v = node.value
        if v is True or v is False:
            return E("true" if v else "false", BOOL, const=v)
        if v is None:
            return E("NoneV", DYN, const="None")
        if isinstance(v, int):
            if v < 0:
                fail("negative integer constant", node)
            return E(str(v), NAT, const=v)
        if isinstance(v, str):
            return E(f"Str {coq_str(v)}", DYN, const=v)
        fail(f"constant {v!r}", node)
    if isinstance(node, ast.BoolOp) or (isinstance(node, ast.UnaryOp) and isinstance(node.op, ast.Not)):
        return tr_bool(node, env, value=True)
    if isinstance(node, ast.Compare):
        return tr_compare(node, env)
    if isinstance(node, ast.IfExp):
        c = tr_bool(node.test, env)
        a, b = tr(node.body, env), tr(node.orelse, env)
        ty = join(a.ty, b.ty)
        a, b = coerce(a, ty, ctx, node), coerce(b, ty, ctx, node)
        if a.eff or b.eff:
            return bind(c, ctx, lambda t: E(f"(if {t} then {lift(a).term} else {lift(b).term})", ty, True))
        return bind(c, ctx, lambda t: E(f"(if {t} then {a.term} else {b.term})", ty))
    if isinstance(node, ast.List):
        es = [tr(x, env) for x in node.elts]
        if not es:
            return E("[]", lst(BOT))
        ty = es[0].ty
        for e in es[1:]:
            ty = join(ty, e.ty)
        es = [coerce(e, ty, ctx, node) for e in es]
        return seq(es, ctx, lambda ts: E("[" + "; ".join(ts) + "]", lst(ty)))
    if isinstance(node, ast.Tuple):
        es = [coerce(tr(x, env), DYN, ctx, node) for x in node.elts]
        return seq(es, ctx, lambda ts: E("Tuple [" + "; ".join(ts) + "]", DYN))
    if isinstance(node, ast.ListComp):
        return comp_gens(node.generators, node.elt, env)
    if isinstance(node, ast.BinOp):
        return tr_binop(node, env)
    if isinstance(node, ast.Subscript):
        a = tr_noescape(node.value, env)
        i = tr(node.slice, env)
        if i.ty != NAT:
            fail(f"subscript with a {i.ty} index", node)
        if a.ty == DYN:
            return seq([a, i], ctx, lambda ts: E(f"py_getitem {paren(ts[0])} {paren(ts[1])}", DYN, True))
        if is_list(a.ty) and a.ty[1] != BOT:
            return seq([a, i], ctx, lambda ts: E(f"match nth_error {paren(ts[0])} {paren(ts[1])} with Some x_ => XOk x_ | None => XErr IndexError end", a.ty[1], True))
        fail(f"subscript of a {a.ty}", node)
    if isinstance(node, ast.Call):
        return tr_call(node, env)
    fail(f"unsupported expression {type(node).__name__}: `{ast.unparse(node)[:60]}`", node)


def tr_binop(node, env):
    ctx = env.ctx
    a, b = tr(node.left, env), tr(node.right, env)
    if isinstance(node.op, ast.Mult):
        if is_list(a.ty) and b.ty == NAT:
            return seq([a, b], ctx, lambda ts: E(f"list_mul {paren(ts[0])} {paren(ts[1])}", a.ty))
        if a.ty == NAT and is_list(b.ty):
            return seq([a, b], ctx, lambda ts: E(f"list_mul {paren(ts[1])} {paren(ts[0])}", b.ty))
        if a.ty == DYN and b.ty == NAT:
            return seq([a, b], ctx, lambda ts: E(f"py_mul {paren(ts[0])} {paren(ts[1])}", DYN, True))
        if a.ty == NAT and b.ty == DYN:
            return seq([a, b], ctx, lambda ts: E(f"py_mul {paren(ts[1])} {paren(ts[0])}", DYN, True))
        if a.ty == NAT and b.ty == NAT:
            return seq([a, b], ctx, lambda ts: E(f"{paren(ts[0])} * {paren(ts[1])}", NAT))
        fail(f"`*` on {a.ty} and {b.ty}", node)
    if isinstance(node.op, ast.Add):
        if a.ty == NAT and b.ty == NAT:
            return seq([a, b], ctx, lambda ts: E(f"{paren(ts[0])} + {paren(ts[1])}", NAT))
        if is_list(a.ty) and is_list(b.ty):
            ty = join(a.ty, b.ty)
            return seq([coerce(a, ty, ctx, node), coerce(b, ty, ctx, node)], ctx, lambda ts: E(f"{paren(ts[0])} ++ {paren(ts[1])}", ty))
        fail(f"`+` on {a.ty} and {b.ty}", node)
    fail(f"operator {type(node.op).__name__}", node)       # `-` may leave the naturals


def tr_bool(node, env, value=False):
    """the TRUTH VALUE of an expression (value=True: the expression is used as a value, so its operands must be booleans)"""
    ctx = env.ctx
    if isinstance(node, ast.BoolOp):
        es = [tr_bool(v, env, value) for v in node.values]
        is_and = isinstance(node.op, ast.And)
        acc = es[-1]
        for e in reversed(es[:-1]):
            rest = acc

            def k(t, rest=rest):
                if not rest.eff:
                    return E(f"{paren(t)} {'&&' if is_and else '||'} {paren(rest.term)}", BOOL)
                if is_and:
                    return E(f"(if {t} then {rest.term} else XOk false)", BOOL, True)
                return E(f"(if {t} then XOk true else {rest.term})", BOOL, True)
            acc = bind(e, ctx, k, "b")
        return acc
    if isinstance(node, ast.UnaryOp) and isinstance(node.op, ast.Not):
        e = tr_bool(node.operand, env)
        return bind(e, ctx, lambda t: E(f"negb {paren(t)}", BOOL), "b")
    e = tr(node, env)
    if value and e.ty != BOOL:
        fail("`and` / `or` / `not` used as a VALUE on a non-boolean operand", node)
    return truthy(e, ctx, node)


def tr_compare(node, env):
    parts, left = [], node.left
    for op, right in zip(node.ops, node.comparators):
        parts.append(cmp1(op, left, right, env, node))
        left = right
    if len(parts) == 1:
        return parts[0]
    if any(p.eff for p in parts):
        fail("chained comparison with an operand that can raise", node)
    return E(" && ".join(paren(p.term) for p in parts), BOOL)


def is_none_const(n):
    return isinstance(n, ast.Constant) and n.value is None


def cmp1(op, ln, rn, env, node):
    ctx = env.ctx
    if isinstance(op, (ast.Is, ast.IsNot)):
        if is_none_const(rn) or is_none_const(ln):
            x = tr_noescape(ln if is_none_const(rn) else rn, env)
            neg = isinstance(op, ast.IsNot)
            if x.ty == DYN:
                return bind(x, ctx, lambda t: E(f"negb (is_none {paren(t)})" if neg else f"is_none {paren(t)}", BOOL))
            return bind(x, ctx, lambda t: E("true" if neg else "false", BOOL))       # a nat / bool / list is never None
        fail("`is` is only supported against None", node)
    if isinstance(op, (ast.In, ast.NotIn)):
        if is_none_const(ln) and isinstance(rn, (ast.Tuple, ast.List)) and rn.elts:
            # `None in (a, b)`: identity or equality with None -- only None equals None
            es = [coerce(tr_noescape(x, env), DYN, ctx, node) for x in rn.elts]
            neg = isinstance(op, ast.NotIn)

            def k(ts):
                t = " || ".join(f"is_none {paren(x)}" for x in ts)
                return E(f"negb ({t})" if neg else t, BOOL)
            return seq(es, ctx, k)
        fail("`in` is only supported as `None in (a, b, ..)`", node)
    a, b = tr_noescape(ln, env), tr_noescape(rn, env)
    if a.ty == NAT and b.ty == NAT:
        f = {ast.Eq: "Nat.eqb {0} {1}", ast.NotEq: "negb (Nat.eqb {0} {1})", ast.Lt: "Nat.ltb {0} {1}", ast.LtE: "Nat.leb {0} {1}",
             ast.Gt: "Nat.ltb {1} {0}", ast.GtE: "Nat.leb {1} {0}"}.get(type(op))
        if f is None:
            fail(f"comparison operator {type(op).__name__}", node)
        return seq([a, b], ctx, lambda ts: E(f.format(paren(ts[0]), paren(ts[1])), BOOL))
    if a.ty == BOOL and b.ty == BOOL and isinstance(op, (ast.Eq, ast.NotEq)):
        return seq([a, b], ctx, lambda ts: E(("negb (Bool.eqb {0} {1})" if isinstance(op, ast.NotEq) else "Bool.eqb {0} {1}").format(paren(ts[0]), paren(ts[1])), BOOL))
    fail(f"comparison of a {a.ty} with a {b.ty}", node)


def iter_items(node, env):
    """the items a `for` visits: E of type list T"""
    ctx = env.ctx
    x = tr_noescape(node, env)
    if is_list(x.ty):
        if x.ty[1] == BOT:
            fail("iteration over an empty display", node)
        return x
    if x.ty == DYN:
        return bind(x, ctx, lambda t: E(f"py_iter {paren(t)}", lst(DYN), True))
    fail(f"iteration over a {x.ty}", node)


def comp_gens(gens, elt, env):
    ctx = env.ctx
    g = gens[0]
    if g.is_async or not isinstance(g.target, ast.Name):
        fail("comprehension target is not a plain name", g.target)
    it = iter_items(g.iter, env)
    ety = it.ty[1]

    def body(items):
        e1 = env.copy()
        b = binder(g.target.id)
        e1.vars[g.target.id] = (b, ety)
        e1.fresh.discard(g.target.id)
        conds = [tr_bool(c, e1) for c in g.ifs]
        if len(gens) == 1:
            el = tr(elt, e1)
            if el.ty is None or el.ty == BOT:
                fail("comprehension element without a type", elt)
            if not conds:
                if el.eff:
                    return E(f"mmap (fun {b} => {el.term}) {paren(items)}", lst(el.ty), True)
                return E(f"map (fun {b} => {el.term}) {paren(items)}", lst(el.ty))
            if not el.eff and not any(c.eff for c in conds):
                c = " && ".join(paren(x.term) for x in conds)
                return E(f"map (fun {b} => {el.term}) (filter (fun {b} => {c}) {paren(items)})", lst(el.ty))
            inner = bind(el, ctx, lambda t: E(f"[{t}]", lst(el.ty)))
        else:
            inner = comp_gens(gens[1:], elt, e1)
        for c in reversed(conds):
            cur = inner
            nil = f"(@nil {paren(coq_ty(cur.ty[1]))})"
            if cur.eff:
                inner = bind(c, ctx, lambda t, cur=cur: E(f"(if {t} then {cur.term} else XOk {nil})", cur.ty, True), "b")
            else:
                inner = bind(c, ctx, lambda t, cur=cur: E(f"(if {t} then {cur.term} else {nil})", cur.ty), "b")
        if inner.eff:
            return E(f"mflat_map (fun {b} => {inner.term}) {paren(items)}", inner.ty, True)
        return E(f"flat_map (fun {b} => {inner.term}) {paren(items)}", inner.ty)
    return bind(it, ctx, body, "it")


def gen_quant(gens, elt, env, fb):
    """any / all over a generator expression -> E bool (short circuit: mexistsb / mforallb when something can raise)"""
    ctx = env.ctx
    neutral = "false" if fb == "existsb" else "true"
    g = gens[0]
    if g.is_async or not isinstance(g.target, ast.Name):
        fail("generator target is not a plain name", g.target)
    it = iter_items(g.iter, env)

    def body(items):
        e1 = env.copy()
        b = binder(g.target.id)
        e1.vars[g.target.id] = (b, it.ty[1])
        e1.fresh.discard(g.target.id)
        conds = [tr_bool(c, e1) for c in g.ifs]
        inner = tr_bool(elt, e1) if len(gens) == 1 else gen_quant(gens[1:], elt, e1, fb)
        for c in reversed(conds):
            cur = inner
            if cur.eff:
                inner = bind(c, ctx, lambda t, cur=cur: E(f"(if {t} then {cur.term} else XOk {neutral})", BOOL, True), "b")
            else:
                inner = bind(c, ctx, lambda t, cur=cur: E(f"(if {t} then {cur.term} else {neutral})", BOOL), "b")
        if inner.eff:
            return E(f"m{fb} (fun {b} => {inner.term}) {paren(items)}", BOOL, True)
        return E(f"{fb} (fun {b} => {inner.term}) {paren(items)}", BOOL)
    return bind(it, ctx, body, "it")


def tr_call(node, env):
    ctx = env.ctx
    f = node.func
    if isinstance(f, ast.Name):
        name = f.id
        if name in env.vars:
            fail(f"call of the local `{name}`", node)
        if name in ("isinstance", "len", "any", "all", "bool") and module_function(ctx, name) is None:
            check_builtin(name, env, node)
        if name == "isinstance" and len(node.args) == 2 and not node.keywords:
            x = coerce(tr_noescape(node.args[0], env), DYN, ctx, node)
            tn = node.args[1]
            tys = tn.elts if isinstance(tn, ast.Tuple) else [tn]
            preds = []
            for t in tys:
                if not isinstance(t, ast.Name) or t.id not in ISINSTANCE:
                    fail(f"isinstance against `{ast.unparse(t)}` cannot be expressed over pyval", node)
                if t.id == "Real":
                    check_import(ctx, "Real", "numbers", node)
                else:
                    check_builtin(t.id, env, node)
                preds.append(ISINSTANCE[t.id])
            if not preds:
                fail("isinstance against ()", node)
            return bind(x, ctx, lambda t: E(" || ".join(f"{p} {paren(t)}" for p in preds), BOOL))
        if name == "len" and len(node.args) == 1 and not node.keywords:
            x = tr_noescape(node.args[0], env)
            if is_list(x.ty):
                return bind(x, ctx, lambda t: E(f"length {paren(t)}", NAT))
            if x.ty == DYN:
                return bind(x, ctx, lambda t: E(f"py_len {paren(t)}", NAT, True))
            fail(f"len() of a {x.ty}", node)           # len(3): TypeError -- not needed
        if name in ("any", "all") and len(node.args) == 1 and not node.keywords:
            fb = "existsb" if name == "any" else "forallb"
            a = node.args[0]
            if isinstance(a, ast.GeneratorExp):
                # a generator is consumed lazily: `any` stops at the first true element (later elements / inner iterations
                # are not evaluated and cannot raise)
                return gen_quant(a.generators, a.elt, env, fb)
            x = tr_noescape(a, env)
            if x.ty == DYN:
                x = bind(x, ctx, lambda t: E(f"py_iter {paren(t)}", lst(DYN), True))
            if not is_list(x.ty):
                fail(f"{name}() of a {x.ty}", node)
            ety = x.ty[1]
            pred = {BOOL: "(fun b_ => b_)", DYN: "py_truthy", NAT: "(fun n_ => negb (Nat.eqb n_ 0))", BOT: "(fun b_ => b_)"}.get(ety)
            if pred is None:
                pred = "(fun l_ => negb (Nat.eqb (length l_) 0))"
            return bind(x, ctx, lambda t: E(f"{fb} {pred} {paren(t)}", BOOL), "it")
        if name == "bool" and len(node.args) == 1 and not node.keywords:
            return tr_bool(node.args[0], env)
        fd = module_function(ctx, name)
        if fd is not None:
            return call_function(fd, node, env)
        fail(f"call of `{name}`", node)
    fail(f"call of `{ast.unparse(f)[:50]}`", node)


def check_import(ctx, name, module, node):
    for n in ctx.tree.body:
        if isinstance(n, ast.ImportFrom) and n.module == module and any(a.name == name and a.asname in (None, name) for a in n.names):
            return
    fail(f"`{name}` is not imported from `{module}`", node)


def bind_arguments(fd, call, node):
    """positional / keyword arguments of a call -> {parameter: ast}"""
    a = fd.args
    if a.vararg or a.kwarg or a.kwonlyargs or a.posonlyargs:
        fail(f"{fd.name}: unsupported parameter kinds", node)
    names = [x.arg for x in a.args]
    got = {}
    if len(call.args) > len(names) or any(isinstance(x, ast.Starred) for x in call.args):
        fail(f"{fd.name}: too many / starred arguments", node)       # TypeError in Python
    for n, x in zip(names, call.args):
        got[n] = x
    for kw in call.keywords:
        if kw.arg is None or kw.arg not in names or kw.arg in got:
            fail(f"{fd.name}: bad keyword argument", node)
        got[kw.arg] = kw.value
    defaults = dict(zip(names[len(names) - len(a.defaults):], a.defaults))
    for n in names:
        if n not in got:
            if n not in defaults:
                fail(f"{fd.name}: missing argument `{n}`", node)
            if not isinstance(defaults[n], ast.Constant):
                fail(f"{fd.name}: the default of `{n}` is not a constant", node)
            got[n] = defaults[n]
    # the arguments are evaluated in the order of the CALL; the translation binds them in parameter order
    order = [n for n in names[:len(call.args)]] + [kw.arg for kw in call.keywords]
    if order != [n for n in names if n in order]:
        for kw in call.keywords:
            if any(isinstance(x, (ast.Call, ast.Subscript, ast.BinOp, ast.ListComp, ast.GeneratorExp)) for x in ast.walk(kw.value)):
                fail(f"{fd.name}: keyword arguments out of parameter order with an argument that computes", node)
    return names, got


def call_function(fd, call, env):
    ctx = env.ctx
    if fd.decorator_list:
        fail(f"{fd.name}: decorated function", call)
    names, got = bind_arguments(fd, call, call)
    args = [tr(got[n], env) for n in names]
    spec = SPECS_BY_FUNC.get((ctx.fn.file, None, fd.name))
    if spec is not None:
        if spec.name not in ctx.done:
            fail(f"depends on {spec.name} (not translated)", call)
        if [p for p, _ in spec.params] != names:
            fail(f"{fd.name}: parameters {names} differ from the specification", call)
        args = [coerce(a, ty, ctx, call) for a, (_, ty) in zip(args, spec.params)]
        return seq(args, ctx, lambda ts: E(f"Gen_{spec.name}.f " + " ".join(paren(t) for t in ts), spec.ret, True))
    # an extracted helper: inlined with the types of the actual arguments
    if ctx.depth >= 4:
        fail(f"helper calls nested too deeply at `{fd.name}`", call)

    def k(ts):
        e1 = Env(ctx)
        lets = []
        for n, t, a in zip(names, ts, args):
            ty = a.ty
            if ty == NAT and a.const is not None:
                e1.vars[n] = (t, ty)
                continue
            b = binder(n) + "_" + ctx.fresh("a")
            lets.append(f"let {b} := {t} in ")
            e1.vars[n] = (b, ty)
        ctx.depth += 1
        try:
            body = list(fd.body)
            seen = []

            def probe(e, en):
                seen.append(e.ty)
                return E("XOk tt", None, True)
            tr_block(body, e1.copy(), lambda en: probe(E("NoneV", DYN), en), Frame(probe))
            ty = None
            for s in seen:
                ty = join(ty, s)
            if ty is None:
                ty = DYN
            if ty == BOT or (is_list(ty) and ty[1] == BOT):
                ty = DYN if ty == BOT else ty

            def ret(e, en):
                return lift(coerce(e, ty, ctx, call))
            res = tr_block(body, e1, lambda en: ret(E("NoneV", DYN), en), Frame(ret))
        finally:
            ctx.depth -= 1
        return E("(" + "".join(lets) + res.term + ")", ty, True)
    return seq(args, ctx, k)


# =============================================================================================
# statements
# =============================================================================================
def has_node(stmts, kinds):
    return any(isinstance(n, kinds) for s in stmts for n in ast.walk(s))


def falls(ss):
    """can control reach the end of the block?  (syntactic, conservative: True when unsure)"""
    for s in ss:
        if isinstance(s, (ast.Return, ast.Raise)):
            return False
        if isinstance(s, ast.If) and s.orelse and not falls(s.body) and not falls(s.orelse):
            return False
    return True


def append_call(s):
    """`x.append(e)` as a statement -> (x, e)"""
    if isinstance(s, ast.Expr) and isinstance(s.value, ast.Call):
        c = s.value
        if isinstance(c.func, ast.Attribute) and c.func.attr == "append" and isinstance(c.func.value, ast.Name) and len(c.args) == 1 and not c.keywords:
            return c.func.value.id, c.args[0]
    return None


def assigned_names(stmts):
    out = []
    for s in stmts:
        for n in ast.walk(s):
            if isinstance(n, ast.Name) and isinstance(n.ctx, ast.Store) and n.id not in out:
                out.append(n.id)
            if isinstance(n, ast.Expr):
                ac = append_call(n)
                if ac and ac[0] not in out:
                    out.append(ac[0])
    # comprehension targets are local to the comprehension
    comp = {g.target.id for s in stmts for n in ast.walk(s) if isinstance(n, (ast.ListComp, ast.GeneratorExp)) for g in n.generators if isinstance(g.target, ast.Name)}
    plain = set()
    for s in stmts:
        for n in ast.walk(s):
            if isinstance(n, (ast.Assign, ast.AnnAssign, ast.For, ast.AugAssign)):
                tg = n.targets if isinstance(n, ast.Assign) else [n.target]
                plain |= {t.id for t in tg if isinstance(t, ast.Name)}
            ac = append_call(n) if isinstance(n, ast.Expr) else None
            if ac:
                plain.add(ac[0])
    return [v for v in out if v in plain or v not in comp]


def is_noop(s, tree=None):
    if isinstance(s, ast.Pass):
        return True
    if isinstance(s, ast.Expr):
        v = s.value
        if isinstance(v, ast.Constant) and isinstance(v.value, str):
            return True
        if isinstance(v, ast.Call):
            for a in list(v.args) + [k.value for k in v.keywords]:
                if any(isinstance(n, (ast.Call, ast.NamedExpr, ast.Await, ast.Yield, ast.YieldFrom, ast.Subscript, ast.BinOp)) for n in ast.walk(a)):
                    return False
            f = v.func
            if isinstance(f, ast.Name) and f.id == "print":
                return True
            if isinstance(f, ast.Attribute) and isinstance(f.value, ast.Name) and f.value.id in ("logging", "warnings"):
                return tree is None or any(isinstance(n, ast.Import) and any((a.asname or a.name) == f.value.id for a in n.names) for n in tree.body)
    return False


def exception_class(node, ctx):
    """`raise C(args)` / `raise C` -> (class name, argument nodes)"""
    exc = node.exc
    if exc is None or node.cause is not None:
        fail("bare `raise` / `raise .. from`", node)
    args = []
    if isinstance(exc, ast.Call):
        if exc.keywords:
            fail("keyword arguments of an exception", node)
        args, exc = exc.args, exc.func
    if not isinstance(exc, ast.Name) or exc.id not in PYERR:
        fail(f"raise of `{ast.unparse(exc)[:40]}` (not a class of Model/PyVal.pyerr)", node)
    name = exc.id
    if name not in BUILTIN_EXC:
        cs = [n for n in ctx.tree.body if isinstance(n, ast.ClassDef) and n.name == name]
        if len(cs) != 1:
            fail(f"exception class {name} is not defined in the module", node)
        c = cs[0]
        if [ast.unparse(b) for b in c.bases] != ["Exception"] or c.keywords or c.decorator_list:
            fail(f"exception class {name}: bases other than Exception", node)
        for m in c.body:
            if isinstance(m, ast.Expr) and isinstance(m.value, ast.Constant):
                continue
            if isinstance(m, ast.Pass):
                continue
            if isinstance(m, ast.FunctionDef) and m.name == "__init__":
                a = m.args
                if a.vararg or a.kwarg or a.kwonlyargs or a.defaults or len(a.args) != 1 + len(args):
                    fail(f"exception class {name}: __init__ does not take {len(args)} argument(s)", node)      # TypeError instead
                for st in m.body:
                    ok = isinstance(st, ast.Pass) or (isinstance(st, ast.Expr) and isinstance(st.value, ast.Constant))
                    if isinstance(st, ast.Expr) and isinstance(st.value, ast.Call) and ast.unparse(st.value.func) == "super().__init__":
                        ok = all(isinstance(x, ast.Name) for x in st.value.args) and not st.value.keywords
                    if not ok:
                        fail(f"exception class {name}: __init__ does more than calling super().__init__", node)
                continue
            fail(f"exception class {name}: unsupported member", node)
    return name, args


def message_effects(args, env):
    """the calls evaluated while the message of an exception is built: only `len(..)` is allowed (it can raise itself)"""
    es = []
    for a in args:
        for n in ast.walk(a):
            if isinstance(n, ast.Call):
                if isinstance(n.func, ast.Name) and n.func.id == "len" and len(n.args) == 1 and not n.keywords:
                    es.append(tr_call(n, env))
                else:
                    fail("a call other than len() inside an exception message", n)
            elif isinstance(n, ast.Name) and n.id not in env.vars and n.id != "len":
                fail(f"unknown name `{n.id}` in an exception message", n)       # NameError instead of the exception
            elif isinstance(n, (ast.Subscript, ast.BinOp, ast.Attribute, ast.Await, ast.NamedExpr, ast.Lambda)):
                fail("an exception message that computes", n)
    return es


def tr_block(ss, env, k, frame):
    """-> E (eff): the block, then k(env) when control reaches its end"""
    ctx = env.ctx
    if not ss:
        return k(env)
    s, rest = ss[0], ss[1:]
    if isinstance(s, (ast.FunctionDef, ast.ClassDef, ast.Import, ast.ImportFrom)):
        fail(f"nested {type(s).__name__}", s)
    if is_noop(s, ctx.tree):
        return tr_block(rest, env, k, frame)
    if isinstance(s, ast.Return):
        if frame.loop:
            fail("return inside a loop", s)
        if s.value is None:
            return frame.ret(E("NoneV", DYN), env)
        return frame.ret(tr_noescape(s.value, env), env)
    if isinstance(s, ast.Raise):
        name, args = exception_class(s, ctx)
        es = message_effects(args, env)
        return seq(es, ctx, lambda ts: E(f"XErr (Py {name})", None, True))
    if isinstance(s, ast.Assert):
        c = tr_bool(s.test, env)
        if s.msg is not None and message_effects([s.msg], env):
            fail("assert message that calls", s)
        r = tr_block(rest, env, k, frame)
        return bind(c, ctx, lambda t: E(f"(if {t} then {r.term} else XErr (Py AssertionError))", r.ty, True), "b")
    ac = append_call(s)
    if ac:
        name, arg = ac
        if name not in env.vars or name not in env.fresh or name in env.escaped:
            fail(f"`{name}.append(..)`: `{name}` is not a list created in this function that is still private to it", s)
        v = tr(arg, env)
        t0, ty0 = env.vars[name]
        ety = join(ty0[1], v.ty)

        def k2(t):
            e1 = env.copy()
            b = binder(name)
            e1.vars[name] = (b, lst(ety))
            old = coerce_term(t0, ty0, lst(ety), ctx, s)
            r = tr_block(rest, e1, k, frame)
            return E(f"let {b} := {old} ++ [{coerce_term(t, v.ty, ety, ctx, s)}] in\n  {r.term}", r.ty, True)
        return bind(v, ctx, k2)
    if isinstance(s, ast.AnnAssign) and s.value is None:
        return tr_block(rest, env, k, frame)
    if isinstance(s, (ast.Assign, ast.AnnAssign)):
        targets = s.targets if isinstance(s, ast.Assign) else [s.target]
        if len(targets) != 1 or not isinstance(targets[0], ast.Name):
            fail("assignment to something that is not one plain name", s)
        name = targets[0].id
        v = tr(s.value, env)
        if v.ty is None:
            fail("assignment of a value without a type", s)

        def k3(t):
            e1 = env.copy()
            b = binder(name)
            e1.vars[name] = (b, v.ty)
            e1.escaped.discard(name)
            if isinstance(s.value, (ast.List, ast.ListComp)):
                e1.fresh.add(name)
            else:
                e1.fresh.discard(name)
            if v.ty == lst(BOT):           # `xs = []`: the element type is fixed by the first use; no binder
                e1.vars[name] = ("[]", v.ty)
                return tr_block(rest, e1, k, frame)
            r = tr_block(rest, e1, k, frame)
            return E(f"let {b} := {t} in\n  {r.term}", r.ty, True)
        return bind(v, ctx, k3, binder(name) + "_")
    if isinstance(s, ast.If):
        return tr_if(s, rest, env, k, frame)
    if isinstance(s, ast.For):
        return tr_for(s, rest, env, k, frame)
    fail(f"unsupported statement {type(s).__name__}", s)


def state_pattern(names):
    if not names:
        return "_"
    if len(names) == 1:
        return binder(names[0])
    return "'(" + ", ".join(binder(n) for n in names) + ")"


def state_tuple(terms):
    if not terms:
        return "tt"
    if len(terms) == 1:
        return terms[0]
    return "(" + ", ".join(terms) + ")"


def tr_if(s, rest, env, k, frame):
    ctx = env.ctx
    c = tr_bool(s.test, env)

    def kk(e):
        return tr_block(rest, e, k, frame)
    both_fall = falls(s.body) and falls(s.orelse)
    if not both_fall or has_node([s], (ast.Return,)):
        # the continuation is inlined (once, unless both branches fall through around a nested return)
        a = tr_block(s.body, env.copy(), kk, frame)
        b = tr_block(s.orelse, env.copy(), kk, frame)
        return bind(c, ctx, lambda t: E(f"(if {t} then {a.term} else {b.term})", a.ty if a.ty is not None else b.ty, True), "b")
    # both branches fall through and neither returns: join the re-assigned locals
    names = assigned_names([s])
    seen = []

    def probe(e):
        seen.append(e)
        return E("XOk tt", None, True)
    tr_block(s.body, env.copy(), probe, frame)
    tr_block(s.orelse, env.copy(), probe, frame)
    live = [v for v in names if all(v in e.vars for e in seen)] if seen else []
    tys = []
    for v in live:
        ty = None
        for e in seen:
            ty = join(ty, e.vars[v][1])
        tys.append(ty)

    def kj(e):
        return E("XOk " + paren(state_tuple([coerce_term(e.vars[v][0], e.vars[v][1], ty, ctx, s) for v, ty in zip(live, tys)])), None, True)
    a = tr_block(s.body, env.copy(), kj, frame)
    b = tr_block(s.orelse, env.copy(), kj, frame)
    e1 = env.copy()
    for v in names:
        e1.vars.pop(v, None)
        e1.fresh.discard(v)
    for e in seen:
        e1.escaped |= e.escaped
    for v, ty in zip(live, tys):
        e1.vars[v] = (binder(v), ty)
    r = kk(e1)
    return bind(c, ctx, lambda t: E(f"xbind (if {t} then {a.term} else {b.term}) (fun {state_pattern(live)} =>\n  {r.term})", r.ty, True), "b")


def tr_for(s, rest, env, k, frame):
    ctx = env.ctx
    if s.orelse or not isinstance(s.target, ast.Name):
        fail("for .. else / a target that is not a plain name", s)
    if has_node(s.body, (ast.Return, ast.Break, ast.Continue, ast.While)):
        fail("return / break / continue inside a loop", s)
    tv = s.target.id
    names = [v for v in assigned_names(s.body) if v != tv]
    live = [v for v in names if v in env.vars]
    if isinstance(s.iter, ast.Name) and s.iter.id in names:
        fail("the iterated list is modified by the loop", s)
    it = iter_items(s.iter, env)
    ety = it.ty[1]
    tys = [env.vars[v][1] for v in live]
    escaped = set()
    for _ in range(5):
        e1 = env.copy()
        e1.vars[tv] = (binder(tv), ety)
        e1.fresh.discard(tv)
        for v, ty in zip(live, tys):
            e1.vars[v] = (binder(v), ty)
        seen = []

        def probe(e):
            seen.append(e)
            return E("XOk tt", None, True)
        tr_block(s.body, e1, probe, Frame(frame.ret, loop=True))
        new = list(tys)
        for e in seen:
            escaped |= e.escaped
            for i, v in enumerate(live):
                if v not in e.vars:
                    fail(f"`{v}` is not defined on every path of the loop body", s)
                new[i] = join(new[i], e.vars[v][1])
        if new == tys:
            break
        tys = new
    else:
        fail("the types of the loop variables do not stabilise", s)
    if any(ty == BOT or (is_list(ty) and ty[1] == BOT) for ty in tys):
        tys = [lst(DYN) if (is_list(ty) and ty[1] == BOT) else ty for ty in tys]

    def kj(e):
        return E("XOk " + paren(state_tuple([coerce_term(e.vars[v][0], e.vars[v][1], ty, ctx, s) for v, ty in zip(live, tys)])), None, True)
    e1 = env.copy()
    e1.vars[tv] = (binder(tv), ety)
    e1.fresh.discard(tv)
    for v, ty in zip(live, tys):
        e1.vars[v] = (binder(v), ty)
    body = tr_block(s.body, e1, kj, Frame(frame.ret, loop=True))
    init = state_tuple([coerce_term(env.vars[v][0], env.vars[v][1], ty, ctx, s) for v, ty in zip(live, tys)])
    e2 = env.copy()
    for v in names:
        if v not in live:
            e2.vars.pop(v, None)
    e2.vars.pop(tv, None)          # the loop variable is not used after the loop (it would be unbound for an empty list)
    e2.escaped |= escaped
    for v, ty in zip(live, tys):
        e2.vars[v] = (binder(v), ty)
    r = tr_block(rest, e2, k, frame)
    if len(live) == 1:
        fun = f"(fun {binder(live[0])} {binder(tv)} =>\n  {body.term})"
    elif not live:
        fun = f"(fun (_ : unit) {binder(tv)} =>\n  {body.term})"
    else:
        fun = f"(fun st_ {binder(tv)} => let {state_pattern(live)} := st_ in\n  {body.term})"

    def kf(items):
        return E(f"xbind (mfold {fun} {paren(items)} {paren(init)}) (fun {state_pattern(live)} =>\n  {r.term})", r.ty, True)
    return bind(it, ctx, kf, "it")


# =============================================================================================
# the functions
# =============================================================================================
class Fn:
    def __init__(self, name, file, func, params, ret, cls=None):
        self.name, self.file, self.func, self.params, self.ret, self.cls = name, file, func, params, ret, cls


TH = "common/threshold.py"


def specs():
    return [
        Fn("get_thresholds", TH, "__get_thresholds", [("threshold", DYN), ("num_elements", NAT)], DYN),
        Fn("get_nested_thresholds", TH, "__get_nested_thresholds", [("threshold", DYN), ("num_elements", NAT)], DYN),
        Fn("check_thresholds", TH, "check_thresholds", [("thresholds", DYN), ("num_elements", NAT)], DYN),
        Fn("check_nested_thresholds", TH, "check_nested_thresholds", [("thresholds", DYN), ("num_elements", NAT)], DYN),
        Fn("set_thresholds", TH, "set_thresholds", [("thresholds", DYN), ("target_objects_num", NAT), ("nest", BOOL)], DYN),
    ]


SPECS_BY_FUNC = {(f.file, f.cls, f.func): f for f in specs()}


def translate_function(fn, tree, done):
    f = find_function(tree, fn.cls, fn.func)
    if f.decorator_list:
        fail("decorated function")
    a = f.args
    if a.vararg or a.kwarg or a.kwonlyargs or a.posonlyargs:
        fail("unsupported parameter kinds")
    names = [x.arg for x in a.args]
    if fn.cls is not None:
        names = names[1:]
    if names != [p for p, _ in fn.params]:
        fail(f"parameters {names} differ from the specification {[p for p, _ in fn.params]}")
    for n in ast.walk(f):
        if isinstance(n, (ast.While, ast.Try, ast.With, ast.Lambda, ast.NamedExpr, ast.Global, ast.Nonlocal, ast.Delete, ast.AugAssign, ast.Yield, ast.YieldFrom, ast.Await)):
            fail(f"unsupported construct {type(n).__name__}", n)
    ctx = Ctx(fn, tree, done)
    env = Env(ctx)
    for p, ty in fn.params:
        env.vars[p] = (binder(p), ty)

    def ret(e, en):
        return lift(coerce(e, fn.ret, ctx, f))
    res = tr_block(list(f.body), env, lambda en: ret(E("NoneV", DYN), en), Frame(ret))
    ps = " ".join(f"({binder(p)} : {coq_ty(ty)})" for p, ty in fn.params)
    out = [f"Module Gen_{fn.name}.",
           f"(* {fn.file}: {(fn.cls + '.') if fn.cls else ''}{fn.func} *)",
           f"Definition f {ps} : xres {paren(coq_ty(fn.ret))} :=\n  {res.term}.",
           f"End Gen_{fn.name}."]
    return "\n".join(out)


HEADER = r"""(* GENERATED by translator/decisions_threshold.py from the Python source of /repo on every run -- do not edit.
   Part 1 (fixed text): the semantics of the Python operations on dynamically typed values, over Model/PyVal.pyval.
   Part 2: one module per function, `f` = its body.  Props/GenTieThreshold.v proves each `f` equal to the hand model. *)
From Coq Require Import String Ascii List Bool Arith ZArith.
From PE Require Import Base.QUtil Model.PyVal.
Import ListNotations.
Open Scope nat_scope.

(* ---- results: a value, or the class of the exception.  IndexError is not a class of Model/PyVal.pyerr *)
Inductive exn := Py (e : pyerr) | IndexError.
Inductive xres (A : Type) : Type := XOk (a : A) | XErr (e : exn).
Arguments XOk {A} a.
Arguments XErr {A} e.
Definition xbind {A B} (r : xres A) (f : A -> xres B) : xres B :=
  match r with XOk a => f a | XErr e => XErr e end.
(* the results of the hand models, embedded *)
Definition of_res {A} (r : res A) : xres A := match r with Ok a => XOk a | Err e => XErr (Py e) end.

(* ---- operations on a value of unknown type (TypeError where Python raises it) *)
Definition py_iter (v : pyval) : xres (list pyval) :=            (* for t in v *)
  match py_items v with Some l => XOk l | None => XErr (Py TypeError) end.
Definition py_len (v : pyval) : xres nat :=                      (* len(v) *)
  match py_items v with Some l => XOk (length l) | None => XErr (Py TypeError) end.
Definition py_getitem (v : pyval) (k : nat) : xres pyval :=      (* v[k], k >= 0 *)
  match py_items v with
  | Some l => match nth_error l k with Some x => XOk x | None => XErr IndexError end
  | None => XErr (Py TypeError)
  end.
Definition py_is_tuple (v : pyval) : bool := match v with Tuple _ => true | _ => false end.
Definition py_is_bool (v : pyval) : bool := match v with Bool _ => true | _ => false end.
Definition py_of_nat (n : nat) : pyval := Num (inject_Z (Z.of_nat n)).
Fixpoint str_mul (s : string) (n : nat) : string :=
  match n with 0 => EmptyString | S k => append s (str_mul s k) end.
Definition py_mul (v : pyval) (n : nat) : xres pyval :=          (* v * n, n a non-negative int *)
  match v with
  | List l => XOk (List (list_mul l n))
  | Tuple l => XOk (Tuple (list_mul l n))
  | Str s => XOk (Str (str_mul s n))
  | Num q => XOk (Num (q * inject_Z (Z.of_nat n)))
  | Bool b => XOk (Num ((if b then 1 else 0) * inject_Z (Z.of_nat n)))
  | NoneV => XErr (Py TypeError)
  end.

(* ---- comprehensions and loops whose element / body can raise: left to right, the first exception wins *)
Fixpoint mmap {A B} (f : A -> xres B) (l : list A) : xres (list B) :=
  match l with
  | [] => XOk []
  | a :: t => xbind (f a) (fun b => xbind (mmap f t) (fun bs => XOk (b :: bs)))
  end.
Fixpoint mflat_map {A B} (f : A -> xres (list B)) (l : list A) : xres (list B) :=
  match l with
  | [] => XOk []
  | a :: t => xbind (f a) (fun b => xbind (mflat_map f t) (fun bs => XOk (b ++ bs)))
  end.
Fixpoint mfold {S A} (f : S -> A -> xres S) (l : list A) (s : S) : xres S :=
  match l with
  | [] => XOk s
  | a :: t => xbind (f s a) (fun s' => mfold f t s')
  end.
(* any(.. for ..) / all(.. for ..) over a generator: elements after the deciding one are not evaluated *)
Fixpoint mexistsb {A} (f : A -> xres bool) (l : list A) : xres bool :=
  match l with
  | [] => XOk false
  | a :: t => xbind (f a) (fun b => if b then XOk true else mexistsb f t)
  end.
Fixpoint mforallb {A} (f : A -> xres bool) (l : list A) : xres bool :=
  match l with
  | [] => XOk true
  | a :: t => xbind (f a) (fun b => if b then mforallb f t else XOk false)
  end.
"""


def generate(repo):
    trees, out, bad, done = {}, [HEADER], {}, []
    for fn in specs():
        try:
            if fn.file not in trees:
                path = os.path.join(repo, PKG, fn.file)
                with open(path) as fh:
                    trees[fn.file] = ast.parse(fh.read(), filename=path)
            txt = translate_function(fn, trees[fn.file], done)
        except (TranslatorError, SyntaxError, OSError, RecursionError) as e:
            bad[fn.name] = f"{type(e).__name__}: {e}" if not isinstance(e, TranslatorError) else str(e)
        except Exception as e:  # noqa: BLE001 -- a defect of the translator itself must not look like a translation
            bad[fn.name] = f"internal error {type(e).__name__}: {e}"
        if fn.name in bad:
            out.append(f"(* {fn.name}: not translated: {bad[fn.name].replace('*)', '* )')} *)\n")
            continue
        done.append(fn.name)
        out.append(txt + "\n")
    out.append("Open Scope string_scope.")
    out.append("Definition translated : list string := [" + "; ".join(coq_str(n) for n in done) + "].")
    return "\n".join(out) + "\n", bad


def regenerate(repo, outdir):
    """Write <outdir>/decisions_threshold.v (only when the content changes).  {file: None} when every function was translated,
    else {file: "partial: f1: not translated: why; ..."}."""
    os.makedirs(outdir, exist_ok=True)
    txt, bad = generate(repo)
    path = os.path.join(outdir, OUT_NAME)
    old = None
    if os.path.exists(path):
        with open(path) as fh:
            old = fh.read()
    if old != txt:
        with open(path, "w") as fh:
            fh.write(txt)
    if not bad:
        return {OUT_NAME: None}
    return {OUT_NAME: "partial: " + "; ".join(f"{k}: not translated: {v}" for k, v in bad.items())}


if __name__ == "__main__":
    repo_ = sys.argv[1] if len(sys.argv) > 1 else "/repo"
    outdir_ = sys.argv[2] if len(sys.argv) > 2 else os.path.join(os.path.dirname(os.path.abspath(__file__)), "..", "coq", "theories", "Gen")
    try:
        st = regenerate(repo_, outdir_)
    except OSError as e_:
        print(f"{OUT_NAME}: could not be written: {e_}")
        sys.exit(1)
    for k_, v_ in st.items():
        print(f"{k_}: {'ok' if v_ is None else v_}")
    sys.exit(0)
