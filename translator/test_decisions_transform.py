#!/usr/bin/env python3
"""Self-test of translator/decisions_transform.py + coq/theories/Props/GenTieTransform.v (scheme of test_decisions_config.py).

  (1) unchanged /repo: translate, build the generated file, the lemma file, every theorem (closed under the global context) and the
      non-vacuity examples;
  (2) MUTANTS: small changes of the translated functions in a scratch copy (/tmp/gen_transform_scratch/<id>/): the translation still
      succeeds (or fails closed) and an equation stops checking -- unless the mutant is semantically equivalent, in which case it
      should still check;
  (3) REFACTORINGS: behaviour-preserving rewrites: translation + proofs should survive (or the translator fails closed).

Each theorem is compiled on its own (header + block); only theorems that mention a module whose generated text changed are
re-compiled.  usage: python3 translator/test_decisions_transform.py [--jobs N] [--only base|mutants|refactorings] [--keep] [ids..]
"""
import ast
import concurrent.futures as cf
import os
import re
import shutil
import subprocess
import sys
import textwrap
import time

HERE = os.path.dirname(os.path.abspath(__file__))
VERIF = os.path.dirname(HERE)
sys.path.insert(0, HERE)
import decisions_transform as dt  # noqa: E402

REPO = "/repo"
PKGDIR = os.path.join(REPO, "perception_eval", "perception_eval")
SCRATCH = "/tmp/gen_transform_scratch"
THEORIES = os.path.join(VERIF, "coq", "theories")
COQ_TIMEOUT = 900
FILES = [dt.TRANSFORM_PY, dt.SCHEMA_PY]
F = dt.TRANSFORM_PY

KI = ("TransformKey", "__init__")
KE = ("TransformKey", "__eq__")
KH = ("TransformKey", "__hash__")
DI = ("TransformDict", "__init__")
LK = ("TransformDict", "load_key")
GT = ("TransformDict", "get")
GI = ("TransformDict", "__getitem__")
SI = ("TransformDict", "__setitem__")
DL = ("TransformDict", "__delitem__")
TR = ("TransformDict", "transform")
HI = ("HomogeneousMatrix", "__init__")
DOT = ("HomogeneousMatrix", "dot")
INV = ("HomogeneousMatrix", "inv")

CANON = "        if not isinstance(key, TransformKey):\n            src, dst = key\n            key = self.load_key(src, dst)\n"

# (id, function, old, new, expected)      expected: "caught" | "equivalent"
MUTANTS = [
    # ---- transform: the decision
    ("M01", TR, "        if src == dst:\n", "        direct = self.get((src, dst))\n        if direct is None and src == dst:\n", "caught"),  # same-frame test AFTER the lookup
    ("M02", TR, CANON + "        src = key.src\n        dst = key.dst\n",
     "        if not isinstance(key, TransformKey):\n            src, dst = key\n            key = self.load_key(src, dst)\n        else:\n            src = key.src\n            dst = key.dst\n",
     "caught"),                                                                       # same-frame test on the RAW tuple (the repaired defect 891f58b)
    ("M03", TR, "matrix = self.get((src, dst))", "matrix = self.get((dst, src))", "caught"),      # direct lookup uses the inverse key
    ("M04", TR, "matrix = matrix.inv()", "matrix = matrix", "caught"),
    ("M05", TR, "matrix = self.get((dst, src))", "matrix = self.get((src, dst))", "caught"),      # inverse key built as (src, dst)
    ("M06", TR, "            if matrix is None:\n                # search", "            if matrix is not None:\n                # search", "caught"),
    ("M07", TR, 'raise KeyError(f"No transform', 'raise ValueError(f"No transform', "caught"),
    ("M08", TR, "if src == dst:", "if src != dst:", "caught"),
    ("M09", TR, "                if matrix is None:\n                    raise KeyError", "                if matrix is not None:\n                    raise KeyError", "caught"),
    ("M10", TR, "matrix = self.get((src, dst))", "matrix = self.get(key)", "caught"),   # a TransformKey with a raw str field is no longer re-canonicalised (_outside)
    ("M11", TR, "            elif s == 1:\n                return args[0]", "            elif s == 1:\n                return args", "caught"),
    ("M12", TR, 'elif "rotation" in kwargs:', 'elif "rotation" not in kwargs:', "caught"),
    ("M13", TR, "key = self.load_key(src, dst)", "key = self.load_key(dst, src)", "caught"),
    ("M14", TR, "dst = key.dst", "dst = key.src", "caught"),
    # ---- TransformKey
    ("M15", KE, "return self.src == other.src and self.dst == other.dst", "return self.src == other.src or self.dst == other.dst", "caught"),
    ("M16", KE, "return self.src == other_src and self.dst == other_dst", "return self.src == other_src or self.dst == other_dst", "caught"),
    ("M17", KE, "self.dst == other.dst", "self.dst == other.src", "caught"),
    ("M18", KE, "return False", "return True", "caught"),
    ("M19", KE, "isinstance(other, (tuple, list))", "isinstance(other, tuple)", "equivalent"),    # BLIND SPOT: the rendering does not tell a tuple from a list
    ("M20", KE, "other_src, other_dst = other", "other_dst, other_src = other", "caught"),
    ("M21", KI, "self.src = FrameID.from_value(src) if isinstance(src, str) else src", "self.src = src", "caught"),    # canonicalisation skipped
    ("M22", KI, "FrameID.from_value(dst) if isinstance(dst, str) else dst", "FrameID.from_value(dst) if isinstance(src, str) else dst", "caught"),
    ("M23", KI, "if isinstance(src, str)", "if not isinstance(src, str)", "caught"),
    ("M24", KI, "self.dst = FrameID.from_value(dst)", "self.dst = FrameID.from_value(src)", "caught"),
    ("M25", KH, "hash((self.src, self.dst))", "hash((self.dst, self.src))", "caught"),
    ("M26", KH, "hash((self.src, self.dst))", "hash((self.src, self.src))", "caught"),
    # ---- the dict entry points
    ("M27", GT, "if not isinstance(key, TransformKey):", "if isinstance(key, TransformKey):", "caught"),    # canonicalisation skipped: a raw tuple reaches the dict
    ("M28", GT, "key = self.load_key(src, dst)", "key = TransformKey(src, dst)", "equivalent"),
    ("M29", GT, "key = self.load_key(src, dst)", "key = self.load_key(dst, src)", "caught"),
    ("M30", GI, "return self.__data[key]", "return self.__data.get(key)", "caught"),          # None instead of KeyError
    ("M31", GI, "            key = self.load_key(src, dst)\n", "            key = key\n", "caught"),       # canonicalisation skipped
    ("M32", SI, "src, dst = key", "dst, src = key", "caught"),
    ("M33", DL, "key = self.load_key(src, dst)", "key = self.load_key(src, src)", "caught"),
    ("M34", LK, "return TransformKey(src, dst)", "return TransformKey(dst, src)", "caught"),
    ("M35", DI, "TransformKey(mat.src, mat.dst): mat", "TransformKey(mat.dst, mat.src): mat", "caught"),
    ("M36", DI, "self.__matrices = [matrices]", "self.__matrices = []", "caught"),
    # ---- HomogeneousMatrix
    ("M37", DOT, "if self.src != other.dst:", "if self.dst != other.src:", "caught"),         # label check flipped
    ("M38", DOT, "if self.src != other.dst:", "if self.src == other.dst:", "caught"),
    ("M39", DOT, "src=other.src, dst=self.dst", "src=self.dst, dst=other.src", "caught"),     # product labels swapped
    ("M40", DOT, "self.matrix.dot(other.matrix)", "other.matrix.dot(self.matrix)", "caught"),
    ("M41", DOT, "raise ValueError", "raise KeyError", "caught"),
    ("M42", INV, "src=self.dst, dst=self.src", "src=self.src, dst=self.dst", "caught"),
    ("M43", INV, "np.linalg.inv(self.matrix)", "self.matrix", "caught"),
    ("M44", HI, "self.dst = FrameID.from_value(dst) if isinstance(dst, str) else dst", "self.dst = FrameID.from_value(src) if isinstance(dst, str) else dst", "caught"),
    ("M45", HI, "self.src = FrameID.from_value(src) if isinstance(src, str) else src", "self.src = src", "caught"),
]

# (id, description, function, new source of the whole function (class-level indentation is added))
REFACTORINGS = [
    ("R01", "get: if / else with the canonical key in a separate local, dict.get without the explicit None", GT, '''
def get(self, key):
    if isinstance(key, TransformKey):
        canonical = key
    else:
        a, b = key
        canonical = self.load_key(a, b)
    return self.__data.get(canonical)
'''),
    ("R02", "transform: early returns (`if src != dst` first, `is not None` first), `inverse.inv().transform(..)` chained, "
            "`src, dst = key.src, key.dst`; the identity code after the lookup code", TR, None),
    ("R03", "__eq__: early returns, De Morgan on the key comparison", KE, '''
def __eq__(self, other):
    if isinstance(other, TransformKey):
        return not (self.src != other.src or self.dst != other.dst)
    if not isinstance(other, (tuple, list)):
        return False
    other_src, other_dst = other
    if self.src != other_src:
        return False
    return self.dst == other_dst
'''),
    ("R04", "dot: `not (a == b)`, the labels of the product in locals, positional constructor call", DOT, '''
def dot(self, other):
    if not (self.src == other.dst):
        raise ValueError("self.src != other.dst")
    new_src = other.src
    new_dst = self.dst
    product = self.matrix.dot(other.matrix)
    position, rotation = self.__extract_position_and_rotation_from_matrix(product)
    return HomogeneousMatrix(position, rotation, new_src, new_dst)
'''),
    ("R05", "TransformKey.__init__: conditional expressions -> if statements on the parameters", KI, '''
def __init__(self, src, dst):
    if isinstance(src, str):
        src = FrameID.from_value(src)
    if isinstance(dst, str):
        dst = FrameID.from_value(dst)
    self.src = src
    self.dst = dst
'''),
    ("R06", "__getitem__: the constructor called directly instead of load_key, the item in a local", GI, '''
def __getitem__(self, key):
    if not isinstance(key, TransformKey):
        src, dst = key
        key = TransformKey(src, dst)
    item = self.__data[key]
    return item
'''),
    ("R07", "__delitem__: `self.__data.pop(key)` (not in the vocabulary: fails closed)", DL, '''
def __delitem__(self, key):
    if not isinstance(key, TransformKey):
        src, dst = key
        key = self.load_key(src, dst)
    self.__data.pop(key)
'''),
    ("R08", "inv: the swapped labels in locals, the leaf result unpacked later", INV, '''
def inv(self):
    new_src, new_dst = self.dst, self.src
    ret_mat = np.linalg.inv(self.matrix)
    pr = self.__extract_position_and_rotation_from_matrix(ret_mat)
    position, rotation = pr
    return HomogeneousMatrix(position, rotation, src=new_src, dst=new_dst)
'''),
    ("R09", "transform: both lookups through a TransformKey built first (`self.get(TransformKey(src, dst))`)", TR, None),
    ("R10", "TransformDict.__init__: the isinstance branches reordered, `is not None` nesting", DI, '''
def __init__(self, matrices=None):
    if matrices is not None:
        if isinstance(matrices, (list, tuple)):
            self.__matrices = list(matrices)
        elif isinstance(matrices, HomogeneousMatrix):
            self.__matrices = [matrices]
        else:
            raise TypeError("Expected HomogeneousMatrix, sequence of them or None")
    else:
        self.__matrices = []
    self.__data = {TransformKey(mat.src, mat.dst): mat for mat in self.__matrices}
'''),
    ("R11", "__setitem__: the key canonicalised by a module-level helper function (not in the vocabulary: fails closed)", SI, '''
def __setitem__(self, key, value):
    self.__data[_canonical_key(key)] = value
'''),
]


def tr_variant(kind):
    def edit(src):
        src = strip_docstrings(src)
        a, b, f = func_span(src, TR[0], TR[1])
        seg = src[a:b]
        if kind == "R09":
            assert seg.count("matrix = self.get((src, dst))") == 1 and seg.count("matrix = self.get((dst, src))") == 1
            seg = seg.replace("matrix = self.get((src, dst))", "matrix = self.get(TransformKey(src, dst))")
            seg = seg.replace("matrix = self.get((dst, src))", "matrix = self.get(TransformKey(dst, src))")
            return src[:a] + seg + src[b:]
        i0 = seg.index("        if src == dst:\n")
        i1 = seg.index("        else:\n            matrix = self.get((src, dst))")
        ident = seg[i0 + len("        if src == dst:\n"):i1]
        head = seg[:seg.index("        src = key.src\n")]
        new = (head + "        src, dst = key.src, key.dst\n"
               "        if src != dst:\n"
               "            matrix = self.get((src, dst))\n"
               "            if matrix is not None:\n"
               "                return matrix.transform(*args, **kwargs)\n"
               "            inverse = self.get((dst, src))\n"
               "            if inverse is None:\n"
               '                raise KeyError("No transform matrix is registered")\n'
               "            return inverse.inv().transform(*args, **kwargs)\n"
               + textwrap.indent(textwrap.dedent(ident), "        "))
        return src[:a] + new + src[b:]
    return edit


def func_span(src, cls, func):
    tree = ast.parse(src)
    body = [n for n in tree.body if isinstance(n, ast.ClassDef) and n.name == cls][0].body
    fs = [n for n in body if isinstance(n, ast.FunctionDef) and n.name == func and "overload" not in [ast.unparse(d) for d in n.decorator_list]]
    assert len(fs) == 1, func
    f = fs[0]
    lines = src.splitlines(keepends=True)
    first = min([f.lineno] + [d.lineno for d in f.decorator_list])
    start = sum(len(x) for x in lines[:first - 1])
    end = sum(len(x) for x in lines[:f.end_lineno])
    return start, end, f


def strip_docstrings(src):
    tree = ast.parse(src)
    lines = src.splitlines(keepends=True)
    for n in ast.walk(tree):
        if isinstance(n, ast.FunctionDef) and n.body and isinstance(n.body[0], ast.Expr) and isinstance(n.body[0].value, ast.Constant) and isinstance(n.body[0].value.value, str):
            d = n.body[0]
            ind = " " * d.col_offset
            for i in range(d.lineno - 1, d.end_lineno):
                lines[i] = "\n"
            lines[d.lineno - 1] = ind + '"""doc."""\n'
    return "".join(lines)


def apply_edit(src, target, old, new):
    src = strip_docstrings(src)
    a, b, _ = func_span(src, target[0], target[1])
    seg = src[a:b]
    if seg.count(old) < 1:
        raise RuntimeError(f"anchor not found in {target[1]}: {old!r}")
    return src[:a] + seg.replace(old, new, 1) + src[b:]


def replace_function(src, target, new_src):
    src = strip_docstrings(src)
    a, b, _ = func_span(src, target[0], target[1])
    txt = textwrap.indent(textwrap.dedent(new_src).strip("\n") + "\n", "    ")
    out = src[:a] + txt + src[b:]
    if "_canonical_key" in new_src:
        out += "\n\ndef _canonical_key(key):\n    if isinstance(key, TransformKey):\n        return key\n    src, dst = key\n    return TransformKey(src, dst)\n"
    return out


def make_scratch(n):
    d = os.path.join(SCRATCH, str(n))
    shutil.rmtree(d, ignore_errors=True)
    for rel in FILES:
        dst = os.path.join(d, "repo", "perception_eval", "perception_eval", rel)
        os.makedirs(os.path.dirname(dst), exist_ok=True)
        shutil.copy(os.path.join(PKGDIR, rel), dst)
    os.makedirs(os.path.join(d, "coq"))
    return d


def to_scratch(txt):
    txt = txt.replace("From PE Require Import Gen.decisions_transform.", "From SCR Require Import decisions_transform.")
    txt = txt.replace("From PE Require Import Proofs.GenTieTransformLemmas.", "From SCR Require Import GenTieTransformLemmas.")
    assert "SCR" in txt
    return txt


def split_gentie():
    with open(os.path.join(THEORIES, "Props", "GenTieTransform.v")) as f:
        txt = to_scratch(f.read())
    m0 = re.search(r"(?m)^\(\* ---- ", txt)
    header = txt[:m0.start()]
    blocks = {}
    for m in re.finditer(r"(?ms)^Theorem (\w+)\b.*?^Print Assumptions \1\.", txt):
        blocks[m.group(1)] = m.group(0) + "\n"
    tail = txt[txt.index("(* ---- non-vacuity"):]
    return header, blocks, tail


def modules_of(text):
    return {m.group(1): m.group(2) for m in re.finditer(r"(?s)Module (Gen_\w+)\.(.*?)End \1\.", text)}


def coqc(args, cwd):
    try:
        p = subprocess.run(["timeout", str(COQ_TIMEOUT), "coqc"] + args, cwd=cwd, capture_output=True, text=True)
        return p.returncode, p.stdout + p.stderr
    except Exception as e:  # noqa: BLE001
        return 99, str(e)


def check_theorem(d, header, name, block):
    fn = os.path.join(d, "coq", f"T_{name}.v")
    with open(fn, "w") as f:
        f.write(header + block)
    t0 = time.time()
    rc, out = coqc(["-Q", THEORIES, "PE", "-Q", os.path.join(d, "coq"), "SCR", fn], os.path.join(d, "coq"))
    el = time.time() - t0
    if rc == 0 and "Closed under the global context" in out and "Axioms:" not in out:
        return name, "ok", el
    if rc == 124:
        return name, "timeout", el
    m = re.search(r"Error:\s*(.*)", out, re.S)
    return name, "FAILS: " + (" ".join(m.group(1).split())[:90] if m else f"rc={rc}"), el


def run_variant(n, edit, header, blocks, base_modules, examples=None):
    """edit: src -> src of common/transform.py (or None).  -> (translator status, {theorem: (result, seconds)}, dir)"""
    d = make_scratch(n)
    if edit is not None:
        path = os.path.join(d, "repo", "perception_eval", "perception_eval", F)
        with open(path) as f:
            src = f.read()
        new = edit(src)
        ast.parse(new)
        assert new != src
        with open(path, "w") as f:
            f.write(new)
    c = os.path.join(d, "coq")
    st = dt.regenerate(os.path.join(d, "repo"), c)[dt.OUT_NAME]
    with open(os.path.join(c, dt.OUT_NAME)) as f:
        mods = modules_of(f.read())
    rc, out = coqc(["-Q", THEORIES, "PE", "-Q", c, "SCR", dt.OUT_NAME], c)
    if rc != 0:
        return st, {"<generated file>": ("FAILS to compile: " + " ".join(out.split())[:200], 0)}, d
    with open(os.path.join(THEORIES, "Proofs", "GenTieTransformLemmas.v")) as f:
        lem = to_scratch(f.read())
    with open(os.path.join(c, "GenTieTransformLemmas.v"), "w") as f:
        f.write(lem)
    rc, out = coqc(["-Q", THEORIES, "PE", "-Q", c, "SCR", "GenTieTransformLemmas.v"], c)
    if rc != 0:
        return st, {"<lemma file>": ("FAILS to compile: " + " ".join(out.split())[:200], 0)}, d
    if base_modules is None:
        todo = list(blocks)
    else:
        changed = [m for m in base_modules if mods.get(m) != base_modules[m]]
        todo = [t for t, b in blocks.items() if any(re.search(r"\b" + re.escape(m) + r"\.", b) for m in changed)]
    res = {}
    for t in todo:
        name, r, el = check_theorem(d, header, t, blocks[t])
        res[name] = (r, el)
    if examples:
        fn = os.path.join(c, "T_examples.v")
        with open(fn, "w") as f:
            f.write(header + examples + "\n")
        t0 = time.time()
        rc, out = coqc(["-Q", THEORIES, "PE", "-Q", c, "SCR", fn], c)
        res["<non-vacuity examples>"] = ("ok" if rc == 0 else "FAILS: " + " ".join(out.split())[:120], time.time() - t0)
    return st, res, d


def bad_of(res):
    return [f"{k} [{v[0]}]" for k, v in res.items() if v[0] != "ok"]


def main():
    jobs = 3
    only = None
    keep = "--keep" in sys.argv
    if "--jobs" in sys.argv:
        jobs = int(sys.argv[sys.argv.index("--jobs") + 1])
    if "--only" in sys.argv:
        only = sys.argv[sys.argv.index("--only") + 1]
    ids = [a for a in sys.argv[1:] if re.fullmatch(r"[MR]\d\d", a)]
    shutil.rmtree(SCRATCH, ignore_errors=True)
    os.makedirs(SCRATCH)
    header, blocks, examples = split_gentie()
    failures = 0
    with cf.ThreadPoolExecutor(max_workers=jobs) as pool:
        t0 = time.time()
        st, res, d0 = run_variant("base", None, header, blocks, None, examples)
        with open(os.path.join(d0, "coq", dt.OUT_NAME)) as f:
            base_modules = modules_of(f.read())
        print(f"(1) UNCHANGED /repo: translation: {'all translated' if st is None else st}")
        for k, (r, el) in res.items():
            print(f"    {k:42s} {r}  ({el:.1f}s)")
        bad = bad_of(res)
        print(f"    -> {len(res) - len(bad)}/{len(res)} closed, {time.time() - t0:.0f}s")
        if bad or st is not None:
            failures += 1
        if only == "base":
            if not keep:
                shutil.rmtree(SCRATCH, ignore_errors=True)
            return failures
        if only in (None, "mutants"):
            print("\n(2) MUTANTS")
            tally = {"caught": 0, "caught (not translated)": 0, "equivalent, still proves": 0, "MISSED": 0, "equivalent but REJECTED": 0}
            todo = [m for m in MUTANTS if not ids or m[0] in ids]
            futs = [pool.submit(run_variant, m[0], (lambda s, f=m[1], o=m[2], n=m[3]: apply_edit(s, f, o, n)), header, blocks, base_modules) for m in todo]
            for (mid, target, old, new, expected), fut in zip(todo, futs):
                st, res, d = fut.result()
                bad = bad_of(res)
                if not res and not st:
                    verdict = ("MISSED" if expected == "caught" else "equivalent, still proves")
                    tally[verdict] += 1
                    verdict += " (generated text unchanged)"
                elif bad or st:
                    verdict = ("caught" + (" (not translated)" if st else "")) if expected == "caught" else "equivalent but REJECTED"
                    tally[verdict] += 1
                else:
                    verdict = "equivalent, still proves" if expected == "equivalent" else "MISSED"
                    tally[verdict] += 1
                tmax = max([v[1] for v in res.values()] + [0])
                print(f"  {mid} {verdict:30s} {target[0]}.{target[1]}: {' '.join(old.split())[:50]!r} -> {' '.join(new.split())[:50]!r}  [{tmax:.0f}s]")
                if st:
                    print(f"        translator: {st[:230]}")
                for b in bad:
                    print(f"        breaks: {b[:170]}")
                if not keep:
                    shutil.rmtree(d, ignore_errors=True)
            print("  tally:", tally)
            if tally["MISSED"] or tally["equivalent but REJECTED"]:
                failures += 1
        if only in (None, "refactorings"):
            print("\n(3) REFACTORINGS (behaviour preserving)")
            allr = []
            for rid, desc, target, new in REFACTORINGS:
                if new is None:
                    allr.append((rid, desc, target, tr_variant(rid)))
                else:
                    allr.append((rid, desc, target, (lambda s, f=target, n=new: replace_function(s, f, n))))
            allr = [r for r in allr if not ids or r[0] in ids]
            futs = [pool.submit(run_variant, rid, edit, header, blocks, base_modules) for rid, desc, target, edit in allr]
            survived = 0
            for (rid, desc, target, edit), fut in zip(allr, futs):
                st, res, d = fut.result()
                bad = bad_of(res)
                if bad and not st:
                    verdict = "translated, proof REJECTS"
                elif st:
                    verdict = "translator FAILS CLOSED"
                else:
                    verdict = "survives" + ("" if res else " (generated text identical)")
                    survived += 1
                tmax = max([v[1] for v in res.values()] + [0])
                print(f"  {rid} {verdict:28s} {desc}  [{len(res)} theorem(s) re-checked, slowest {tmax:.0f}s]")
                if st:
                    print(f"        translator: {st[:230]}")
                for b in bad:
                    print(f"        breaks: {b[:170]}")
                if not keep:
                    shutil.rmtree(d, ignore_errors=True)
            print(f"  {survived}/{len(allr)} refactorings survive")
    if not keep:
        shutil.rmtree(SCRATCH, ignore_errors=True)
    return 1 if failures else 0


if __name__ == "__main__":
    sys.exit(main())
