#!/usr/bin/env python3
"""Self-test of translator/decisions_geom.py + coq/theories/Props/GenTieGeom.v (same scheme as test_loops_sensing.py).

  (1) unchanged /repo: translate, build Gen/decisions_geom.v, Proofs/GenTieGeomLemmas.v and the whole Props/GenTieGeom.v (theorems
      closed, non-vacuity examples evaluate); every theorem also compiled on its own (header + that theorem), as the harness does;
  (2) MUTANTS: one-token changes (unless the description says otherwise) of the translated functions in a scratch copy
      (/tmp/gen_geom_scratch/<id>/): each must break an equation (named), or fail closed in the translator, or be semantically
      equivalent (the reason is in the table); a mutant that translates, is not equivalent and still proves is reported as MISSED
      (exit status 1);
  (3) REFACTORINGS: behaviour-preserving rewrites: survive / translator fails closed / translated but the proof rejects.

Each scratch copy compiles its own copy of Proofs/GenTieGeomLemmas.v against its own generated file; only the theorems that depend on a
module whose generated text changed are re-checked.
usage: python3 translator/test_decisions_geom.py [--jobs N] [--only base|mutants|refactorings] [--keep] [ids...]
"""
import ast
import concurrent.futures as cf
import os
import re
import shutil
import subprocess
import sys
import time

HERE = os.path.dirname(os.path.abspath(__file__))
VERIF = os.path.dirname(HERE)
sys.path.insert(0, HERE)
import decisions_geom as dg  # noqa: E402
from test_decisions import apply_edit, replace_function  # noqa: E402

REPO = "/repo"
PKGDIR = os.path.join(REPO, "perception_eval", "perception_eval")
SCRATCH = "/tmp/gen_geom_scratch"
THEORIES = os.path.join(VERIF, "coq", "theories")
COQ_TIMEOUT = 400
GEN = dg.MODNAME + ".v"

OPY, TPY, MPY, CPY = dg.OBJECT_PY, dg.TP_PY, dg.MATCH_PY, dg.COMMON_PY
DO, APH, AP, I3, I2, CD = "DynamicObject", "TPMetricsAph", "TPMetricsAp", "IOU3dMatching", "IOU2dMatching", "CenterDistanceMatching"
GV, HB, HE, PE, GD, GDB, CMS, HI, VI, DOBJ = "get_value", "get_heading_bev", "get_heading_error", "get_position_error", "get_distance", \
    "get_distance_bev", "_calculate_matching_score", "_get_height_intersection", "_get_volume_intersection", "distance_objects"

M_CLIP, M_HE, M_HB, M_AP, M_APH, M_HI, M_VI, M_I3, M_I2, M_I2R, M_CD, M_DO, M_PE, M_GD, M_GDB = (
    "Gen_get_heading_error__clip", "Gen_get_heading_error", "Gen_get_heading_bev", "Gen_TPMetricsAp_get_value", "Gen_TPMetricsAph_get_value",
    "Gen__get_height_intersection", "Gen__get_volume_intersection", "Gen_IOU3dMatching__calculate_matching_score",
    "Gen_IOU2dMatching__calculate_matching_score", "Gen_IOU2dMatching__calculate_matching_score_roi",
    "Gen_CenterDistanceMatching__calculate_matching_score", "Gen_distance_objects", "Gen_get_position_error", "Gen_get_distance",
    "Gen_get_distance_bev")
THEOREM_MODULES = {
    "GenTie_get_heading_error__clip": [M_CLIP],
    "GenTie_get_heading_error__clip_range": [M_CLIP],
    "GenTie_get_heading_error__clip_range_outside": [M_CLIP],
    "GenTie_get_heading_error": [M_HE, M_CLIP],
    "GenTie_get_heading_bev": [M_HB],
    "GenTie_get_heading_bev_wraps": [M_HB],
    "GenTie_get_heading_bev_wraps_outside": [M_HB],
    "GenTie_TPMetricsAp_get_value": [M_AP],
    "GenTie_TPMetricsAph_get_value": [M_APH, M_HB],
    "GenTie_TPMetricsAph_get_value_outside": [M_APH, M_HB],
    "GenTie__get_height_intersection": [M_HI],
    "GenTie__get_volume_intersection": [M_VI, M_HI],
    "GenTie_IOU3dMatching__calculate_matching_score": [M_I3, M_VI, M_HI],
    "GenTie_IOU3dMatching__calculate_matching_score_outside": [M_I3, M_VI, M_HI],
    "GenTie_IOU2dMatching__calculate_matching_score": [M_I2],
    "GenTie_IOU2dMatching__calculate_matching_score_outside": [M_I2],
    "GenTie_IOU2dMatching__calculate_matching_score_roi": [M_I2R],
    "GenTie_IOU2dMatching__calculate_matching_score_roi_outside": [M_I2R],
    "GenTie_CenterDistanceMatching__calculate_matching_score": [M_CD],
    "GenTie_distance_objects": [M_DO],
    "GenTie_get_position_error": [M_PE],
    "GenTie_get_distance": [M_GD],
    "GenTie_get_distance_bev": [M_GDB],
}

W1 = "trans_rots = float(np.where(trans_rots > math.pi, trans_rots - 2 * math.pi, trans_rots))"
W2 = "trans_rots = float(np.where(trans_rots < -math.pi, trans_rots + 2 * math.pi, trans_rots))"
# (id, file, class, function, old, new, expected, why)   expected: caught | closed (translator fails closed) | equivalent
MUTANTS = [
    # ---- TPMetricsAph.get_value
    ("A01", TPY, APH, GV, "if diff_heading > pi:", "if diff_heading >= pi:", "equivalent", "at a difference of exactly pi the fold 2pi - pi is pi again"),
    ("A02", TPY, APH, GV, "2.0 * pi - diff_heading", "pi - diff_heading", "caught", ""),
    ("A03", TPY, APH, GV, "is None:\n            return 0.0", "is None:\n            return 1.0", "caught", "the no-ground-truth value"),
    ("A04", TPY, APH, GV, "max(0.0, 1.0 - diff_heading / pi)", "max(0.0, 1.0 - diff_heading)", "closed", "a number minus an angle: not a rational multiple of a power of pi"),
    ("A05", TPY, APH, GV, "return min(1.0, max(0.0, 1.0 - diff_heading / pi))", "return 1.0 - diff_heading / pi", "caught",
     "the clamp dropped (several tokens): differs for headings outside [-pi, pi] only; the equation is for ALL inputs"),
    ("A06", TPY, APH, GV, "if frame_id != FrameID.BASE_LINK:", "if frame_id == FrameID.BASE_LINK:", "caught", "transforms built for the wrong frame"),
    ("A07", TPY, APH, GV, "gt_heading: float = object_result.ground_truth_object.get_heading_bev", "gt_heading: float = object_result.estimated_object.get_heading_bev",
     "caught", "the estimate compared with itself"),
    ("A08", TPY, APH, GV, "abs(pd_heading - gt_heading)", "(pd_heading - gt_heading)", "caught", "abs dropped"),
    ("A09", TPY, APH, GV, "max(0.0, 1.0", "max(0.5, 1.0", "caught", ""),
    ("A10", TPY, APH, GV, "return min(1.0, max(", "return max(1.0, max(", "caught", ""),
    ("A11", TPY, APH, GV, "if diff_heading > pi:", "if diff_heading > 2.0 * pi:", "caught", "the fold never happens"),
    ("A12", TPY, APH, GV, "diff_heading / pi))", "diff_heading / (2.0 * pi)))", "caught", ""),
    ("A13", TPY, APH, GV, "gt_heading: float = object_result.ground_truth_object.get_heading_bev(transforms)",
     "gt_heading: float = object_result.ground_truth_object.get_heading_bev()", "caught", "the ground truth's heading without the transforms"),
    ("A14", TPY, APH, GV, "if diff_heading > pi:", "if diff_heading > 3.14:", "closed", "an angle compared with a plain number"),
    # ---- TPMetricsAp.get_value
    ("T01", TPY, AP, GV, "return 1.0", "return 0.5", "caught", ""),
    # ---- DynamicObject.get_heading_bev
    ("B01", OPY, DO, HB, "-rots - math.pi / 2", "-rots + math.pi / 2", "caught", "the heading convention"),
    ("B02", OPY, DO, HB, "np.where(trans_rots > math.pi,", "np.where(trans_rots >= math.pi,", "caught", "+pi becomes -pi"),
    ("B03", OPY, DO, HB, "np.where(trans_rots < -math.pi,", "np.where(trans_rots <= -math.pi,", "caught", "-pi becomes +pi"),
    ("B04", OPY, DO, HB, "trans_rots + 2 * math.pi", "trans_rots + math.pi", "caught", ""),
    ("B05", OPY, DO, HB, "if self.frame_id == FrameID.BASE_LINK:", "if self.frame_id != FrameID.BASE_LINK:", "caught", "the frame branches swapped"),
    ("B06", OPY, DO, HB, "= -rots - math.pi / 2", "= rots - math.pi / 2", "caught", ""),
    ("B07", OPY, DO, HB, "        " + W1 + "\n", "", "caught",
     "the first wrap step dropped (a line): dead for a yaw of (-pi, pi] (GenTie_get_heading_bev_wraps), but the equation is for ALL inputs"),
    ("B08", OPY, DO, HB, 'raise ValueError("transforms must be specified.")', 'raise TypeError("transforms must be specified.")', "caught", ""),
    ("B09", OPY, DO, HB, "math.pi / 2", "math.pi / 4", "caught", ""),
    ("B10", OPY, DO, HB, "trans_rots - 2 * math.pi", "trans_rots - 2 * math.pi - 2 * math.pi", "caught", ""),
    ("B11", OPY, DO, HB, "            if transforms is None:\n                raise ValueError(\"transforms must be specified.\")\n", "", "closed",
     "the None test dropped: transforms used where it may be None"),
    # ---- get_heading_error and its inner _clip
    ("C01", OPY, DO, HE, "if err < -np.pi:", "if err <= -np.pi:", "caught", "-pi becomes +pi"),
    ("C02", OPY, DO, HE, "elif err > np.pi:", "elif err >= np.pi:", "caught", "+pi becomes -pi"),
    ("C03", OPY, DO, HE, "err += 2 * np.pi", "err -= 2 * np.pi", "caught", "the sign of a wrap step flipped"),
    ("C04", OPY, DO, HE, "            elif err > np.pi:\n                err -= 2 * np.pi\n", "", "caught", "one _clip branch dropped (two lines)"),
    ("C05", OPY, DO, HE, "err -= 2 * np.pi", "err -= np.pi", "caught", ""),
    ("C06", OPY, DO, HE, "_clip(yaw2 - yaw1)", "_clip(yaw1 - yaw2)", "caught", "the direction of the yaw error"),
    ("C07", OPY, DO, HE, "_clip(roll2 - roll1)", "_clip(pitch2 - pitch1)", "caught", ""),
    ("C08", OPY, DO, HE, "return (err_x, err_y, err_z)", "return (err_z, err_y, err_x)", "caught", ""),
    ("C09", OPY, DO, HE, "elif err > np.pi:", "if err > np.pi:", "equivalent", "after err < -pi the new err = err + 2pi is below pi: the second test cannot hold"),
    ("C10", OPY, DO, HE, "if err < -np.pi:", "if err < np.pi:", "caught", ""),
    ("C11", OPY, DO, HE, "err_z: float = _clip(yaw2 - yaw1)", "err_z: float = yaw2 - yaw1", "caught", "the yaw error is not wrapped"),
    # ---- _get_height_intersection / _get_volume_intersection
    ("H01", MPY, None, HI, "min_z = max(", "min_z = min(", "caught", "max / min swapped"),
    ("H02", MPY, None, HI, "max_z = min(", "max_z = max(", "caught", "min / max swapped"),
    ("H03", MPY, None, HI, "return max(0, max_z - min_z)", "return max_z - min_z", "caught", "the clip at 0 dropped"),
    ("H04", MPY, None, HI, "estimated_object.state.position[2] - estimated_object.state.size[2] / 2", "estimated_object.state.position[2] + estimated_object.state.size[2] / 2", "caught", ""),
    ("H05", MPY, None, HI, "estimated_object.state.size[2] / 2,\n        ground_truth_object.state.position[2] - ", "estimated_object.state.size[2],\n        ground_truth_object.state.position[2] - ", "caught", "the whole height instead of half"),
    ("H06", MPY, None, HI, "max(0, max_z - min_z)", "max(0, min_z - max_z)", "caught", ""),
    ("H07", MPY, None, HI, "ground_truth_object.state.position[2] - ground_truth_object.state.size[2] / 2", "estimated_object.state.position[2] - ground_truth_object.state.size[2] / 2", "caught", ""),
    ("H08", MPY, None, HI, "return max(0, max_z - min_z)", "return max(1, max_z - min_z)", "caught", ""),
    ("V01", MPY, None, VI, "area_intersection * height_intersection", "area_intersection + height_intersection", "caught", ""),
    ("V02", MPY, None, VI, "_get_height_intersection(estimated_object, ground_truth_object)", "_get_height_intersection(ground_truth_object, estimated_object)",
     "equivalent", "the height intersection is symmetric (up to ==)"),
    ("V03", MPY, None, VI, "return area_intersection * height_intersection", "return area_intersection", "caught", ""),
    # ---- IoU formulas
    ("I01", MPY, I3, CMS, "estimated_object_volume + ground_truth_object_volume - intersection", "estimated_object_volume + ground_truth_object_volume", "caught", "the union written as a + b"),
    ("I02", MPY, I3, CMS, "intersection / union", "union / intersection", "caught", ""),
    ("I03", MPY, I3, CMS, "is None:\n            return 0.0", "is None:\n            return 1.0", "caught", "the no-ground-truth value (the _outside companion)"),
    ("I04", MPY, I3, CMS, "if ground_truth_object is None:", "if ground_truth_object is not None:", "closed", "the ground truth is used where it is None"),
    ("I05", MPY, I3, CMS, "ground_truth_object_volume: float = ground_truth_object.get_volume()", "ground_truth_object_volume: float = estimated_object.get_volume()", "caught", ""),
    ("I06", MPY, I3, CMS, "+ ground_truth_object_volume - intersection", "- ground_truth_object_volume - intersection", "caught", ""),
    ("J01", MPY, I2, CMS, "estimated_object_area + ground_truth_object_area - intersection_area", "estimated_object_area + ground_truth_object_area + intersection_area", "caught", ""),
    ("J02", MPY, I2, CMS, "intersection_area / union_area", "intersection_area / estimated_object_area", "caught", ""),
    ("J03", MPY, I2, CMS, "if isinstance(estimated_object, DynamicObject):", "if not isinstance(estimated_object, DynamicObject):", "closed", "get_area() of a 3D object / get_area_bev() of a 2D object: not in the vocabulary"),
    ("J04", MPY, I2, CMS, "estimated_object_area + ground_truth_object_area - intersection_area", "estimated_object_area + ground_truth_object_area", "caught", "the union written as a + b"),
    ("J05", MPY, I2, CMS, "is None:\n            return 0.0", "is None:\n            return 1.0", "caught", ""),
    # ---- centre distance
    ("D01", MPY, CD, CMS, "            return None", "            return 0.0", "caught", "the no-ground-truth value"),
    ("D02", CPY, None, DOBJ, "if type(object_1) != type(object_2):", "if type(object_1) == type(object_2):", "caught", ""),
    ("D03", CPY, None, DOBJ, "raise TypeError(", "raise ValueError(", "caught", ""),
    ("D04", CPY, None, DOBJ, "if isinstance(object_1, DynamicObject):", "if not isinstance(object_1, DynamicObject):", "caught", ""),
    # ---- positions
    ("P01", OPY, DO, PE, "abs(other.state.position[0] - self.state.position[0])", "abs(other.state.position[1] - self.state.position[0])", "caught", ""),
    ("P02", OPY, DO, PE, "abs(other.state.position[2] - self.state.position[2])", "(other.state.position[2] - self.state.position[2])", "caught", "abs dropped"),
    ("G01", OPY, DO, GD, "if self.frame_id == FrameID.BASE_LINK:", "if self.frame_id != FrameID.BASE_LINK:", "caught", ""),
    ("G02", OPY, DO, GDB, "math.hypot(position[0], position[1])", "math.hypot(position[0], position[2])", "caught", ""),
    ("G03", OPY, DO, GDB, "raise ValueError(", "raise TypeError(", "caught", ""),
]

# (id, description, file, class, function, new source of the whole function)
REFACTORINGS = [
    ("F01", "TPMetricsAph.get_value: the None test inverted, frame test inverted, the getters called in the other order, the fold as pi + (pi - d), the rate named",
     TPY, APH, GV, """
def get_value(self, object_result: DynamicObjectWithPerceptionResult) -> float:
    if object_result.ground_truth_object is not None:
        frame_id = object_result.estimated_object.frame_id
        if frame_id == FrameID.BASE_LINK:
            transforms = None
        else:
            transforms = TransformDict([HomogeneousMatrix.from_matrix(np.eye(4), frame_id, FrameID.BASE_LINK)])
        gt_heading = object_result.ground_truth_object.get_heading_bev(transforms)
        pd_heading = object_result.estimated_object.get_heading_bev(transforms)
        diff_heading = abs(gt_heading - pd_heading)
        if pi < diff_heading:
            diff_heading = pi + (pi - diff_heading)
        rate = 1.0 - diff_heading / pi
        return min(1.0, max(0.0, rate))
    return 0.0
"""),
    ("F02", "get_heading_bev: the frame branches swapped, np.where as if statements, -(rots + pi/2), +=", OPY, DO, HB, """
def get_heading_bev(self, transforms=None):
    if self.frame_id != FrameID.BASE_LINK:
        if transforms is None:
            raise ValueError("transforms must be specified.")
        _, rotation = transforms.transform((self.frame_id, FrameID.BASE_LINK), self.state.position, self.state.orientation)
        rots = rotation.yaw_pitch_roll[0]
    else:
        rots = self.state.orientation.yaw_pitch_roll[0]
    trans_rots = -(rots + math.pi / 2)
    if trans_rots > math.pi:
        trans_rots = trans_rots - 2 * math.pi
    if trans_rots < -math.pi:
        trans_rots += 2 * math.pi
    return trans_rots
"""),
    ("F03", "get_heading_error: _clip with early returns and the tests in the other order, the triples named, the result built in place",
     OPY, DO, HE, """
def get_heading_error(self, other):
    def _clip(err):
        if err > np.pi:
            return err - 2 * np.pi
        if err < -np.pi:
            return err + 2 * np.pi
        return err

    if other is None:
        return None
    ypr1 = self.state.orientation.yaw_pitch_roll
    ypr2 = other.state.orientation.yaw_pitch_roll
    return (_clip(ypr2[2] - ypr1[2]), _clip(ypr2[1] - ypr1[1]), _clip(ypr2[0] - ypr1[0]))
"""),
    ("F04", "_get_height_intersection: half heights named, top before bottom, the difference named", MPY, None, HI, """
def _get_height_intersection(estimated_object, ground_truth_object):
    est_half = estimated_object.state.size[2] / 2
    gt_half = ground_truth_object.state.size[2] / 2
    top = min(estimated_object.state.position[2] + est_half, ground_truth_object.state.position[2] + gt_half)
    bottom = max(estimated_object.state.position[2] - est_half, ground_truth_object.state.position[2] - gt_half)
    height = top - bottom
    return max(0, height)
"""),
    ("F05", "IOU3dMatching._calculate_matching_score: the None test inverted, the union commuted and inlined", MPY, I3, CMS, """
def _calculate_matching_score(self, estimated_object, ground_truth_object, transforms=None):
    if ground_truth_object is not None:
        intersection = _get_volume_intersection(estimated_object, ground_truth_object)
        union = ground_truth_object.get_volume() + estimated_object.get_volume() - intersection
        return intersection / union
    return 0.0
"""),
    ("F06", "IOU2dMatching._calculate_matching_score: the quotient inlined, a - (i - b) for the union", MPY, I2, CMS, """
def _calculate_matching_score(self, estimated_object, ground_truth_object, transforms=None):
    if ground_truth_object is None:
        return 0.0
    if isinstance(estimated_object, DynamicObject):
        estimated_object_area = estimated_object.get_area_bev()
        ground_truth_object_area = ground_truth_object.get_area_bev()
    else:
        estimated_object_area = estimated_object.get_area()
        ground_truth_object_area = ground_truth_object.get_area()
    intersection_area = _get_area_intersection(estimated_object, ground_truth_object)
    return intersection_area / (estimated_object_area - (intersection_area - ground_truth_object_area))
"""),
    ("F07", "distance_objects: the type test inverted with the raise at the end", CPY, None, DOBJ, """
def distance_objects(object_1, object_2):
    if type(object_1) == type(object_2):
        if isinstance(object_1, DynamicObject):
            return distance_points(object_1.state.position, object_2.state.position)
        return np.linalg.norm(np.array(object_1.roi.center) - np.array(object_2.roi.center))
    raise TypeError("objects' type must be same")
"""),
    ("F08", "get_distance: the frame test inverted with early returns", OPY, DO, GD, """
def get_distance(self, transforms=None):
    if self.frame_id != FrameID.BASE_LINK:
        if transforms is None:
            raise ValueError("transforms must be specified.")
        return np.linalg.norm(transforms.transform((self.frame_id, FrameID.BASE_LINK), self.state.position))
    return np.linalg.norm(self.state.position)
"""),
    ("F09", "get_heading_bev: the two wrap steps as one conditional expression each, 0.5 * pi", OPY, DO, HB, """
def get_heading_bev(self, transforms=None):
    if self.frame_id == FrameID.BASE_LINK:
        rots, _, _ = self.state.orientation.yaw_pitch_roll
    else:
        if transforms is None:
            raise ValueError("transforms must be specified.")
        _, rotation = transforms.transform((self.frame_id, FrameID.BASE_LINK), self.state.position, self.state.orientation)
        rots, _, _ = rotation.yaw_pitch_roll
    trans_rots = -rots - 0.5 * math.pi
    trans_rots = trans_rots - 2 * math.pi if trans_rots > math.pi else trans_rots
    trans_rots = trans_rots + 2 * math.pi if trans_rots < -math.pi else trans_rots
    return trans_rots
"""),
    ("F10", "get_heading_bev: the wrap by a modulo (another algorithm for the same function on (-pi, pi])", OPY, DO, HB, """
def get_heading_bev(self, transforms=None):
    if self.frame_id == FrameID.BASE_LINK:
        rots, _, _ = self.state.orientation.yaw_pitch_roll
    else:
        if transforms is None:
            raise ValueError("transforms must be specified.")
        _, rotation = transforms.transform((self.frame_id, FrameID.BASE_LINK), self.state.position, self.state.orientation)
        rots, _, _ = rotation.yaw_pitch_roll
    return (-rots - math.pi / 2 + math.pi) % (2 * math.pi) - math.pi
"""),
]


# ---------------------------------------------------------------------------------------------------------------------
def needed_files():
    out = {fn.file for fn in dg.specs()}
    for fn in dg.specs():
        for spec in fn.calls.values():
            if spec.sig is not None:
                out.add(spec.sig[0])
    return sorted(out)


def make_scratch(n):
    d = os.path.join(SCRATCH, str(n))
    shutil.rmtree(d, ignore_errors=True)
    for rel in needed_files():
        dst = os.path.join(d, "repo", "perception_eval", "perception_eval", rel)
        os.makedirs(os.path.dirname(dst), exist_ok=True)
        shutil.copy(os.path.join(PKGDIR, rel), dst)
    os.makedirs(os.path.join(d, "coq"))
    return d


REQ_GEN = "From PE Require Gen.decisions_geom.\nImport Gen.decisions_geom."
REQ_SCR = "From SCR Require decisions_geom.\nImport decisions_geom."


def scratch_lemmas():
    with open(os.path.join(THEORIES, "Proofs", "GenTieGeomLemmas.v")) as f:
        txt = f.read()
    assert REQ_GEN in txt
    return txt.replace(REQ_GEN, REQ_SCR)


def split_gentie():
    with open(os.path.join(THEORIES, "Props", "GenTieGeom.v")) as f:
        txt = f.read()
    a = "From PE Require Import Base.QUtil Proofs.GenTieGeomLemmas."
    assert a in txt and REQ_GEN in txt
    whole = txt.replace(a, "From PE Require Import Base.QUtil.\nFrom SCR Require Import GenTieGeomLemmas.").replace(REQ_GEN, REQ_SCR)
    m0 = re.search(r"^\(\* ---- ", whole, flags=re.M)
    header, blocks = whole[:m0.start()], {}
    for m in re.finditer(r"(?ms)^Theorem (\w+)\b.*?^Print Assumptions \1\.", whole):
        blocks[m.group(1)] = m.group(0) + "\n"
    assert set(blocks) == set(THEOREM_MODULES), (sorted(set(blocks) ^ set(THEOREM_MODULES)))
    return whole, header, blocks


def modules_of(text):
    return {m.group(1): m.group(2) for m in re.finditer(r"(?s)Module (Gen_\w+)\.(.*?)End \1\.", text)}


def coqc(args, cwd):
    try:
        p = subprocess.run(["timeout", str(COQ_TIMEOUT), "coqc"] + args, cwd=cwd, capture_output=True, text=True)
        return p.returncode, p.stdout + p.stderr
    except Exception as e:  # noqa: BLE001
        return 99, str(e)


def check_text(d, name, text, nthm):
    fn = os.path.join(d, "coq", f"T_{name}.v")
    with open(fn, "w") as f:
        f.write(text)
    t0 = time.time()
    rc, out = coqc(["-Q", THEORIES, "PE", "-Q", os.path.join(d, "coq"), "SCR", fn], os.path.join(d, "coq"))
    dt = time.time() - t0
    if rc == 0 and out.count("Closed under the global context") == nthm and "Axioms:" not in out:
        return "ok", dt
    if rc == 124:
        return "timeout", dt
    m = re.search(r"Error:\s*(.*)", out, re.S)
    return "FAILS: " + (" ".join(m.group(1).split())[:110] if m else f"rc={rc}"), dt


def run_variant(n, edits, header, blocks, base_modules):
    """-> (translator status, {theorem: (result, seconds)}, scratch dir)"""
    d = make_scratch(n)
    for rel, fn in edits:
        path = os.path.join(d, "repo", "perception_eval", "perception_eval", rel)
        with open(path) as f:
            src = f.read()
        new = fn(src)
        ast.parse(new)
        assert new != src, "the edit changes nothing"
        with open(path, "w") as f:
            f.write(new)
    st = dg.regenerate(os.path.join(d, "repo"), os.path.join(d, "coq"))[GEN]
    with open(os.path.join(d, "coq", GEN)) as f:
        mods = modules_of(f.read())
    if base_modules is None:
        todo = list(blocks)
    else:
        changed = [m for m in base_modules if mods.get(m) != base_modules[m]]
        todo = [t for t in blocks if any(m in changed for m in THEOREM_MODULES[t])]
    if not todo:
        return st, {}, d
    cq = os.path.join(d, "coq")
    rc, out = coqc(["-Q", THEORIES, "PE", "-Q", cq, "SCR", GEN], cq)
    if rc != 0:
        return st, {"<" + GEN + ">": ("FAILS to compile: " + " ".join(out.split())[:200], 0)}, d
    with open(os.path.join(cq, "GenTieGeomLemmas.v"), "w") as f:
        f.write(scratch_lemmas())
    rc, out = coqc(["-Q", THEORIES, "PE", "-Q", cq, "SCR", "GenTieGeomLemmas.v"], cq)
    if rc != 0:
        return st, {"<GenTieGeomLemmas.v>": ("FAILS to compile: " + " ".join(out.split())[:200], 0)}, d
    res = {}
    for t in todo:
        missing = [m for m in THEOREM_MODULES[t] if m not in mods]
        if missing:
            res[t] = ("LOST: " + ", ".join(missing) + " not translated", 0)
        else:
            res[t] = check_text(d, t, header + blocks[t], 1)
    return st, res, d


def main():
    jobs = 4
    only = None
    keep = "--keep" in sys.argv
    if "--jobs" in sys.argv:
        jobs = min(4, int(sys.argv[sys.argv.index("--jobs") + 1]))
    if "--only" in sys.argv:
        only = sys.argv[sys.argv.index("--only") + 1]
    ids = [a for a in sys.argv[1:] if re.fullmatch(r"[A-Z]\d\d", a)]
    shutil.rmtree(SCRATCH, ignore_errors=True)
    os.makedirs(SCRATCH)
    whole, header, blocks = split_gentie()
    failures = 0
    # ---- (1) unchanged repo
    t0 = time.time()
    st, res, d0 = run_variant("base", [], header, blocks, None)
    with open(os.path.join(d0, "coq", GEN)) as f:
        base_modules = modules_of(f.read())
    print(f"(1) UNCHANGED /repo: translation: {'all translated' if st is None else st}")
    for k, (r, dt) in res.items():
        print(f"    {k:60s} {r}  ({dt:.1f}s)")
    bad = [k for k, v in res.items() if v[0] != "ok"]
    r, dt = check_text(d0, "whole_file", whole, len(blocks))
    print(f"    {'<the whole file, with the non-vacuity examples>':60s} {r}  ({dt:.1f}s)")
    print(f"    -> {len(res) - len(bad)}/{len(res)} theorems closed, {time.time() - t0:.0f}s")
    if bad or st is not None or r != "ok":
        failures += 1
    if only == "base":
        if not keep:
            shutil.rmtree(SCRATCH, ignore_errors=True)
        return failures
    with cf.ThreadPoolExecutor(max_workers=jobs) as pool:
        # ---- (2) mutants
        if only in (None, "mutants"):
            print("\n(2) MUTANTS")
            tally = {}
            todo = [m for m in MUTANTS if not ids or m[0] in ids]
            futs = [pool.submit(run_variant, m[0], [(m[1], (lambda s, c=m[2], f=m[3], o=m[4], n=m[5]: apply_edit(s, c, f, o, n)))],
                                header, blocks, base_modules) for m in todo]
            for (mid, rel, cls, func, old, new, expected, why), fut in zip(todo, futs):
                try:
                    st, res, d = fut.result()
                except Exception as e:  # noqa: BLE001
                    print(f"  {mid} ERROR {type(e).__name__}: {e}")
                    failures += 1
                    continue
                badt = [f"{k} [{v[0]}]" for k, v in res.items() if v[0] != "ok"]
                if st:
                    verdict = "fails closed (translator)"
                    okv = expected in ("closed", "caught", "equivalent")
                elif not res:
                    verdict = "generated text unchanged" + (" (equivalent)" if expected == "equivalent" else "")
                    okv = expected == "equivalent"
                elif badt:
                    verdict = "caught" if expected != "equivalent" else "equivalent, proof script rejects"
                    okv = True
                else:
                    verdict = "equivalent, still proves" if expected == "equivalent" else "MISSED"
                    okv = expected == "equivalent"
                if expected == "equivalent" and st:
                    verdict = "equivalent, fails closed"
                if expected == "closed" and not st:
                    verdict += " (expected to fail closed)"
                if expected == "caught" and st:
                    verdict += " (expected to break an equation)"
                tally[verdict] = tally.get(verdict, 0) + 1
                if not okv:
                    failures += 1
                    verdict += "  <<<<<< UNEXPECTED"
                desc = f"{func}: {' '.join((old or '').split())[:58]!r} -> {' '.join((new or '').split())[:58]!r}"
                print(f"  {mid} {verdict:34s} {desc}  ({sum(v[1] for v in res.values()):.0f}s)", flush=True)
                if why:
                    print(f"        note: {why}")
                if st:
                    print(f"        translator: {st[:260]}")
                for b in badt:
                    print(f"        breaks: {b[:190]}")
                if not keep:
                    shutil.rmtree(d, ignore_errors=True)
            print("  tally:", tally)
        # ---- (3) refactorings
        if only in (None, "refactorings"):
            print("\n(3) REFACTORINGS (behaviour preserving)")
            survived = 0
            allr = [r for r in REFACTORINGS if not ids or r[0] in ids]
            futs = [pool.submit(run_variant, rid, [(rel, (lambda s, c=cls, f=func, n=new: replace_function(s, c, f, n)))],
                                header, blocks, base_modules)
                    for (rid, desc, rel, cls, func, new) in allr]
            for (rid, desc, rel, cls, func, new), fut in zip(allr, futs):
                try:
                    st, res, d = fut.result()
                except Exception as e:  # noqa: BLE001
                    print(f"  {rid} ERROR {type(e).__name__}: {e}")
                    failures += 1
                    continue
                badt = [f"{k} [{v[0]}]" for k, v in res.items() if v[0] != "ok"]
                if st:
                    verdict = "translator FAILS CLOSED"
                elif badt:
                    verdict = "translated, proof REJECTS"
                else:
                    verdict = "survives" + ("" if res else " (generated text identical)")
                    survived += 1
                print(f"  {rid} {verdict:28s} {desc}  [{len(res)} theorem(s) re-checked]")
                if st:
                    print(f"        translator: {st[:260]}")
                for b in badt:
                    print(f"        breaks: {b[:190]}")
                if not keep:
                    shutil.rmtree(d, ignore_errors=True)
            print(f"  {survived}/{len(allr)} refactorings survive")
    if not keep:
        shutil.rmtree(SCRATCH, ignore_errors=True)
    return 1 if failures else 0


if __name__ == "__main__":
    sys.exit(main())
