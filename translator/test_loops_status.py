#!/usr/bin/env python3
"""Self-test of translator/loops_status.py + coq/theories/Props/GenTieStatus.v (same scheme as test_loops_classif.py).

  (1) unchanged /repo: translate, build Gen/loops_status.v, Proofs/GenTieStatusLemmas.v and the whole Props/GenTieStatus.v (theorems
      closed, non-vacuity examples evaluate);
  (2) MUTANTS: one-token changes of common/status.py in a scratch copy (/tmp/gen_status_scratch/<id>/): each must break an equation
      (named), or fail closed in the translator, or be semantically equivalent (the reason is in the table; for an equivalent mutant
      both "survives" and "the proof rejects it" are accepted: the proofs compare terms); a mutant that translates, is not equivalent
      and still proves is reported as MISSED (exit status 1);
  (3) REFACTORINGS: behaviour-preserving rewrites: survive / translator fails closed / translated but the proof rejects.

Every scratch copy compiles its own generated file and its own copy of Proofs/GenTieStatusLemmas.v (logical prefix SCR); each theorem
of GenTieStatus.v is compiled on its own (header + `Theorem .. Print Assumptions`), as harness/lib/core.gen_tie does.
usage: python3 translator/test_loops_status.py [--jobs N] [--keep] [ids...]
"""
import concurrent.futures as cf
import os
import re
import shutil
import subprocess
import sys
import time

HERE = os.path.dirname(os.path.abspath(__file__))
VERIF = os.path.dirname(HERE)
sys.path.insert(0, HERE)
import loops_status as ls  # noqa: E402
from test_decisions import apply_edit, replace_function  # noqa: E402

REPO = "/repo"
PKG = os.path.join("perception_eval", "perception_eval")
SCRATCH = "/tmp/gen_status_scratch"
THEORIES = os.path.join(VERIF, "coq", "theories")
COQ_TIMEOUT = 300
SR, GS = "StatusRate", "GroundTruthStatus"

# (id, class, function, old, new, expected, why)   expected: caught | closed (translator fails closed) | equivalent
MUTANTS = [
    # ---- add_status
    ("A01", GS, "add_status", "self.tp_frame_nums.append(frame_num)", "self.fp_frame_nums.append(frame_num)", "caught", "a TP goes to the FP list"),
    ("A02", GS, "add_status", "        self.total_frame_nums.append(frame_num)\n", "", "caught", "the total append dropped"),
    ("A03", GS, "add_status", "elif status == MatchingStatus.TN:", "elif status == MatchingStatus.FN:", "caught", "a FN goes to the TN list, a TN raises"),
    ("A04", GS, "add_status", "raise ValueError", "raise TypeError", "caught", "another exception class"),
    ("A05", GS, "add_status", "if status == MatchingStatus.TP:", "if status != MatchingStatus.TP:", "caught", ""),
    ("A06", GS, "add_status", "self.total_frame_nums.append(frame_num)", "self.total_frame_nums.append(status)", "closed", "a status in a frame-number list"),
    ("A07", GS, "add_status", "self.fn_frame_nums.append(frame_num)", "self.tn_frame_nums.append(frame_num)", "caught", "a FN goes to the TN list"),
    # ---- StatusRate
    ("R01", SR, "__get_rate", "num_status_frames / num_total_frames", "num_total_frames / num_status_frames", "caught", "numerator and denominator swapped"),
    ("R02", SR, "__get_rate", "if num_status_frames != 0.0 and", "if num_status_frames == 0.0 and", "caught", ""),
    ("R03", SR, "__get_rate", "and num_total_frames != 0.0", "or num_total_frames != 0.0", "caught", "ZeroDivisionError for an empty total"),
    ("R04", SR, "__get_rate", 'else float("inf")', "else 0.0", "caught", ""),
    ("R05", SR, "__get_rate", "if num_status_frames != 0.0 and num_total_frames != 0.0", "if num_total_frames != 0.0", "caught",
     "0 / n becomes 0.0 (what one would expect of a rate) -- the source returns inf"),
    ("R06", SR, "__get_num_status_frames", "len(self.status_frame_nums)", "len(self.total_frame_nums)", "caught", ""),
    ("R07", SR, "__get_rate", "and num_total_frames != 0.0", "and num_total_frames > 0.0", "equivalent", "a length is never negative"),
    ("R08", SR, "__init__", "self.status_frame_nums = status_frame_nums", "self.status_frame_nums = total_frame_nums", "caught", ""),
    # ---- get_status_rates
    ("G01", GS, "get_status_rates", "StatusRate(MatchingStatus.FP, self.fp_frame_nums,", "StatusRate(MatchingStatus.FP, self.tp_frame_nums,", "caught", ""),
    ("G02", GS, "get_status_rates", "MatchingStatus.TN, self.tn_frame_nums, self.total_frame_nums", "MatchingStatus.TN, self.total_frame_nums, self.tn_frame_nums",
     "caught", "numerator and denominator lists swapped"),
    ("G03", GS, "get_status_rates", "StatusRate(MatchingStatus.FN, self.fn_frame_nums", "StatusRate(MatchingStatus.TN, self.fn_frame_nums", "caught", ""),
    # ---- get_scene_rates
    ("S01", None, "get_scene_rates", "num_tp_frame += len(status.tp_frame_nums)", "num_tp_frame += len(status.fp_frame_nums)", "caught", "a sum over the wrong list"),
    ("S02", None, "get_scene_rates", "if num_total_frame == 0:", "if num_total_frame != 0:", "caught", "divides exactly when the total is 0"),
    ("S03", None, "get_scene_rates", "num_tp_frame / num_total_frame", "num_total_frame / num_tp_frame", "caught", ""),
    ("S04", None, "get_scene_rates", "            num_fp_frame / num_total_frame,", "            num_fn_frame / num_total_frame,", "caught", ""),
    ("S05", None, "get_scene_rates", "num_total_frame: int = 0", "num_total_frame: int = 1", "caught", ""),
    ("S06", None, "get_scene_rates", 'return float("inf"), float("inf"),', 'return 0.0, float("inf"),', "caught", ""),
    ("S07", None, "get_scene_rates", "for status in status_list:", "for status in status_list[1:]:", "closed", "a slice is not translated"),
    ("S08", None, "get_scene_rates", "if num_total_frame == 0:", "if num_tp_frame == 0:", "caught", "the guard no longer dominates the divisions"),
    ("S09", None, "get_scene_rates", "if num_total_frame == 0:", "if num_total_frame <= 0:", "equivalent", "a sum of lengths is never negative"),
    ("S10", None, "get_scene_rates", "num_total_frame += len(status.total_frame_nums)", "num_total_frame += len(status.tn_frame_nums)", "caught", ""),
    # ---- tool/utils.py get_area_idx
    ("P01", None, "get_area_idx", "(x < upper_rights[:, 0])", "(x <= upper_rights[:, 0])", "caught", "`<` to `<=` in the area test: a point on a grid line gets an area"),
    ("P02", None, "get_area_idx", "(x > bottom_lefts[:, 0])", "(x > bottom_lefts[:, 1])", "caught", "x against the y column"),
    ("P03", None, "get_area_idx", "(y > upper_rights[:, 1])", "(y < upper_rights[:, 1])", "caught", ""),
    ("P04", None, "get_area_idx", "if any(is_x_inside * is_y_inside) is False:", "if any(is_x_inside + is_y_inside) is False:", "caught",
     "`or` in the emptiness test: ValueError of .item() instead of None"),
    ("P05", None, "get_area_idx", "is False:", "is True:", "caught", ""),
    ("P06", None, "get_area_idx", "np.where(is_x_inside * is_y_inside)", "np.where(is_x_inside * is_x_inside)", "caught", ""),
    ("P07", None, "get_area_idx", "return None", "return 0", "caught", ""),
    ("P08", None, "get_area_idx", "TransformKey(frame_id, FrameID.BASE_LINK)", "TransformKey(frame_id, FrameID.MAP)", "closed",
     "the statements that obtain (x, y) are pinned"),
    ("P09", None, "get_area_idx", "[0].item()", "[1].item()", "closed", ""),
    ("P10", None, "get_area_idx", "(y < bottom_lefts[:, 1])", "(y < upper_rights[:, 1])", "caught", ""),
    # ---- MatchingStatus (the vocabulary of `status == MatchingStatus.X`)
    ("E01", None, None, 'TP = "TP"', 'TP = "tp"', "closed", "the string value of a member is part of what `==` means"),
]

# (id, description, class, function, new source of the whole function)
REFACTORINGS = [
    ("F01", "add_status: nested if / else, the tests in another order, bare returns", GS, "add_status", """
def add_status(self, status, frame_num):
    self.total_frame_nums.append(frame_num)
    if status == MatchingStatus.FN:
        self.fn_frame_nums.append(frame_num)
        return
    if status == MatchingStatus.TN:
        self.tn_frame_nums.append(frame_num)
    else:
        if status == MatchingStatus.FP:
            self.fp_frame_nums.append(frame_num)
        elif MatchingStatus.TP == status:
            self.tp_frame_nums.append(frame_num)
        else:
            raise ValueError("Unexpected status")
"""),
    ("F02", "__get_rate: early return instead of the conditional expression", SR, "__get_rate", """
def __get_rate(self) -> float:
    num_status_frames = self.__get_num_status_frames()
    num_total_frames = self.__get_num_total_frames()
    if num_status_frames == 0 or num_total_frames == 0:
        return float("inf")
    return num_status_frames / num_total_frames
"""),
    ("F03", "get_scene_rates: n = n + ..., the test inverted", None, "get_scene_rates", """
def get_scene_rates(status_list):
    num_total_frame = 0
    num_tp_frame = 0
    num_fp_frame = 0
    num_tn_frame = 0
    num_fn_frame = 0
    for status in status_list:
        num_total_frame = num_total_frame + len(status.total_frame_nums)
        num_tp_frame = num_tp_frame + len(status.tp_frame_nums)
        num_fp_frame = num_fp_frame + len(status.fp_frame_nums)
        num_tn_frame = num_tn_frame + len(status.tn_frame_nums)
        num_fn_frame = num_fn_frame + len(status.fn_frame_nums)
    if num_total_frame != 0:
        return (
            num_tp_frame / num_total_frame,
            num_fp_frame / num_total_frame,
            num_tn_frame / num_total_frame,
            num_fn_frame / num_total_frame,
        )
    inf = float("inf")
    return inf, inf, inf, inf
"""),
    ("F04", "get_status_rates: locals", GS, "get_status_rates", """
def get_status_rates(self):
    total = self.total_frame_nums
    tp = StatusRate(MatchingStatus.TP, self.tp_frame_nums, total)
    fp = StatusRate(status=MatchingStatus.FP, status_frame_nums=self.fp_frame_nums, total_frame_nums=total)
    tn = StatusRate(MatchingStatus.TN, self.tn_frame_nums, total_frame_nums=total)
    fn = StatusRate(MatchingStatus.FN, self.fn_frame_nums, total)
    return (tp, fp, tn, fn)
"""),
    ("F05", "rate: a local", SR, "rate", """
def rate(self) -> float:
    value = self.__get_rate()
    return value
"""),
    ("F07", "get_area_idx: the product computed once, `not any(..)`, operands of the comparisons swapped", None, "get_area_idx", """
def get_area_idx(object_result, upper_rights, bottom_lefts, transforms):
    if isinstance(object_result, DynamicObject):
        frame_id: FrameID = object_result.frame_id
        position: np.ndarray = np.array(object_result.state.position)
    elif isinstance(object_result, DynamicObjectWithPerceptionResult):
        frame_id: FrameID = object_result.estimated_object.frame_id
        position: np.ndarray = np.array(object_result.estimated_object.state.position)
    else:
        raise TypeError(f"Unexpected object type: {type(object_result)}")

    transform_key = TransformKey(frame_id, FrameID.BASE_LINK)
    x, y, _ = transforms.transform(transform_key, position)
    is_inside = (upper_rights[:, 0] > x) * (bottom_lefts[:, 0] < x) * ((y > upper_rights[:, 1]) * (y < bottom_lefts[:, 1]))
    if not any(is_inside):
        return None
    return np.where(is_inside)[0].item()
"""),
    ("F06", "get_scene_rates: the loop written as sum(...) over comprehensions", None, "get_scene_rates", """
def get_scene_rates(status_list):
    num_total_frame = sum(len(s.total_frame_nums) for s in status_list)
    if num_total_frame == 0:
        return float("inf"), float("inf"), float("inf"), float("inf")
    return (
        sum(len(s.tp_frame_nums) for s in status_list) / num_total_frame,
        sum(len(s.fp_frame_nums) for s in status_list) / num_total_frame,
        sum(len(s.tn_frame_nums) for s in status_list) / num_total_frame,
        sum(len(s.fn_frame_nums) for s in status_list) / num_total_frame,
    )
"""),
]


def sh(cmd, cwd=None, timeout=COQ_TIMEOUT):
    try:
        p = subprocess.run(["timeout", str(timeout)] + cmd, cwd=cwd, stdout=subprocess.PIPE, stderr=subprocess.STDOUT, text=True)
        return p.returncode, p.stdout
    except Exception as e:  # noqa: BLE001
        return 1, str(e)


def scratch_texts():
    with open(os.path.join(THEORIES, "Proofs", "GenTieStatusLemmas.v")) as f:
        lem = f.read()
    with open(os.path.join(THEORIES, "Props", "GenTieStatus.v")) as f:
        tie = f.read()
    a, b = "From PE Require Gen.loops_status.\nImport Gen.loops_status.", "From SCR Require loops_status.\nImport loops_status."
    assert a in lem and a in tie
    lem, tie = lem.replace(a, b), tie.replace(a, b)
    c = "From PE Require Import Base.QUtil Proofs.GenTieStatusLemmas."
    assert c in tie
    tie = tie.replace(c, "From PE Require Import Base.QUtil.\nFrom SCR Require Import GenTieStatusLemmas.")
    m0 = re.search(r"^\(\* ---- ", tie, flags=re.M)
    head = tie[:m0.start()]
    blocks = {m.group(1): m.group(0) for m in re.finditer(r"^Theorem (\w+)\b.*?^Print Assumptions \1\.", tie, flags=re.M | re.S)}
    return lem, head, blocks


def file_of(func):
    return ls.UTILS_PY if func == "get_area_idx" else ls.STATUS_PY


def run_case(cid, rel, edit):
    """-> (outcome, detail): outcome in closed | survives | broken"""
    d = os.path.join(SCRATCH, cid)
    shutil.rmtree(d, ignore_errors=True)
    os.makedirs(os.path.join(d, "coq"))
    for r in (ls.STATUS_PY, ls.UTILS_PY):
        os.makedirs(os.path.dirname(os.path.join(d, "repo", PKG, r)), exist_ok=True)
        with open(os.path.join(REPO, PKG, r)) as f:
            src = f.read()
        with open(os.path.join(d, "repo", PKG, r), "w") as f:
            f.write(edit(src) if r == rel else src)
    txt, bad = ls.generate(os.path.join(d, "repo"))
    if bad:
        return "closed", "; ".join(f"{k}: {v}" for k, v in bad.items())
    lem, head, blocks = scratch_texts()
    c = os.path.join(d, "coq")
    with open(os.path.join(c, "loops_status.v"), "w") as f:
        f.write(txt)
    with open(os.path.join(c, "GenTieStatusLemmas.v"), "w") as f:
        f.write(lem)
    base = ["coqc", "-Q", THEORIES, "PE", "-Q", c, "SCR"]
    for fn in ("loops_status.v", "GenTieStatusLemmas.v"):
        rc, out = sh(base + [os.path.join(c, fn)], cwd=c)
        if rc != 0:
            return "broken", f"{fn} does not compile: " + out[-300:].replace("\n", " ")
    lost = []
    for name, blk in blocks.items():
        p = os.path.join(c, f"T_{name}.v")
        with open(p, "w") as f:
            f.write(head + "\n" + blk + "\n")
        rc, out = sh(base + [p], cwd=c)
        if not (rc == 0 and "Closed under the global context" in out and "Axioms:" not in out):
            lost.append(name)
    return ("broken", ", ".join(lost)) if lost else ("survives", "")


def base_check():
    c = os.path.join(VERIF, "coq")
    st = ls.regenerate(REPO, os.path.join(THEORIES, "Gen"))
    if st != {"loops_status.v": None}:
        return False, f"translation: {st}"
    n = 0
    for f in ("theories/Gen/loops_status.v", "theories/Proofs/GenTieStatusLemmas.v", "theories/Props/GenTieStatus.v"):
        rc, out = sh(["coqc", "-Q", "theories", "PE", f], cwd=c)
        if rc != 0 or "Axioms:" in out:
            return False, f"{f}: " + out[-400:]
        n = out.count("Closed under the global context")
    _, _, blocks = scratch_texts()
    if n != len(blocks):
        return False, f"{n} closed theorems for {len(blocks)} blocks"
    return True, f"{len(specs_names())} functions translated, {n} theorems closed, examples evaluate"


def specs_names():
    return [fn.name for fn in ls.specs()]


def main():
    args = [a for a in sys.argv[1:]]
    jobs, keep, ids = 8, False, []
    while args:
        a = args.pop(0)
        if a == "--jobs":
            jobs = int(args.pop(0))
        elif a == "--keep":
            keep = True
        else:
            ids.append(a)
    t0 = time.time()
    os.makedirs(SCRATCH, exist_ok=True)
    ok, msg = base_check()
    print(f"BASE  {'ok' if ok else 'FAILED'}: {msg}")
    failed = not ok

    def mutant_edit(m):
        _, cls, func, old, new, _, _ = m
        if func is None:
            def ed(src):
                if src.count(old) != 1:
                    raise RuntimeError(f"anchor not unique: {old!r}")
                return src.replace(old, new)
            return ed
        return lambda src: apply_edit(src, cls, func, old, new)

    cases = [(m[0], file_of(m[2]), mutant_edit(m)) for m in MUTANTS if not ids or m[0] in ids]
    cases += [(r[0], file_of(r[3]), (lambda r_: (lambda src: replace_function(src, r_[2], r_[3], r_[4])))(r)) for r in REFACTORINGS if not ids or r[0] in ids]
    with cf.ThreadPoolExecutor(jobs) as ex:
        results = dict(zip([c[0] for c in cases], ex.map(lambda c: run_case(*c), cases)))
    print("\nMUTANTS")
    for mid, cls, func, old, new, expected, why in MUTANTS:
        if mid not in results:
            continue
        out, detail = results[mid]
        if expected == "caught":
            good, shown = out == "broken", f"caught: {detail}" if out == "broken" else f"MISSED ({out}) {detail[:200]}"
        elif expected == "closed":
            good, shown = out == "closed", f"fails closed: {detail[:150]}" if out == "closed" else f"UNEXPECTED ({out}) {detail[:200]}"
        else:
            good = out in ("survives", "broken")
            shown = "equivalent, survives" if out == "survives" else f"equivalent; the proof rejects it (terms, not values): {detail}" if out == "broken" \
                else f"UNEXPECTED ({out}) {detail[:200]}"
        failed |= not good
        print(f"  {mid} {(cls + '.') if cls else ''}{func or 'MatchingStatus'}: `{old.strip()[:60]}` -> `{new.strip()[:60]}`: {shown}" + (f"  [{why}]" if why else ""))
    print("\nREFACTORINGS")
    for rid, desc, cls, func, _ in REFACTORINGS:
        if rid not in results:
            continue
        out, detail = results[rid]
        shown = {"survives": "survives (translated, every equation proved)", "closed": f"translator fails closed: {detail[:200]}",
                 "broken": f"translated, the proof rejects it: {detail}"}[out]
        print(f"  {rid} {desc}: {shown}")
    if not keep:
        shutil.rmtree(SCRATCH, ignore_errors=True)
    print(f"\n{'FAILED' if failed else 'OK'} ({len(results)} cases, {time.time() - t0:.0f}s)")
    sys.exit(1 if failed else 0)


if __name__ == "__main__":
    main()
