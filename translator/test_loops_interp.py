#!/usr/bin/env python3
"""Self-test of translator/loops_interp.py + coq/theories/Props/GenTieInterp.v (same scheme as test_loops_tracking.py).

  (1) unchanged /repo: translate, build loops_interp.v, Proofs/GenTieInterpLemmas.v and the whole Props/GenTieInterp.v
      (theorems closed, non-vacuity examples evaluate);
  (2) MUTANTS: one-token changes of the translated functions in a scratch copy (/tmp/gen_interp_scratch/<id>/): each must break an
      equation (named), or fail closed in the translator, or be semantically equivalent (the reason is in the table); a mutant that
      translates, is not equivalent and still proves is reported as MISSED (exit status 1);
  (3) REFACTORINGS: behaviour-preserving rewrites: survive / translator fails closed / translated but the proof rejects.

Each theorem of GenTieInterp.v is compiled on its own (header + that theorem), only the theorems that mention a module whose
generated text changed.  usage: python3 translator/test_loops_interp.py [--jobs N] [--only base|mutants|refactorings] [--keep] [ids...]
"""
import ast
import concurrent.futures as cf
import os
import re
import shutil
import subprocess
import sys
import time

HERE = os.path.dirname(os.path.abspath(__file__))
VERIF = os.path.dirname(HERE)
sys.path.insert(0, HERE)
import loops_interp as LI  # noqa: E402
from test_decisions import apply_edit, replace_function  # noqa: E402

REPO = "/repo"
PKGDIR = os.path.join(REPO, "perception_eval", "perception_eval")
SCRATCH = "/tmp/gen_interp_scratch"
THEORIES = os.path.join(VERIF, "coq", "theories")
COQ_TIMEOUT = 300
GENFILE = LI.MODNAME + ".v"

GE = "common/geometry.py"
DS = "common/dataset.py"
LB = "common/label.py"
LC, CL, CN = "LabelConverter", "convert_label", "convert_name"
OL, IL, IQ, IS, IDO, GI = ("interpolate_object_list", "interpolate_list", "interpolate_quaternion", "interpolate_state",
                           "interpolate_dynamic_object", "get_interpolated_now_frame")

# (id, file, class, function, old, new, expected, why)   expected: caught | closed (translator fails closed) | equivalent
MUTANTS = [
    # ---- interpolate_object_list
    ("M01", GE, None, OL, "if object1.uuid == object2.uuid:", "if object1.uuid != object2.uuid:", "caught", ""),
    ("M02", GE, None, OL, "interpolate_object(object1, object2, t1, t2, t)", "interpolate_object(object2, object1, t1, t2, t)", "caught",
     "the copied attributes would be those of the object of list 2"),
    ("M03", GE, None, OL, "                found = True\n                break", "                found = True\n                continue", "closed",
     "every object of list 2 with that uuid would be interpolated and appended: not the loop the equation is proved for"),
    ("M04", GE, None, OL, "                found = True", "                found = False", "caught", "a paired object is appended a second time as a copy"),
    ("M05", GE, None, OL, "if not found:", "if found:", "caught", ""),
    ("M06", GE, None, OL, "output_object_list.append(deepcopy(object1))", "output_object_list.append(deepcopy(object2))", "closed",
     "the loop variable of the inner loop is used after that loop (unbound for an empty list 2)"),
    ("M07", GE, None, OL, "t1, t2, t))\n                id_list.append(object1.uuid)", "t1, t2, t))\n                id_list.append(object2.uuid)", "equivalent",
     "inside `if object1.uuid == object2.uuid` the two uuids are equal"),
    ("M08", GE, None, OL, "if object2.uuid not in id_list:", "if object2.uuid in id_list:", "caught", ""),
    ("M09", GE, None, OL, "    for object2 in object_list2:\n        if object2.uuid not in", "    for object2 in object_list1:\n        if object2.uuid not in", "caught", ""),
    ("M10", GE, None, OL, "for object1 in object_list1:", "for object1 in object_list2:", "caught", ""),
    ("M11", GE, None, OL, "        for object2 in object_list2:", "        for object2 in object_list1:", "caught", ""),
    ("M12", GE, None, OL, "found: bool = False", "found: bool = True", "caught", ""),
    ("M13", GE, None, OL, "return output_object_list", "return id_list", "closed", "a list of uuids where the function returns objects"),
    ("M14", GE, None, OL, "interpolate_object(object1, object2, t1, t2, t)", "interpolate_object(object1, object2, t2, t1, t)", "caught", ""),
    ("M15", GE, None, OL, "assert t1 <= t <= t2", "assert t1 < t <= t2", "caught", "the `pre` statement"),
    ("M16", GE, None, OL, "            output_object_list.append(deepcopy(object1))\n            id_list.append(object1.uuid)",
     "            output_object_list.append(deepcopy(object1))\n            pass", "equivalent",
     "the uuid of an object of list 1 that has NO partner in list 2 can never be met in the second loop"),
    ("M17", GE, None, OL, "            output_object_list.append(deepcopy(object2))\n            id_list.append(object2.uuid)",
     "            output_object_list.append(deepcopy(object2))\n            pass", "closed",
     "a uuid repeated inside list 2 (and absent from list 1) would be appended every time; the loop state is no longer the one of the equation"),
    ("M18", GE, None, OL, "    id_list = []", "    id_list = output_object_list", "closed", "aliasing / a list of objects where uuids are kept"),
    # ---- interpolate_list
    ("M20", GE, None, IL, "state.append(list_1[i] + (", "state.append(list_2[i] + (", "caught", ""),
    ("M21", GE, None, IL, "(list_2[i] - list_1[i])", "(list_1[i] - list_2[i])", "caught", ""),
    ("M22", GE, None, IL, "* (t - t1) / (t2 - t1)", "* (t - t2) / (t2 - t1)", "caught", ""),
    ("M23", GE, None, IL, "* (t - t1) / (t2 - t1)", "* (t - t1) / (t2 - t)", "caught", "another divisor: the guard t1 <> t2 no longer makes it non-zero"),
    ("M24", GE, None, IL, "range(len(list_1))", "range(len(list_2))", "caught", ""),
    ("M25", GE, None, IL, "(list_2[i] - list_1[i]) * (t - t1)", "(list_2[i] - list_1[i]) + (t - t1)", "caught", ""),
    ("M26", GE, None, IL, "assert len(list_1) == len(list_2)", "assert len(list_1) != len(list_2)", "caught", "the `pre` statement"),
    ("M27", GE, None, IL, "return state", "return list_1", "caught", ""),
    ("M28", GE, None, IL, "(list_2[i] - list_1[i])", "(list_2[i] - list_1[0])", "caught", ""),
    ("M29", GE, None, IL, "* (t - t1) / (t2 - t1)", "* (t - t1) * (t2 - t1)", "caught", ""),
    # ---- interpolate_quaternion
    ("M30", GE, None, IQ, "quat_1.slerp(quat_1, quat_2, alpha)", "quat_1.slerp(quat_2, quat_1, alpha)", "caught", ""),
    ("M31", GE, None, IQ, "alpha = (t - t1) / (t2 - t1)", "alpha = (t2 - t) / (t2 - t1)", "caught", ""),
    ("M32", GE, None, IQ, "quat_1.slerp(quat_1, quat_2, alpha)", "quat_2.slerp(quat_1, quat_2, alpha)", "equivalent",
     "slerp is a classmethod: the instance it is called through is not used"),
    # ---- interpolate_state
    ("M40", GE, None, IS, "interpolated_shape = state_1.shape", "interpolated_shape = state_2.shape", "caught", ""),
    ("M41", GE, None, IS, "if state_1.velocity is None or state_2.velocity is None:", "if state_1.velocity is None and state_2.velocity is None:", "closed",
     "interpolate_list would be called with a velocity that may be None (the defect repaired by da2ede2)"),
    ("M42", GE, None, IS, "interpolate_list(state_1.velocity, state_2.velocity, t1, t2, t)", "interpolate_list(state_2.velocity, state_1.velocity, t1, t2, t)", "caught", ""),
    ("M43", GE, None, IS, "interpolate_list(state_1.position, state_2.position, t1, t2, t)", "interpolate_list(state_1.position, state_1.position, t1, t2, t)", "caught", ""),
    ("M44", GE, None, IS, "velocity=interpolated_velocity", "velocity=None", "caught", ""),
    ("M45", GE, None, IS, "interpolate_quaternion(state_1.orientation, state_2.orientation, t1, t2, t)",
     "interpolate_quaternion(state_2.orientation, state_1.orientation, t1, t2, t)", "caught", ""),
    ("M46", GE, None, IS, "        interpolated_velocity = None", "        interpolated_velocity = state_1.velocity", "caught",
     "when only state_2 has no velocity the one of state_1 would be kept"),
    ("M47", GE, None, IS, "position=interpolated_position", "position=state_1.position", "caught", ""),
    # ---- interpolate_dynamic_object
    ("M50", GE, None, IDO, "output_object = deepcopy(object_1)", "output_object = deepcopy(object_2)", "caught", "whose non-interpolated attributes survive"),
    ("M51", GE, None, IDO, "output_object.unix_time = int(t)", "output_object.unix_time = int(t1)", "caught", ""),
    ("M52", GE, None, IDO, "interpolate_state(object_1.state, object_2.state, t1, t2, t)", "interpolate_state(object_2.state, object_1.state, t1, t2, t)", "caught", ""),
    ("M53", GE, None, IDO, "assert object_1.uuid == object_2.uuid", "assert object_1.uuid != object_2.uuid", "caught", "the `pre` statement"),
    ("M54", GE, None, IDO, "output_object.state = interpolated_state", "output_object.state = object_1.state", "caught", ""),
    ("M55", GE, None, IDO, "output_object.state = interpolated_state", "object_1.state = interpolated_state", "closed", "the caller's object would be mutated"),
    # ---- get_interpolated_now_frame (the four-way return)
    ("M60", DS, None, GI, "        return after_frame", "        return before_frame", "closed", "before_frame is None on that path"),
    ("M61", DS, None, GI, "if before_frame is None and after_frame is None:", "if before_frame is None or after_frame is None:", "caught", ""),
    ("M62", DS, None, GI, "interpolate_ground_truth_frames(before_frame, after_frame, unix_time)", "interpolate_ground_truth_frames(after_frame, before_frame, unix_time)", "caught", ""),
    ("M63", DS, None, GI, "    elif after_frame is None:", "    elif after_frame is not None:", "closed", "interpolation with an after frame that is None"),
    ("M64", DS, None, GI, "    elif before_frame is None:", "    elif before_frame is not None:", "closed", "interpolation with a before frame that is None"),
    ("M65", DS, None, GI, "interpolate_ground_truth_frames(before_frame, after_frame, unix_time)", "interpolate_ground_truth_frames(before_frame, after_frame, threshold_min_time)", "caught", ""),
    ("M66", DS, None, GI, "        return before_frame", "        return None", "caught", ""),
    ("M67", DS, None, GI, "return interpolate_ground_truth_frames(before_frame, after_frame, unix_time)", "return before_frame", "caught", ""),
    # ---- LabelConverter.convert_label / convert_name
    ("M70", LB, LC, CL, "if name.lower() == label_info.name:", "if name == label_info.name:", "caught", "the comparison is case-insensitive"),
    ("M71", LB, LC, CL, "                break", "                continue", "closed", "the LAST hit instead of the first, every hit counted: another loop"),
    ("M72", LB, LC, CL, "Label(label_info.label, name, attributes)", "Label(label_info.label, name.lower(), attributes)", "caught",
     "the Label keeps the name as it was given"),
    ("M73", LB, LC, CL, "Label(self.label_type.UNKNOWN, name, attributes)", "Label(self.label_type.CAR, name, attributes)", "closed", "a member the vocabulary does not know"),
    ("M74", LB, LC, CL, "if self.count_label_number:", "if not self.count_label_number:", "caught", ""),
    ("M75", LB, LC, CN, "return_label = label_info.label", "return_label = label_info.name", "caught", ""),
    ("M76", LB, LC, CN, "if return_label is None:", "if return_label is not None:", "caught", ""),
    ("M77", LB, LC, CN, "label_info.num += 1", "label_info.num += 2", "closed", "not the counter update the log stands for"),
    ("M78", LB, LC, CL, "        if return_label is None:", "        if return_label is not None:", "caught", ""),
    ("M79", LB, LC, CN, "if name.lower() == label_info.name:", "if name.lower() != label_info.name:", "caught", ""),
    ("M7A", LB, LC, CL, "Label(label_info.label, name, attributes)", "Label(label_info.label, name)", "caught", "the attributes would be dropped (default [])"),
]

# (id, description, file, class, function, new source of the whole function)
REFACTORINGS = [
    ("R01", "interpolate_object_list: `if found: continue`, inner test `!=` + continue, second loop `in` + continue", GE, None, OL, """
def interpolate_object_list(object_list1, object_list2, t1, t2, t):
    assert t1 <= t <= t2
    output_object_list = []
    id_list = []
    for object1 in object_list1:
        found: bool = False
        for object2 in object_list2:
            if object1.uuid != object2.uuid:
                continue
            output_object_list.append(interpolate_object(object1, object2, t1, t2, t))
            id_list.append(object1.uuid)
            found = True
            break
        if found:
            continue
        output_object_list.append(deepcopy(object1))
        id_list.append(object1.uuid)
    for object2 in object_list2:
        if object2.uuid in id_list:
            continue
        output_object_list.append(deepcopy(object2))
        id_list.append(object2.uuid)
    return output_object_list
"""),
    ("R02", "interpolate_object_list: renamed variables, uuid extracted into a local, keyword arguments, `found is False`", GE, None, OL, """
def interpolate_object_list(object_list1, object_list2, t1, t2, t):
    assert t1 <= t and t <= t2
    output_object_list = []
    id_list = []
    for a in object_list1:
        key = a.uuid
        found = False
        for b in object_list2:
            if key == b.uuid:
                output_object_list.append(interpolate_object(object_1=a, object_2=b, t1=t1, t2=t2, t=t))
                found = True
                id_list.append(key)
                break
        if found is False:
            id_list.append(key)
            output_object_list.append(deepcopy(a))
    for b in object_list2:
        if not (b.uuid in id_list):
            id_list.append(b.uuid)
            output_object_list.append(deepcopy(b))
    return output_object_list
"""),
    ("R03", "interpolate_object_list: the partner is kept in a local and used after the search loop", GE, None, OL, """
def interpolate_object_list(object_list1, object_list2, t1, t2, t):
    assert t1 <= t <= t2
    output_object_list = []
    id_list = []
    for object1 in object_list1:
        partner = None
        for object2 in object_list2:
            if object1.uuid == object2.uuid:
                partner = object2
                break
        if partner is None:
            output_object_list.append(deepcopy(object1))
        else:
            output_object_list.append(interpolate_object(object1, partner, t1, t2, t))
        id_list.append(object1.uuid)
    for object2 in object_list2:
        if object2.uuid not in id_list:
            output_object_list.append(deepcopy(object2))
            id_list.append(object2.uuid)
    return output_object_list
"""),
    ("R04", "interpolate_list: elements read into locals first, `state = state + [..]` replaced by append of a local", GE, None, IL, """
def interpolate_list(list_1, list_2, t1, t2, t):
    assert t1 <= t <= t2
    assert len(list_1) == len(list_2)
    state = []
    for i in range(len(list_1)):
        a = list_1[i]
        b = list_2[i]
        value = a + (b - a) * (t - t1) / (t2 - t1)
        state.append(value)
    return state
"""),
    ("R05", "interpolate_list: the divisor hoisted into a local before the loop", GE, None, IL, """
def interpolate_list(list_1, list_2, t1, t2, t):
    assert t1 <= t <= t2
    assert len(list_1) == len(list_2)
    dt = t2 - t1
    state = []
    for i in range(len(list_1)):
        state.append(list_1[i] + (list_2[i] - list_1[i]) * (t - t1) / dt)
    return state
"""),
    ("R06", "interpolate_list: zip instead of an index loop", GE, None, IL, """
def interpolate_list(list_1, list_2, t1, t2, t):
    assert t1 <= t <= t2
    assert len(list_1) == len(list_2)
    state = []
    for a, b in zip(list_1, list_2):
        state.append(a + (b - a) * (t - t1) / (t2 - t1))
    return state
"""),
    ("R07", "interpolate_quaternion: the fraction inlined, slerp called on the class", GE, None, IQ, """
def interpolate_quaternion(quat_1, quat_2, t1, t2, t):
    assert t1 <= t <= t2
    return Quaternion.slerp(quat_1, quat_2, (t - t1) / (t2 - t1))
"""),
    ("R08", "interpolate_state: `is not None and is not None` with swapped branches, shape inlined, positional constructor", GE, None, IS, """
def interpolate_state(state_1, state_2, t1, t2, t):
    assert t1 <= t <= t2
    interpolated_position = tuple(interpolate_list(state_1.position, state_2.position, t1, t2, t))
    interpolated_orientation = interpolate_quaternion(state_1.orientation, state_2.orientation, t1, t2, t)
    if state_1.velocity is not None and state_2.velocity is not None:
        interpolated_velocity = tuple(interpolate_list(state_1.velocity, state_2.velocity, t1, t2, t))
    else:
        interpolated_velocity = None
    return ObjectState(interpolated_position, interpolated_orientation, state_1.shape, interpolated_velocity)
"""),
    ("R09", "interpolate_state: early returns instead of the joined local", GE, None, IS, """
def interpolate_state(state_1, state_2, t1, t2, t):
    assert t1 <= t <= t2
    interpolated_position = tuple(interpolate_list(state_1.position, state_2.position, t1, t2, t))
    interpolated_orientation = interpolate_quaternion(state_1.orientation, state_2.orientation, t1, t2, t)
    if state_1.velocity is None:
        return ObjectState(position=interpolated_position, orientation=interpolated_orientation, shape=state_1.shape, velocity=None)
    if state_2.velocity is None:
        return ObjectState(position=interpolated_position, orientation=interpolated_orientation, shape=state_1.shape, velocity=None)
    interpolated_velocity = tuple(interpolate_list(state_1.velocity, state_2.velocity, t1, t2, t))
    return ObjectState(position=interpolated_position, orientation=interpolated_orientation, shape=state_1.shape, velocity=interpolated_velocity)
"""),
    ("R10", "interpolate_dynamic_object: the two attribute stores swapped, the state inlined", GE, None, IDO, """
def interpolate_dynamic_object(object_1, object_2, t1, t2, t):
    assert t1 <= t <= t2
    assert object_1.uuid == object_2.uuid
    output_object = deepcopy(object_1)
    output_object.unix_time = int(t)
    output_object.state = interpolate_state(object_1.state, object_2.state, t1, t2, t)
    return output_object
"""),
    ("R11", "get_interpolated_now_frame: nested ifs with early returns instead of the elif chain", DS, None, GI, """
def get_interpolated_now_frame(ground_truth_frames, unix_time, threshold_min_time):
    before_frame = None
    after_frame = None
    dt_before = 0.0
    dt_after = 0.0
    for ground_truth_frame in ground_truth_frames:
        diff_time = unix_time - ground_truth_frame.unix_time
        if diff_time >= 0:
            before_frame = ground_truth_frame
            dt_before = diff_time
        else:
            after_frame = ground_truth_frame
            dt_after = -diff_time
            break
    if dt_before > threshold_min_time:
        before_frame = None
    if dt_after > threshold_min_time:
        after_frame = None
    if before_frame is None:
        if after_frame is None:
            return None
        return after_frame
    if after_frame is not None:
        return interpolate_ground_truth_frames(before_frame, after_frame, unix_time)
    return before_frame
"""),
    ("R12", "get_interpolated_now_frame: both-present case tested first, conditional expression for the rest", DS, None, GI, """
def get_interpolated_now_frame(ground_truth_frames, unix_time, threshold_min_time):
    before_frame = None
    after_frame = None
    dt_before = 0.0
    dt_after = 0.0
    for ground_truth_frame in ground_truth_frames:
        diff_time = unix_time - ground_truth_frame.unix_time
        if diff_time >= 0:
            before_frame = ground_truth_frame
            dt_before = diff_time
        else:
            after_frame = ground_truth_frame
            dt_after = -diff_time
            break
    if dt_before > threshold_min_time:
        before_frame = None
    if dt_after > threshold_min_time:
        after_frame = None
    if before_frame is not None and after_frame is not None:
        return interpolate_ground_truth_frames(before_frame, after_frame, unix_time)
    return after_frame if before_frame is None else before_frame
"""),
    ("R13", "convert_label: key hoisted, `!=` + continue, Label built after the count", LB, LC, CL, """
def convert_label(self, name, attributes=[]):
    return_label = None
    key = name.lower()
    for label_info in self.label_infos:
        if key != label_info.name:
            continue
        if self.count_label_number:
            label_info.num += 1
        return_label = Label(label=label_info.label, name=name, attributes=attributes)
        break
    if return_label is None:
        logging.warning(f"Label {name} is not registered.")
        return_label = Label(self.label_type.UNKNOWN, name, attributes)
    return return_label
"""),
    ("R14", "convert_name: key hoisted, assignment before the count, conditional expression for the fallback", LB, LC, CN, """
def convert_name(self, name):
    return_label = None
    key = name.lower()
    for label_info in self.label_infos:
        if key == label_info.name:
            return_label = label_info.label
            if self.count_label_number:
                label_info.num += 1
    return self.label_type.UNKNOWN if return_label is None else return_label
"""),
    ("R15", "convert_label: the scan as a helper-free early exit through a flag", LB, LC, CL, """
def convert_label(self, name, attributes=[]):
    return_label = None
    done = False
    for label_info in self.label_infos:
        if not done and name.lower() == label_info.name:
            if self.count_label_number:
                label_info.num += 1
            return_label = Label(label_info.label, name, attributes)
            done = True
    if return_label is None:
        return_label = Label(self.label_type.UNKNOWN, name, attributes)
    return return_label
"""),
]


# ---------------------------------------------------------------------------------------------------------------------
def make_scratch(n):
    d = os.path.join(SCRATCH, str(n))
    shutil.rmtree(d, ignore_errors=True)
    dst = os.path.join(d, "repo", "perception_eval", "perception_eval")
    shutil.copytree(PKGDIR, dst, ignore=shutil.ignore_patterns("__pycache__", "*.pyc"))
    os.makedirs(os.path.join(d, "coq"))
    return d


def split_gentie():
    with open(os.path.join(THEORIES, "Props", "GenTieInterp.v")) as f:
        txt = f.read()
    whole = txt.replace(f"From PE Require Gen.{LI.MODNAME}.\nImport Gen.{LI.MODNAME}.", f"From SCR Require {LI.MODNAME}.\nImport {LI.MODNAME}.")
    assert "SCR" in whole
    m0 = re.search(r"^\(\* ---- ", whole, flags=re.M)
    header, blocks = whole[:m0.start()], {}
    for m in re.finditer(r"(?ms)^Theorem (\w+)\b.*?^Print Assumptions \1\.", whole):
        blocks[m.group(1)] = m.group(0) + "\n"
    return whole, header, blocks


def modules_of(text):
    return {m.group(1): m.group(2) for m in re.finditer(r"(?s)Module (Gen_\w+)\.(.*?)End \1\.", text)}


def coqc(args, cwd):
    try:
        p = subprocess.run(["timeout", str(COQ_TIMEOUT), "coqc"] + args, cwd=cwd, capture_output=True, text=True)
        return p.returncode, p.stdout + p.stderr
    except Exception as e:  # noqa: BLE001
        return 99, str(e)


def check_text(d, name, text, nthm):
    fn = os.path.join(d, "coq", f"T_{name}.v")
    with open(fn, "w") as f:
        f.write(text)
    t0 = time.time()
    rc, out = coqc(["-Q", THEORIES, "PE", "-Q", os.path.join(d, "coq"), "SCR", fn], os.path.join(d, "coq"))
    dt = time.time() - t0
    if rc == 0 and out.count("Closed under the global context") == nthm and "Axioms:" not in out:
        return "ok", dt
    if rc == 124:
        return "timeout", dt
    m = re.search(r"Error:\s*(.*)", out, re.S)
    return "FAILS: " + (" ".join(m.group(1).split())[:110] if m else f"rc={rc}"), dt


def run_variant(n, edits, header, blocks, base_modules):
    """-> (translator status, {theorem: (result, seconds)}, scratch dir)"""
    d = make_scratch(n)
    for rel, fn in edits:
        path = os.path.join(d, "repo", "perception_eval", "perception_eval", rel)
        with open(path) as f:
            src = f.read()
        new = fn(src)
        ast.parse(new)
        assert new != src, "the edit changes nothing"
        with open(path, "w") as f:
            f.write(new)
    st = LI.regenerate(os.path.join(d, "repo"), os.path.join(d, "coq"))[GENFILE]
    with open(os.path.join(d, "coq", GENFILE)) as f:
        mods = modules_of(f.read())
    rc, out = coqc(["-Q", THEORIES, "PE", "-Q", os.path.join(d, "coq"), "SCR", GENFILE], os.path.join(d, "coq"))
    if rc != 0:
        return st, {"<" + GENFILE + ">": ("FAILS to compile: " + " ".join(out.split())[:200], 0)}, d
    if base_modules is None:
        todo = list(blocks)
    else:
        changed = [m for m in base_modules if mods.get(m) != base_modules[m]]
        todo = [t for t, b in blocks.items() if any(re.search(r"\b" + re.escape(m) + r"\.", b) for m in changed)]
    res = {}
    for t in todo:
        res[t] = check_text(d, t, header + blocks[t], 1)
    return st, res, d


def main():
    jobs = 3
    only = None
    keep = "--keep" in sys.argv
    if "--jobs" in sys.argv:
        jobs = int(sys.argv[sys.argv.index("--jobs") + 1])
    if "--only" in sys.argv:
        only = sys.argv[sys.argv.index("--only") + 1]
    ids = [a for a in sys.argv[1:] if re.fullmatch(r"[MR][\dA-Z][\dA-Z]", a)]
    shutil.rmtree(SCRATCH, ignore_errors=True)
    os.makedirs(SCRATCH)
    rc, out = coqc(["-Q", THEORIES, "PE", os.path.join(THEORIES, "Proofs", "GenTieInterpLemmas.v")], THEORIES)
    if rc != 0:
        print("Proofs/GenTieInterpLemmas.v does not compile:", out)
        return 1
    whole, header, blocks = split_gentie()
    failures = 0
    # ---- (1) unchanged repo
    t0 = time.time()
    st, res, d0 = run_variant("base", [], header, blocks, None)
    with open(os.path.join(d0, "coq", GENFILE)) as f:
        base_modules = modules_of(f.read())
    print(f"(1) UNCHANGED /repo: translation: {'all translated' if st is None else st}")
    for k, (r, dt) in res.items():
        print(f"    {k:55s} {r}  ({dt:.1f}s)")
    bad = [k for k, v in res.items() if v[0] != "ok"]
    r, dt = check_text(d0, "whole_file", whole, len(blocks))
    print(f"    {'<the whole file, with the non-vacuity examples>':55s} {r}  ({dt:.1f}s)")
    print(f"    -> {len(res) - len(bad)}/{len(res)} theorems closed, {time.time() - t0:.0f}s")
    if bad or st is not None or r != "ok":
        failures += 1
    if only == "base":
        if not keep:
            shutil.rmtree(SCRATCH, ignore_errors=True)
        return failures
    with cf.ThreadPoolExecutor(max_workers=jobs) as pool:
        # ---- (2) mutants
        if only in (None, "mutants"):
            print("\n(2) MUTANTS (one token each)")
            tally = {}
            todo = [m for m in MUTANTS if not ids or m[0] in ids]
            futs = [pool.submit(run_variant, m[0], [(m[1], lambda s, c=m[2], f=m[3], o=m[4], n=m[5]: apply_edit(s, c, f, o, n))], header, blocks, base_modules)
                    for m in todo]
            for (mid, rel, cls, func, old, new, expected, why), fut in zip(todo, futs):
                try:
                    st, res, d = fut.result()
                except Exception as e:  # noqa: BLE001
                    print(f"  {mid} ERROR {e}")
                    failures += 1
                    continue
                badt = [f"{k} [{v[0]}]" for k, v in res.items() if v[0] != "ok"]
                if st:
                    verdict = "fails closed (translator)"
                    okv = expected in ("closed", "caught", "equivalent")
                elif not res:
                    verdict = "generated text unchanged" + (" (equivalent)" if expected == "equivalent" else "")
                    okv = expected == "equivalent"
                elif badt:
                    verdict = "caught" if expected != "equivalent" else "equivalent, proof script rejects"
                    okv = True
                else:
                    verdict = "equivalent, still proves" if expected == "equivalent" else "MISSED"
                    okv = expected == "equivalent"
                if expected == "equivalent" and st:
                    verdict = "equivalent, fails closed"
                if expected == "closed" and not st:
                    verdict += " (expected to fail closed)"
                tally[verdict] = tally.get(verdict, 0) + 1
                if not okv:
                    failures += 1
                    verdict += "  <<<<<< UNEXPECTED"
                desc = f"{func}: {' '.join(old.split())[:58]!r} -> {' '.join(new.split())[:58]!r}"
                print(f"  {mid} {verdict:34s} {desc}")
                if why:
                    print(f"        note: {why}")
                if st:
                    print(f"        translator: {st[:230]}")
                for b in badt:
                    print(f"        breaks: {b[:190]}")
                if not keep:
                    shutil.rmtree(d, ignore_errors=True)
            print("  tally:", tally)
        # ---- (3) refactorings
        if only in (None, "refactorings"):
            print("\n(3) REFACTORINGS (behaviour preserving)")
            survived = 0
            allr = [r for r in REFACTORINGS if not ids or r[0] in ids]
            futs = [pool.submit(run_variant, rid, [(rel, lambda s, c=cls, f=func, n=new: replace_function(s, c, f, n))], header, blocks, base_modules)
                    for (rid, desc, rel, cls, func, new) in allr]
            for (rid, desc, rel, cls, func, new), fut in zip(allr, futs):
                try:
                    st, res, d = fut.result()
                except Exception as e:  # noqa: BLE001
                    print(f"  {rid} ERROR {e}")
                    failures += 1
                    continue
                badt = [f"{k} [{v[0]}]" for k, v in res.items() if v[0] != "ok"]
                if st:
                    verdict = "translator FAILS CLOSED"
                elif badt:
                    verdict = "translated, proof REJECTS"
                else:
                    verdict = "survives" + ("" if res else " (generated text identical)")
                    survived += 1
                print(f"  {rid} {verdict:28s} {desc}  [{len(res)} theorem(s) re-checked]")
                if st:
                    print(f"        translator: {st[:230]}")
                for b in badt:
                    print(f"        breaks: {b[:190]}")
                if not keep:
                    shutil.rmtree(d, ignore_errors=True)
            print(f"  {survived}/{len(allr)} refactorings survive")
    if not keep:
        shutil.rmtree(SCRATCH, ignore_errors=True)
    return 1 if failures else 0


if __name__ == "__main__":
    sys.exit(main())
