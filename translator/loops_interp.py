#!/usr/bin/env python3
"""Translator for the INTERPOLATION of ground truth (C17): Python `ast` -> Gallina (Gen/loops_interp.v).

A further layer of the redundant tie (decisions.py, loops.py, loops_tracking.py, loops_passfail.py): the functions that build an
interpolated frame are re-translated from the source on every run and Props/GenTieInterp.v proves each generated definition EQUAL,
for all inputs, to the hand model (Model/Lookup.v):

  common/geometry.py  interpolate_object_list      = Lookup.interpolate_object_list (pass1 ++ pass2)
                      interpolate_list             = Lookup.lerp element by element (Lookup.vlerp on three components)
                      interpolate_quaternion       = Lookup.yaw_interp (alpha handed to the slerp leaf)
                      interpolate_state            = position / orientation / shape / velocity of Lookup.interp_obj, velocity Optional
                      interpolate_dynamic_object   = Lookup.interp_obj
  common/dataset.py   get_interpolated_now_frame   = Lookup.get_interpolated_now_frame (the four-way return after the neighbour search;
                                                     the search itself is Gen_neighbour_search of Gen/loops_tracking.v, reused)

The statement / expression layer is the continuation-passing one of loops_passfail.py (vocabularies keyed by (type, attribute) and by
callee with the callee's signature compared on every run, Optional narrowing, `x in xs` through a table, `.append` on declared locals,
loops as fold_left in the error monad `Filter.res`).  It is used through a PRIVATE INSTANCE of that module (the file is loaded a second
time under another module name, `loops_passfail` itself is left untouched) whose entry points are extended here with what these
functions need and loops_passfail.py refuses:

  break            the flag scheme of loops_tracking.py: the state of a loop with a `break` of its own is (flag, state); once the flag is
                   true the remaining iterations return the state unchanged
  iteration        range(n) -> seq 0 n;  zip(xs, ys) -> combine xs ys (tuple target);  a list
  xs[i]            match nth_error xs i with Some x_ => Ok x_ | None => ErrIndex end   (i a natural number; bound in evaluation order)
  arithmetic       + - * / on floats (Q), Python ints that may be negative (Z) and literals; an int met by a float is injected
                   (inject_Z); int / int is the float quotient (inject_Z a / inject_Z b)
  division         NOT guarded in these functions: `a / b` is `if b == 0 then ErrZeroDiv else ... a / b` at the place where Python
                   evaluates it (after both operands).  `Filter.res` has no constructor of its own for ZeroDivisionError: the header
                   defines `ErrZeroDiv := ErrType`; no TypeError is rendered anywhere in this file
  comparisons      on Z (Z.ltb / Z.leb / Z.eqb, `a > b` as `b < a` like the other layers), on strings (String.eqb); a chained comparison
                   `a <= b <= c` whose middle operands are names is `a <= b and b <= c`
  leading asserts  the definition `pre` (their conjunction), as in Gen/Decisions.v; `f` is the function after them; an assert anywhere else
                   is not translated
  attribute store  `x.attr = e` on a local that is a fresh copy (`x = deepcopy(...)`): a functional update through the table `setattrs`
  declared locals  a local listed in `local_types` has that type on every assignment (None / a value of an Optional, [] of a list)

Fail closed per function; each function declares the loops its equation is proved for.  Only `ast` is used.
"""
import ast
import importlib.util
import os
import sys

HERE = os.path.dirname(os.path.abspath(__file__))
sys.path.insert(0, HERE)
from py_to_coq import TranslatorError, coq_str  # noqa: E402
from decisions import fail, paren, qlit, parse, find_function  # noqa: E402
import loops_tracking as LT  # noqa: E402   (only to learn whether the neighbour search was translated on this run)

MODNAME = "loops_interp"            # harness/lib/core.py regenerate_gen: translator/<modname>.py writes Gen/<modname>.v


def _private_instance(modname):
    """a second, private copy of a translator module: what is patched below does not reach the module the other layers import"""
    spec = importlib.util.spec_from_file_location("_loops_interp_private_" + modname, os.path.join(HERE, modname + ".py"))
    m = importlib.util.module_from_spec(spec)
    spec.loader.exec_module(m)
    return m


P = _private_instance("loops_passfail")
BOOL, NAT, Q, Z, UNIT, NONE, STR, NUM, ANYLIST = P.BOOL, P.NAT, P.Q, P.Z, P.UNIT, P.NONE, P.STR, P.NUM, P.ANYLIST
E, CallSpec, Fn = P.E, P.CallSpec, P.Fn
coqt, opt, lst, tup, is_opt, is_list, is_tuple, lname, show = P.coqt, P.opt, P.lst, P.tup, P.is_opt, P.is_list, P.is_tuple, P.lname, P.show


def summ(a, b):
    return ("sum", a, b)


# =============================================================================================
# types / coercions
# =============================================================================================
_cty0, _coerce0 = P.cty, P.coerce


def cty(t):
    if isinstance(t, tuple) and t[0] == "sum":
        return f"({paren(cty(t[1]))} + {paren(cty(t[2]))})%type"
    if isinstance(t, tuple) and t[0] == "opt":
        return f"option {paren(cty(t[1]))}"
    if isinstance(t, tuple) and t[0] == "list" and t[1] != "?":
        return f"list {paren(cty(t[1]))}"
    if isinstance(t, tuple) and t[0] == "tuple":
        return "(" + " * ".join(paren(cty(x)) for x in t[1]) + ")"
    return _cty0(t)


def coerce(e, ty, node=None):
    if isinstance(ty, tuple) and ty[0] == "sum" and e.ty != ty:
        if e.ty == ty[1]:
            return f"inl {paren(e.term)}"
        if e.ty == ty[2]:
            return f"inr {paren(e.term)}"
        fail(f"a {show(e.ty)} where a {show(ty)} is needed", node)
    if ty == Z and e.ty == NUM:
        if e.isint:
            return zlit(int(e.num))
        fail("a float literal where an integer is needed", node)
    return _coerce0(e, ty, node)


def zlit(n):
    return f"{n}%Z" if n >= 0 else f"({n})%Z"


# =============================================================================================
# expressions
# =============================================================================================
_tr0, _compare0, _cond0 = P.tr, P.compare, P.cond


def numeric(t):
    return t in (NAT, Z, Q, NUM)


def to_q(e, node):
    if e.ty == Q:
        return e.term
    if e.ty == NUM:
        return qlit(e.num)
    if e.ty == Z:
        return f"inject_Z {paren(e.term)}"
    fail(f"a {show(e.ty)} in float arithmetic (int / float mix other than a Python int is not translated)", node)


def to_z(e, node):
    if e.ty == Z:
        return e.term
    if e.ty == NUM and e.isint:
        return zlit(int(e.num))
    fail(f"a {show(e.ty)} in integer arithmetic", node)


def arith(op, a, b, env, k, node):
    fn = env.fn
    if not (numeric(a.ty) and numeric(b.ty)):
        fail(f"operator {type(op).__name__} on a {show(a.ty)} and a {show(b.ty)}", node)
    if a.ty == NUM and b.ty == NUM:
        fail("arithmetic between two literals", node)
    if NAT in (a.ty, b.ty):
        if isinstance(op, (ast.Add, ast.Mult)) and all(t == NAT or t == NUM for t in (a.ty, b.ty)):
            x, y = coerce(a, NAT, node), coerce(b, NAT, node)
            return k(E(f"({x} {'+' if isinstance(op, ast.Add) else '*'} {y})%nat", NAT))
        fail(f"operator {type(op).__name__} on natural numbers (a difference could be negative, a quotient is a float)", node)
    if Q not in (a.ty, b.ty) and not (a.ty == NUM and not a.isint) and not (b.ty == NUM and not b.isint):
        # Python ints
        x, y = to_z(a, node), to_z(b, node)
        if isinstance(op, (ast.Add, ast.Sub, ast.Mult)):
            o = {ast.Add: "+", ast.Sub: "-", ast.Mult: "*"}[type(op)]
            return k(E(f"({paren(x)} {o} {paren(y)})%Z", Z))
        if isinstance(op, ast.Div):
            fn.effects += 1
            return f"if Z.eqb {paren(y)} 0%Z then ErrZeroDiv else\n{k(E(f'inject_Z {paren(x)} / inject_Z {paren(y)}', Q))}"
        fail(f"operator {type(op).__name__} on integers", node)
    x, y = to_q(a, node), to_q(b, node)
    if isinstance(op, (ast.Add, ast.Sub, ast.Mult)):
        o = {ast.Add: "+", ast.Sub: "-", ast.Mult: "*"}[type(op)]
        return k(E(f"{paren(x)} {o} {paren(y)}", Q))
    if isinstance(op, ast.Div):
        fn.effects += 1
        test = f"Z.eqb {paren(b.term)} 0%Z" if b.ty == Z else f"Qeqb {paren(y)} 0"
        return f"if {test} then ErrZeroDiv else\n{k(E(f'{paren(x)} / {paren(y)}', Q))}"
    fail(f"operator {type(op).__name__}", node)


def tr(node, env, k):
    fn = env.fn
    key = ast.unparse(node)
    if key in env.narrow or key in fn.consts:
        return _tr0(node, env, k)
    if isinstance(node, ast.BinOp):
        if not isinstance(node.op, (ast.Add, ast.Sub, ast.Mult, ast.Div)):
            fail(f"operator {type(node.op).__name__}", node)
        return tr(node.left, env, lambda a: tr(node.right, env, lambda b: arith(node.op, a, b, env, k, node)))
    if isinstance(node, ast.UnaryOp) and isinstance(node.op, ast.USub):
        def neg(a):
            if a.ty == NUM:
                return k(E(None, NUM, num=-a.num, isint=a.isint))
            if a.ty == Z:
                return k(E(f"(- {paren(a.term)})%Z", Z))
            if a.ty == Q:
                return k(E(f"- {paren(a.term)}", Q))
            fail(f"unary minus on a {show(a.ty)}", node)
        return tr(node.operand, env, neg)
    if isinstance(node, ast.Subscript):
        if isinstance(node.slice, ast.Slice):
            fail("slices are not translated", node)

        def with_list(xs):
            if not is_list(xs.ty) or xs.ty == ANYLIST:
                fail(f"subscript of a {show(xs.ty)}", node)

            def with_index(i):
                if not (i.ty == NAT or (i.ty == NUM and i.isint and i.num >= 0)):
                    fail("subscript whose index is not a natural number (negative indices are not translated here)", node)
                t = f"match nth_error {paren(xs.term)} {paren(coerce(i, NAT, node))} with Some x_ => Ok x_ | None => ErrIndex end"
                return P.emit_bind(fn, t, lambda v: k(E(v, xs.ty[1])))
            return tr(node.slice, env, with_index)
        return tr(node.value, env, with_list)
    return _tr0(node, env, k)


def compare(op, a, b, env, kt, kf, node):
    neg = isinstance(op, ast.NotEq)

    def two(t):
        return P.ite(t, kf(env), kt(env)) if neg else P.ite(t, kt(env), kf(env))

    if a.ty == STR and b.ty == STR:
        if isinstance(op, (ast.Eq, ast.NotEq)):
            return two(f"String.eqb {paren(a.term)} {paren(b.term)}")
        fail(f"comparison operator {type(op).__name__} on strings", node)
    if Z in (a.ty, b.ty) and all(t == Z or t == NUM for t in (a.ty, b.ty)) \
            and not any(e.ty == NUM and not e.isint for e in (a, b)):
        x, y = paren(to_z(a, node)), paren(to_z(b, node))
        f = {ast.Lt: f"Z.ltb {x} {y}", ast.LtE: f"Z.leb {x} {y}", ast.Gt: f"Z.ltb {y} {x}", ast.GtE: f"Z.leb {y} {x}",
             ast.Eq: f"Z.eqb {x} {y}", ast.NotEq: f"Z.eqb {x} {y}"}.get(type(op))
        if f is None:
            fail(f"comparison operator {type(op).__name__}", node)
        return two(f)
    if Z in (a.ty, b.ty) and all(t in (Z, Q, NUM) for t in (a.ty, b.ty)):
        x, y = paren(to_q(a, node)), paren(to_q(b, node))
        f = {ast.Lt: f"Qltb {x} {y}", ast.LtE: f"Qleb {x} {y}", ast.Gt: f"Qltb {y} {x}", ast.GtE: f"Qleb {y} {x}",
             ast.Eq: f"Qeqb {x} {y}", ast.NotEq: f"Qeqb {x} {y}"}.get(type(op))
        if f is None:
            fail(f"comparison operator {type(op).__name__}", node)
        return two(f)
    return _compare0(op, a, b, env, kt, kf, node)


def cond(test, env, kt, kf, strict=False):
    if isinstance(test, ast.Compare) and len(test.ops) > 1:
        # a <= b <= c: the middle operands are evaluated once; for a name that is `a <= b and b <= c`
        if not all(isinstance(m, ast.Name) for m in test.comparators[:-1]):
            fail("chained comparison whose middle operand is not a name", test)
        parts, left = [], test.left
        for op, r in zip(test.ops, test.comparators):
            parts.append(ast.copy_location(ast.Compare(left=left, ops=[op], comparators=[r]), test))
            left = r
        new = ast.copy_location(ast.BoolOp(op=ast.And(), values=parts), test)
        return _cond0(ast.fix_missing_locations(new), env, kt, kf, strict)
    return _cond0(test, env, kt, kf, strict)


# =============================================================================================
# statements
# =============================================================================================
_Env0, _tr_block0 = P.Env, P.tr_block


class Env(_Env0):
    def __init__(self, fn):
        super().__init__(fn)
        self.brk = None             # inside a loop with a `break` of its own: what `break` means
        self.fresh_objs = set()     # locals bound to a copy made in this function (their attributes may be written)

    def copy(self):
        e = super().copy()
        e.brk, e.fresh_objs = self.brk, set(self.fresh_objs)
        return e


def tr_block(ss, env, k):
    fn = env.fn
    if not ss:
        return _tr_block0(ss, env, k)
    s, rest = ss[0], ss[1:]

    def cont(e):
        return tr_block(rest, e, k)

    if isinstance(s, ast.Break):
        if env.loop is None or env.brk is None:
            fail("break outside a loop this translator renders", s)
        return env.brk(env)
    if isinstance(s, ast.AugAssign):
        if not isinstance(s.target, ast.Name):
            fail("augmented assignment to something that is not a name", s)
        if s.target.id not in env.vars or s.target.id in env.params or is_list(env.vars[s.target.id][1]):
            fail(f"augmented assignment to `{s.target.id}`, which is not a numeric local", s)
        new = ast.Assign(targets=[ast.Name(id=s.target.id, ctx=ast.Store())],
                         value=ast.BinOp(left=ast.Name(id=s.target.id, ctx=ast.Load()), op=s.op, right=s.value))
        ast.copy_location(new, s)
        return tr_block([ast.fix_missing_locations(new)] + rest, env, k)
    if isinstance(s, (ast.Assign, ast.AnnAssign)) and getattr(s, "value", None) is not None:
        targets = s.targets if isinstance(s, ast.Assign) else [s.target]
        if len(targets) == 1:
            tg = targets[0]
            # a local whose type is declared: every assignment is coerced to it
            if isinstance(tg, ast.Name) and tg.id in fn.local_types and not isinstance(s.value, ast.ListComp):
                dty = fn.local_types[tg.id]

                def bound(e):
                    if is_list(e.ty) and isinstance(s.value, ast.Name):
                        fail(f"`{tg.id}` would alias the list `{s.value.id}`", s)
                    e1 = P.bind_local(env, tg.id, dty, s, made=is_list(dty) and isinstance(s.value, ast.List))
                    return f"let {lname(tg.id)} := {coerce(e, dty, s)} in\n{cont(e1)}"
                return tr(s.value, env, bound)
            # x.attr = e on a fresh copy
            if isinstance(tg, ast.Attribute) and isinstance(tg.value, ast.Name):
                x = tg.value.id
                if x not in env.vars or x in env.params or x not in env.fresh_objs:
                    fail(f"`{x}.{tg.attr}` is written but `{x}` is not a copy made in this function", s)
                xty = env.vars[x][1]
                spec = fn.setattrs.get((xty, tg.attr))
                if spec is None:
                    fail(f"attribute store not in the vocabulary: `.{tg.attr}` of a {show(xty)}", s)
                tmpl, vty = spec

                def stored(e):
                    e1 = env.copy()
                    return f"let {lname(x)} := {tmpl.replace('{o}', lname(x)).replace('{v}', paren(coerce(e, vty, s)))} in\n{cont(e1)}"
                return tr(s.value, env, stored)
            # x = deepcopy(y): a copy this function may update
            if isinstance(tg, ast.Name) and isinstance(s.value, ast.Call) and isinstance(s.value.func, ast.Name) \
                    and s.value.func.id == "deepcopy" and "deepcopy" in fn.funcs and tg.id not in fn.local_types:
                def copied(e):
                    e1 = P.bind_local(env, tg.id, e.ty, s)
                    e1.fresh_objs.add(tg.id)
                    return f"let {lname(tg.id)} := {e.term} in\n{cont(e1)}"
                return tr(s.value, env, copied)
    return _tr_block0(ss, env, k)


def own_breaks(stmts):
    """does the body contain a `break` that belongs to THIS loop (not to a nested one)?"""
    for s in stmts:
        if isinstance(s, ast.Break):
            return True
        if isinstance(s, (ast.For, ast.While)):
            if own_breaks(s.orelse):
                return True
            continue
        for fld in ("body", "orelse", "handlers", "finalbody"):
            if own_breaks(getattr(s, fld, []) or []):
                return True
    return False


def iter_of(it, env, k, node):
    """k(kind, Coq list term, element type)"""
    def is_call(n, name, nargs):
        return isinstance(n, ast.Call) and isinstance(n.func, ast.Name) and n.func.id == name and name not in env.vars \
            and len(n.args) == nargs and not n.keywords

    if is_call(it, "range", 1):
        def with_n(n):
            if n.ty != NAT:
                fail("range(...) of something that is not a natural number", node)
            return k("range", f"seq 0 {paren(n.term)}", NAT)
        return tr(it.args[0], env, with_n)
    if is_call(it, "zip", 2):
        def with_a(a):
            def with_b(b):
                if not (is_list(a.ty) and is_list(b.ty)) or ANYLIST in (a.ty, b.ty):
                    fail("zip of something that is not two lists", node)
                return k("zip", f"combine {paren(a.term)} {paren(b.term)}", tup(a.ty[1], b.ty[1]))
            return tr(it.args[1], env, with_b)
        return tr(it.args[0], env, with_a)
    if isinstance(it, ast.Call) and isinstance(it.func, ast.Name) and it.func.id in ("range", "zip", "enumerate", "reversed"):
        fail(f"loop header form `{ast.unparse(it)}`", node)

    def with_list(e):
        if not is_list(e.ty) or e.ty == ANYLIST:
            fail("loop over something that is not a list", node)
        return k("list", e.term, e.ty[1])
    return tr(it, env, with_list)


def tr_for(s, rest, env, k):
    fn = env.fn
    if s.orelse:
        fail("for ... else", s)
    tnames = [s.target.id] if isinstance(s.target, ast.Name) else \
        [x.id for x in s.target.elts] if isinstance(s.target, ast.Tuple) and all(isinstance(x, ast.Name) for x in s.target.elts) else None
    if tnames is None or len(set(tnames)) != len(tnames):
        fail("loop target", s)
    ab = P.assigned(s.body)
    for x in tnames:
        if x in env.vars:
            fail(f"loop variable `{x}` shadows an existing name", s)
        if x in ab:
            fail(f"loop variable `{x}` is assigned in the body", s)
    for v in ab:
        if v in env.params:
            fail(f"parameter `{v}` is changed in a loop", s)
    for m in ast.walk(s.iter):
        if isinstance(m, ast.Name) and m.id in ab:
            fail(f"`{m.id}` is iterated and changed in the same loop", s)
    for n in ast.walk(ast.Module(body=s.body, type_ignores=[])):
        if isinstance(n, ast.Attribute) and isinstance(n.ctx, ast.Store):
            fail("an attribute is written inside a loop", n)
    state = [v for v in env.vars if v in ab]
    if not state:
        fail("a loop that changes no variable defined before it", s)
    has_break = own_breaks(s.body)

    def with_iter(kind, it, ety):
        benv = env.copy()
        if isinstance(s.target, ast.Name):
            benv.vars[tnames[0]] = (lname(tnames[0]), ety)
            pat = lname(tnames[0])
        else:
            if not (is_tuple(ety) and len(ety[1]) == len(tnames)):
                fail("tuple loop target over elements that are not tuples of that length", s)
            for x, t in zip(tnames, ety[1]):
                benv.vars[x] = (lname(x), t)
            pat = "'(" + ", ".join(lname(x) for x in tnames) + ")"
        for v in tnames + state:
            P.drop_narrow(benv, v)
        st = P.state_tuple(state)

        def end(flag):
            def f(e):
                for v in state:
                    if v not in e.vars or e.vars[v][1] != env.vars[v][1]:
                        fail(f"`{v}` changes its type inside the loop", s)
                    if (v in env.made) != (v in e.made):
                        fail(f"`{v}` is re-bound to a list that is not fresh inside the loop", s)
                return f"Ok ({flag}, {st})" if has_break else f"Ok {st}"
            return f
        benv.loop = end("false")
        benv.brk = end("true") if has_break else None
        body = tr_block(s.body, benv, benv.loop)
        fn.found.append((kind + ("+break" if has_break else ""), tuple(env.vars[v][1] for v in state)))
        e1 = env.copy()
        for v in state:
            P.drop_narrow(e1, v)
        fn.effects += 1
        sty = P.state_type(state, env)
        after = tr_block(rest, e1, k)
        if has_break:
            loop = (f"fold_left (fun (st_ : res (bool * {sty})) {pat} => bind st_ (fun '(brk_, {st}) =>\nif brk_ then Ok (true, {st}) else\n{body}))\n"
                    f"({it}) (Ok (false, {st}))")
            return f"bind ({loop}) (fun '(_, {st}) =>\n{after})"
        loop = f"fold_left (fun (st_ : res {sty}) {pat} => bind st_ (fun {P.state_pat(state)} =>\n{body}))\n({it}) (Ok {st})"
        return f"bind ({loop}) (fun {P.state_pat(state)} =>\n{after})"
    return iter_of(s.iter, env, with_iter, s)


def state_type(names, env):
    ts = [cty(env.vars[n][1]) for n in names]
    return paren(ts[0]) if len(ts) == 1 else "(" + " * ".join(paren(t) for t in ts) + ")"


# the private instance now runs through the functions above
P.cty, P.coerce, P.tr, P.compare, P.cond, P.Env, P.tr_block, P.tr_for, P.state_type = cty, coerce, tr, compare, cond, Env, tr_block, tr_for, state_type


# =============================================================================================
# one function
# =============================================================================================
def strip_doc(body):
    body = list(body)
    if body and isinstance(body[0], ast.Expr) and isinstance(body[0].value, ast.Constant) and isinstance(body[0].value.value, str):
        body = body[1:]
    return body


def check_import(tree, module, name):
    """`from <module> import <name>` at module level, and nothing else at module level binds <name>"""
    ok = False
    for n in tree.body:
        if isinstance(n, ast.ImportFrom) and n.module == module and any(a.name == name and a.asname is None for a in n.names):
            ok = True
        elif isinstance(n, (ast.FunctionDef, ast.ClassDef)) and n.name == name:
            fail(f"`{name}` is defined in the module (the vocabulary speaks about {module}.{name})")
        elif isinstance(n, (ast.Assign, ast.AnnAssign, ast.Import, ast.ImportFrom)):
            for m in ast.walk(n):
                if isinstance(m, ast.Name) and isinstance(m.ctx, ast.Store) and m.id == name:
                    fail(f"`{name}` is re-bound in the module")
                if isinstance(m, ast.alias) and (m.asname or m.name) == name and not (isinstance(n, ast.ImportFrom) and n.module == module):
                    fail(f"`{name}` is imported from somewhere else")
    if not ok:
        fail(f"`from {module} import {name}` not found")


def translate_function(fn, repo, trees):
    def tree_of(rel):
        if rel not in trees:
            trees[rel] = parse(repo, rel)
        return trees[rel]

    f = find_function(tree_of(fn.file), fn.cls, fn.func)
    fn.tree_body = list(tree_of(fn.file).body)
    for rel, cls, func, expected in fn.sigs:
        P.check_signature(tree_of(rel), cls, func, expected)
    for module, name in fn.imports_needed:
        check_import(tree_of(fn.file), module, name)
    for name in fn.builtins_used:
        for n in tree_of(fn.file).body:
            if isinstance(n, (ast.FunctionDef, ast.ClassDef)) and n.name == name:
                fail(f"the builtin `{name}` is shadowed in the module")
            if isinstance(n, (ast.Import, ast.ImportFrom)) and any((a.asname or a.name) == name for a in n.names):
                fail(f"the builtin `{name}` is shadowed by an import")
    fn.counter, fn.effects, fn.found = 0, 0, []
    body = strip_doc(f.body)
    a = f.args
    pynames = [x.arg for x in a.args if x.arg != "self" or "self" in fn.penv]
    if a.kwonlyargs or a.posonlyargs or a.vararg or a.kwarg:
        fail("parameter list form")
    if pynames != list(fn.penv):
        fail(f"parameters changed: {pynames} (expected {list(fn.penv)})")
    for n in ast.walk(f):
        if isinstance(n, (ast.While, ast.Try, ast.With, ast.Raise, ast.Lambda, ast.NamedExpr, ast.Global, ast.Nonlocal, ast.Delete,
                          ast.Yield, ast.YieldFrom, ast.Await, ast.FunctionDef, ast.ClassDef, ast.Starred)) and n is not f:
            fail(f"unsupported construct {type(n).__name__}", n)
        if isinstance(n, ast.Name) and n.id in fn.builtins_used and isinstance(n.ctx, ast.Store):
            fail(f"the builtin `{n.id}` is re-bound")
    env = Env(fn)
    for p in pynames:
        env.vars[p] = fn.penv[p]
        env.params.add(p)
    # leading asserts -> the definition `pre`
    pre = []
    while body and isinstance(body[0], ast.Assert):
        pre.append(body[0].test)
        body = body[1:]
    if any(isinstance(n, ast.Assert) for s in body for n in ast.walk(s)):
        fail("assert after the first statement")
    pre_terms = []
    for t in pre:
        e0 = fn.effects
        box = []
        tr(t, env, lambda e: (box.append(e), "?")[1])
        if fn.effects != e0 or len(box) != 1 or box[0].ty != BOOL:
            fail("an assert whose test can raise or is not a boolean", t)
        pre_terms.append(paren(box[0].term))
    fn.effects = 0
    if fn.prepare_body is not None:
        body = fn.prepare_body(fn, body)
    prefix = getattr(fn, "prefix", None)
    if prefix is not None:
        body, head = prefix(fn, body, env)
    term = tr_block(body, env, None)
    if prefix is not None:
        term = head(term)
    if fn.found != fn.loops:
        def shw(ls):
            return "; ".join(f"{kd} over ({', '.join(show(t) for t in ts)})" for kd, ts in ls) or "none"
        fail(f"the loops of the function ({shw(fn.found)}) are not the ones its equation is proved for ({shw(fn.loops)})")
    out = [f"Module Gen_{fn.name}.", f"(* {fn.file}: {(fn.cls + '.') if fn.cls else ''}{fn.func} *)",
           f"Definition pre {fn.params} : bool :=\n{' && '.join(pre_terms) if pre_terms else 'true'}.",
           f"Definition f {fn.params} : res {paren(cty(fn.ret))} :=\n{term}.", f"End Gen_{fn.name}."]
    return "\n".join(out)


class _CounterLog(ast.NodeTransformer):
    """`<loop variable>.num += 1` -> `num_incremented_.append(<loop variable>)`: the mutation of a table entry is rendered as a LOG of the
    entries whose counter is incremented, in order (each logged entry's `num` is one higher afterwards, once per occurrence in the log);
    any other attribute store stays and is refused later.  An `if` left without any statement by the no-op dropper (its body was a log
    line) and whose test contains no call is dropped."""

    def __init__(self):
        self.targets = []

    def visit_For(self, node):
        names = [n.id for n in ast.walk(node.target) if isinstance(n, ast.Name)]
        self.targets.append(names)
        self.generic_visit(node)
        self.targets.pop()
        node.body = self._clean(node.body)
        return node

    def visit_If(self, node):
        self.generic_visit(node)
        node.body, node.orelse = self._clean(node.body) or [ast.Pass()], self._clean(node.orelse)
        return node

    @staticmethod
    def _clean(body):
        out = []
        for st in body:
            if isinstance(st, ast.If) and all(isinstance(x, ast.Pass) for x in st.body + st.orelse) \
                    and not any(isinstance(n, ast.Call) for n in ast.walk(st.test)):
                continue
            out.append(st)
        return out

    def visit_AugAssign(self, node):
        t = node.target
        if isinstance(t, ast.Attribute) and t.attr == "num" and isinstance(t.value, ast.Name) and isinstance(node.op, ast.Add) \
                and isinstance(node.value, ast.Constant) and node.value.value == 1 and not isinstance(node.value.value, bool) \
                and any(t.value.id in names for names in self.targets):
            new = ast.Expr(value=ast.Call(func=ast.Attribute(value=ast.Name(id="num_incremented_", ctx=ast.Load()), attr="append", ctx=ast.Load()),
                                          args=[ast.Name(id=t.value.id, ctx=ast.Load())], keywords=[]))
            return ast.fix_missing_locations(ast.copy_location(new, node))
        return node


def prepare_counter_log(fn, body):
    import copy
    body = [_CounterLog().visit(copy.deepcopy(st)) for st in body]
    body = _CounterLog._clean(body)
    for st in body:
        for n in ast.walk(st):
            if isinstance(n, ast.Name) and n.id == "num_incremented_" and isinstance(n.ctx, ast.Store):
                fail("the name num_incremented_ is used by the source")
            if isinstance(n, ast.Return) and n.value is not None:
                n.value = ast.Tuple(elts=[n.value, ast.Name(id="num_incremented_", ctx=ast.Load())], ctx=ast.Load())
    init = ast.Assign(targets=[ast.Name(id="num_incremented_", ctx=ast.Store())], value=ast.List(elts=[], ctx=ast.Load()))
    if body:
        ast.copy_location(init, body[0])
    body = [init] + body
    for st in body:
        ast.fix_missing_locations(st)
    return body


def mkfn(name, file, func, params, penv, ret, **kw):
    setattrs = kw.pop("setattrs", {})
    imports_needed = kw.pop("imports_needed", ())
    builtins_used = kw.pop("builtins_used", ())
    prefix = kw.pop("prefix", None)
    prepare_body = kw.pop("prepare_body", None)
    needs_tracking = kw.pop("needs_tracking", ())
    fn = Fn(name, file, func, params, penv, ret, **kw)
    fn.setattrs, fn.imports_needed, fn.builtins_used, fn.prefix, fn.needs_tracking = setattrs, imports_needed, builtins_used, prefix, needs_tracking
    fn.prepare_body = prepare_body
    return fn


# =============================================================================================
# the functions and their vocabularies
# =============================================================================================
GEOMETRY_PY = "common/geometry.py"
DATASET_PY = "common/dataset.py"
LABEL_PY = "common/label.py"

OBJ = coqt("Lookup.obj")
FRAME = coqt("Lookup.frame")
LQ = lst(Q)
# an ObjectState as far as the interpolation reads it: (position, orientation, shape, velocity).  position / velocity are the tuples of
# floats (a list of rationals, any length); orientation is the yaw in pi-units (Lookup.o_yaw: the rotation itself is the slerp LEAF);
# shape stands for everything that is passed on as it is
STATE = coqt("state")
# a DynamicObject as far as interpolate_dynamic_object reads it: a Lookup.obj whose state is the STATE above
TIME_PARAMS = [("t1", Z, None), ("t2", Z, None), ("t", Z, None)]
TIME_SIG = [("t1", None), ("t2", None), ("t", None)]
TIME_PENV = {"t1": ("t1", Z), "t2": ("t2", Z), "t": ("t", Z)}


def prefix_neighbour_search(fn, body, env):
    """get_interpolated_now_frame: the statements before the first one that contains a `return` are the neighbour search, translated
    and tied as Gen_neighbour_search (Gen/loops_tracking.v, the same cut: loops_tracking.prepare_prefix); what is translated here is
    the rest, under the locals that search returns"""
    for i, s in enumerate(body):
        if any(isinstance(n, ast.Return) for n in ast.walk(s)):
            if i == 0:
                break
            names = ["before_frame", "after_frame", "dt_before", "dt_after"]
            types = [opt(FRAME), opt(FRAME), Z, Z]
            for nme, ty in zip(names, types):
                env.vars[nme] = (lname(nme), ty)
            pat = ", ".join(lname(n) for n in names)

            def head(term):
                return (f"bind (loops_tracking.Gen_neighbour_search.f ground_truth_frames unix_time threshold_min_time) "
                        f"(fun '({pat}) =>\n{term})")
            return body[i:], head
    fail("no statement before the first return")


def specs():
    S = []
    # ---- interpolate_list ------------------------------------------------------------------------------------------------------------
    S.append(mkfn("interpolate_list", GEOMETRY_PY, "interpolate_list", "(list_1 list_2 : list Q) (t1 t2 t : Z)",
                  dict({"list_1": ("list_1", LQ), "list_2": ("list_2", LQ)}, **TIME_PENV), LQ,
                  local_types={"state": LQ}, loops=[("range", (LQ,))], builtins_used=("range", "len")))
    # ---- interpolate_quaternion -------------------------------------------------------------------------------------------------------
    # LEAF: Quaternion.slerp(q0, q1, amount) (a classmethod, also when it is called through an instance) is `slerp_yaw q0 q1 amount`,
    # the shortest-arc specification of Model/Lookup.v at the fraction `amount` (header of the generated file)
    SLERP = CallSpec("slerp_yaw {q0} {q1} {amount}", [("q0", Q, None), ("q1", Q, None), ("amount", Q, "1 # 2")], Q)
    S.append(mkfn("interpolate_quaternion", GEOMETRY_PY, "interpolate_quaternion", "(quat_1 quat_2 : Q) (t1 t2 t : Z)",
                  dict({"quat_1": ("quat_1", Q), "quat_2": ("quat_2", Q)}, **TIME_PENV), Q,
                  methods={(Q, "slerp"): SLERP}, funcs={"Quaternion.slerp": SLERP}, imports_needed=[("pyquaternion", "Quaternion")]))
    # ---- interpolate_state --------------------------------------------------------------------------------------------------------------
    state_attrs = {(STATE, "position"): ("st_position {}", LQ), (STATE, "orientation"): ("st_orientation {}", Q),
                   (STATE, "shape"): ("st_shape {}", Z), (STATE, "velocity"): ("st_velocity {}", opt(LQ))}
    S.append(mkfn("interpolate_state", GEOMETRY_PY, "interpolate_state", "(state_1 state_2 : state) (t1 t2 t : Z)",
                  dict({"state_1": ("state_1", STATE), "state_2": ("state_2", STATE)}, **TIME_PENV), STATE,
                  attrs=state_attrs, local_types={"interpolated_velocity": opt(LQ)},
                  funcs={"interpolate_list": CallSpec("Gen_interpolate_list.f {list_1} {list_2} {t1} {t2} {t}",
                                                      [("list_1", LQ, None), ("list_2", LQ, None)] + TIME_PARAMS, LQ, eff=True),
                         "interpolate_quaternion": CallSpec("Gen_interpolate_quaternion.f {quat_1} {quat_2} {t1} {t2} {t}",
                                                            [("quat_1", Q, None), ("quat_2", Q, None)] + TIME_PARAMS, Q, eff=True),
                         "tuple": CallSpec("{x}", [("x", LQ, None)], LQ),
                         "ObjectState": CallSpec("mkState {position} {orientation} {shape} {velocity}",
                                                 [("position", LQ, None), ("orientation", Q, None), ("shape", Z, None), ("velocity", opt(LQ), None),
                                                  ("pose_covariance", NONE, "None"), ("twist_covariance", NONE, "None")], STATE)},
                  sigs=[(GEOMETRY_PY, None, "interpolate_list", [("list_1", None), ("list_2", None)] + TIME_SIG),
                        (GEOMETRY_PY, None, "interpolate_quaternion", [("quat_1", None), ("quat_2", None)] + TIME_SIG),
                        ("common/object.py", "ObjectState", "__init__", [("position", None), ("orientation", None), ("shape", None), ("velocity", None),
                                                                        ("pose_covariance", "None"), ("twist_covariance", "None")])],
                  needs=("interpolate_list", "interpolate_quaternion"), builtins_used=("tuple",),
                  imports_needed=[("perception_eval.common.object", "ObjectState")]))
    # ---- interpolate_dynamic_object -----------------------------------------------------------------------------------------------------
    # an object is (uuid, everything merely copied, unix_time, frame_id, state): `dobj` of the header
    DOBJ = coqt("dobj")
    S.append(mkfn("interpolate_dynamic_object", GEOMETRY_PY, "interpolate_dynamic_object", "(object_1 object_2 : dobj) (t1 t2 t : Z)",
                  dict({"object_1": ("object_1", DOBJ), "object_2": ("object_2", DOBJ)}, **TIME_PENV), DOBJ,
                  attrs={(DOBJ, "uuid"): ("d_uuid {}", STR), (DOBJ, "state"): ("d_state {}", STATE), (DOBJ, "unix_time"): ("d_time {}", Z)},
                  setattrs={(DOBJ, "state"): ("set_state {o} {v}", STATE), (DOBJ, "unix_time"): ("set_time {o} {v}", Z)},
                  funcs={"deepcopy": CallSpec("{x}", [("x", DOBJ, None)], DOBJ),
                         "int": CallSpec("{x}", [("x", Z, None)], Z),
                         "interpolate_state": CallSpec("Gen_interpolate_state.f {state_1} {state_2} {t1} {t2} {t}",
                                                       [("state_1", STATE, None), ("state_2", STATE, None)] + TIME_PARAMS, STATE, eff=True)},
                  sigs=[(GEOMETRY_PY, None, "interpolate_state", [("state_1", None), ("state_2", None)] + TIME_SIG)],
                  needs=("interpolate_state",), imports_needed=[("copy", "deepcopy")], builtins_used=("int",)))
    # ---- interpolate_object_list ------------------------------------------------------------------------------------------------------
    # LEAVES: interpolate_object(o1, o2, t1, t2, t) on two 3D objects (its isinstance dispatch reaches interpolate_dynamic_object) is
    # Lookup.interp_obj; deepcopy(o) is o (the model speaks about values); uuid is Lookup.o_id (None as a reserved string: None == None)
    S.append(mkfn("interpolate_object_list", GEOMETRY_PY, "interpolate_object_list", "(object_list1 object_list2 : list Lookup.obj) (t1 t2 t : Z)",
                  dict({"object_list1": ("object_list1", lst(OBJ)), "object_list2": ("object_list2", lst(OBJ))}, **TIME_PENV), lst(OBJ),
                  attrs={(OBJ, "uuid"): ("Lookup.o_id {}", STR)},
                  funcs={"interpolate_object": CallSpec("Lookup.interp_obj {t1} {t2} {t} {object_1} {object_2}",
                                                        [("object_1", OBJ, None), ("object_2", OBJ, None)] + TIME_PARAMS, OBJ),
                         "deepcopy": CallSpec("{x}", [("x", OBJ, None)], OBJ)},
                  members={(STR, STR): "existsb (String.eqb {x}) {l}"},
                  sigs=[(GEOMETRY_PY, None, "interpolate_object", [("object_1", None), ("object_2", None)] + TIME_SIG)],
                  local_types={"output_object_list": lst(OBJ), "id_list": lst(STR)}, imports_needed=[("copy", "deepcopy")],
                  loops=[("list+break", (lst(OBJ), lst(STR), BOOL)), ("list", (lst(OBJ), lst(STR))), ("list", (lst(OBJ), lst(STR)))]))
    # ---- get_interpolated_now_frame: the four-way return ----------------------------------------------------------------------------------
    # LEAF: interpolate_ground_truth_frames(before, after, unix_time) is the triple of its arguments (Lookup.interpolate_frames of them)
    INTERP = coqt("(Lookup.frame * Lookup.frame * Z)")
    S.append(mkfn("get_interpolated_now_frame", DATASET_PY, "get_interpolated_now_frame",
                  "(ground_truth_frames : list Lookup.frame) (unix_time threshold_min_time : Z)",
                  {"ground_truth_frames": ("ground_truth_frames", lst(FRAME)), "unix_time": ("unix_time", Z),
                   "threshold_min_time": ("threshold_min_time", Z)}, opt(summ(FRAME, INTERP)),
                  funcs={"interpolate_ground_truth_frames": CallSpec("({before_frame}, {after_frame}, {unix_time})",
                                                                     [("before_frame", FRAME, None), ("after_frame", FRAME, None), ("unix_time", Z, None)], INTERP)},
                  sigs=[(DATASET_PY, None, "interpolate_ground_truth_frames", [("before_frame", None), ("after_frame", None), ("unix_time", None)])],
                  prefix=prefix_neighbour_search, needs_tracking=("neighbour_search",)))
    # ---- LabelConverter.convert_label / convert_name -------------------------------------------------------------------------------------
    # self.label_infos is the table of Model/Label.v: (label key, registered name) in source order; self.count_label_number = cnt;
    # self.label_type.UNKNOWN is the key "UNKNOWN"; Label(label, name, attributes) is the triple of its arguments; str.lower is
    # StrUtil.lower; `label_info.num += 1` is logged (see _CounterLog): the second component of the result
    INFO, SELF_LC, LTYPE = coqt("(string * string)"), coqt("unit"), coqt("label_type")
    LABEL = tup(STR, STR, lst(STR))
    lc_attrs = {(SELF_LC, "label_infos"): ("tbl", lst(INFO)), (SELF_LC, "count_label_number"): ("cnt", BOOL), (SELF_LC, "label_type"): ("tt", LTYPE),
                (LTYPE, "UNKNOWN"): ('"UNKNOWN"%string', STR), (INFO, "label"): ("fst {}", STR), (INFO, "name"): ("snd {}", STR)}
    lc_methods = {(STR, "lower"): CallSpec("StrUtil.lower {self}", [], STR)}
    S.append(mkfn("convert_label", LABEL_PY, "convert_label", "(cnt : bool) (tbl : list (string * string)) (name : string) (attributes : list string)",
                  {"self": ("tt", SELF_LC), "name": ("name", STR), "attributes": ("attributes", lst(STR))}, tup(opt(LABEL), lst(INFO)),
                  cls="LabelConverter", attrs=lc_attrs, methods=lc_methods,
                  funcs={"Label": CallSpec("({label}, {name}, {attributes})", [("label", STR, None), ("name", STR, None), ("attributes", lst(STR), "[]")], LABEL)},
                  sigs=[(LABEL_PY, "Label", "__init__", [("label", None), ("name", None), ("attributes", "[]")])],
                  local_types={"return_label": opt(LABEL), "num_incremented_": lst(INFO)}, prepare_body=prepare_counter_log,
                  loops=[("list+break", (lst(INFO), opt(LABEL)))]))
    S.append(mkfn("convert_name", LABEL_PY, "convert_name", "(cnt : bool) (tbl : list (string * string)) (name : string)",
                  {"self": ("tt", SELF_LC), "name": ("name", STR)}, tup(opt(STR), lst(INFO)),
                  cls="LabelConverter", attrs=lc_attrs, methods=lc_methods,
                  local_types={"return_label": opt(STR), "num_incremented_": lst(INFO)}, prepare_body=prepare_counter_log,
                  loops=[("list", (lst(INFO), opt(STR)))]))
    return S


HEADER = """(* GENERATED by translator/loops_interp.py from the Python source of /repo on every run -- do not edit.
   One module per function of the ground-truth interpolation; `pre` = the conjunction of its leading asserts, `f` = its body after them in
   the error monad Filter.res.  A `for` loop is a fold_left over the iterated list with the tuple of the locals it changes as state; a
   loop with a `break` carries a flag.  Props/GenTieInterp.v proves each `f` equal to the hand-written model (Model/Lookup.v). *)
From Coq Require Import String.
From Coq Require Import List Bool ZArith QArith Arith.
From PE Require Import Base.QUtil.
From PE Require Base.StrUtil.
From PE Require Model.Lookup Model.Filter.
From PE Require Gen.loops_tracking.
Import ListNotations.
Import Filter.
Open Scope Q_scope.

(* ZeroDivisionError: Filter.res has no constructor of its own for it; nothing in this file renders a TypeError *)
Definition ErrZeroDiv {A : Type} : res A := ErrType.

(* LEAF  Quaternion.slerp(q0, q1, amount) on rotations about z given by their yaw in pi-units: the shortest arc from q0 to q1 travelled
   to the fraction `amount` (the specification Lookup.yaw_interp of the hand model is this at amount = Lookup.alpha) *)
Definition slerp_yaw (q0 q1 amount : Q) : Q := q0 + amount * Lookup.wrap1 (q1 - q0).

(* an ObjectState as far as the interpolation reads it: position, orientation (yaw), shape (anything passed on), velocity (Optional) *)
Definition state : Type := (list Q * Q * Z * option (list Q))%type.
Definition mkState (p : list Q) (o : Q) (s : Z) (v : option (list Q)) : state := (p, o, s, v).
Definition st_position (s : state) : list Q := fst (fst (fst s)).
Definition st_orientation (s : state) : Q := snd (fst (fst s)).
Definition st_shape (s : state) : Z := snd (fst s).
Definition st_velocity (s : state) : option (list Q) := snd s.

(* a DynamicObject as far as interpolate_dynamic_object reads it: uuid, everything that is merely deep-copied, unix_time, state *)
Definition dobj : Type := (string * Z * Z * state)%type.
Definition d_uuid (o : dobj) : string := fst (fst (fst o)).
Definition d_rest (o : dobj) : Z := snd (fst (fst o)).
Definition d_time (o : dobj) : Z := snd (fst o).
Definition d_state (o : dobj) : state := snd o.
Definition set_state (o : dobj) (s : state) : dobj := (d_uuid o, d_rest o, d_time o, s).
Definition set_time (o : dobj) (t : Z) : dobj := (d_uuid o, d_rest o, t, d_state o).
"""


def generate(repo):
    """-> (text, {function: why-not-translated})"""
    trees, out, bad, done = {}, [HEADER], {}, []
    try:
        _, lt_bad = LT.generate(repo)
        lt_err = None
    except Exception as e:  # noqa: BLE001
        lt_bad, lt_err = None, f"{type(e).__name__}: {e}"
    for fn in specs():
        try:
            if fn.needs_tracking and lt_bad is None:
                fail("Gen/loops_tracking.v could not be generated: " + lt_err)
            missing = [n for n in fn.needs if n not in done] + [n + " (Gen/loops_tracking.v)" for n in fn.needs_tracking if n in (lt_bad or {})]
            if missing:
                fail("depends on " + ", ".join(missing) + " (not translated)")
            txt = translate_function(fn, repo, trees)
        except (TranslatorError, SyntaxError, OSError, RecursionError) as e:
            bad[fn.name] = f"{type(e).__name__}: {e}" if not isinstance(e, TranslatorError) else str(e)
            out.append(f"(* {fn.name}: not translated: {bad[fn.name].replace('*)', '* )').replace('(*', '( *')} *)\n")
            continue
        except Exception as e:  # noqa: BLE001  -- a defect of the translator itself must not look like a translation
            bad[fn.name] = f"internal error {type(e).__name__}: {e}"
            out.append(f"(* {fn.name}: not translated: {bad[fn.name].replace('*)', '* )').replace('(*', '( *')} *)\n")
            continue
        done.append(fn.name)
        out.append(txt + "\n")
    out.append("Open Scope string_scope.")
    out.append("Definition translated : list string := [" + "; ".join(coq_str(n) for n in done) + "].")
    return "\n".join(out) + "\n", bad


def regenerate(repo, outdir):
    """Write <outdir>/loops_interp.v (only when the content changes).  {"loops_interp.v": None} when every function was translated,
    else {"loops_interp.v": "partial: f1: not translated: why; ..."}."""
    os.makedirs(outdir, exist_ok=True)
    txt, bad = generate(repo)
    fname = MODNAME + ".v"
    path = os.path.join(outdir, fname)
    old = None
    if os.path.exists(path):
        with open(path) as fh:
            old = fh.read()
    if old != txt:
        with open(path, "w") as fh:
            fh.write(txt)
    if not bad:
        return {fname: None}
    return {fname: "partial: " + "; ".join(f"{k}: not translated: {v}" for k, v in bad.items())}


if __name__ == "__main__":
    repo_ = sys.argv[1] if len(sys.argv) > 1 else "/repo"
    outdir_ = sys.argv[2] if len(sys.argv) > 2 else os.path.join(HERE, "..", "coq", "theories", "Gen")
    try:
        st_ = regenerate(repo_, outdir_)
    except OSError as e_:
        print(f"{MODNAME}.v: could not be written: {e_}")
        sys.exit(1)
    for k_, v_ in st_.items():
        print(f"{k_}: {'ok' if v_ is None else v_}")
    sys.exit(0)
