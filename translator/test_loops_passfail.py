#!/usr/bin/env python3
"""Self-test of translator/loops_passfail.py + coq/theories/Props/GenTiePassFail.v (same scheme as test_loops.py).

  (1) unchanged /repo: translate, build Gen/loops_passfail.v, Proofs/GenTiePassFailLemmas.v and the whole Props/GenTiePassFail.v
      (theorems closed, non-vacuity examples evaluate);
  (2) MUTANTS: one-token changes of the translated functions in a scratch copy (/tmp/gen_passfail_scratch/<id>/): each must break an
      equation (named), or fail closed in the translator, or be semantically equivalent (the reason is in the table); a mutant that
      translates, is not equivalent and still proves is reported as MISSED (exit status 1);
  (3) REFACTORINGS: behaviour-preserving rewrites: survive / translator fails closed / translated but the proof rejects.

Each theorem of GenTiePassFail.v is compiled on its own (header + that theorem), only the theorems that depend on a module whose
generated text changed.  usage: python3 translator/test_loops_passfail.py [--jobs N] [--only base|mutants|refactorings] [--keep] [ids...]
"""
import ast
import concurrent.futures as cf
import os
import re
import shutil
import subprocess
import sys
import time

HERE = os.path.dirname(os.path.abspath(__file__))
VERIF = os.path.dirname(HERE)
sys.path.insert(0, HERE)
import decisions  # noqa: E402
import loops_passfail as lp  # noqa: E402
from test_decisions import apply_edit, replace_function  # noqa: E402

REPO = "/repo"
PKGDIR = os.path.join(REPO, "perception_eval", "perception_eval")
SCRATCH = "/tmp/gen_passfail_scratch"
THEORIES = os.path.join(VERIF, "coq", "theories")
COQ_TIMEOUT = 400
GEN = lp.MODNAME + ".v"

FPY, RPY, PPY = lp.FILTER_PY, lp.RESULT_PY, lp.PASSFAIL_PY
RC, PC = "DynamicObjectWithPerceptionResult", "PassFailResult"
FO, FR, GS, GP, GN = "filter_objects", "filter_object_results", "get_status", "get_positive_objects", "get_negative_objects"
EV, HP, NS, NF = "evaluate", "__get_positive_object_results", "get_num_success", "get_num_fail"

# which generated modules each theorem rests on (its own and, through the scripts of the header, those of its callees)
THEOREM_MODULES = {
    "GenTie_filter_objects": ["Gen_filter_objects"],
    "GenTie_filter_object_results": ["Gen_filter_object_results"],
    "GenTie_get_status": ["Gen_get_status"],
    "GenTie_get_positive_objects": ["Gen_get_positive_objects", "Gen_get_status"],
    "GenTie_get_negative_objects": ["Gen_get_negative_objects", "Gen_get_status"],
    "GenTie_PassFailResult_evaluate": ["Gen_PassFailResult_evaluate", "Gen_PassFailResult_get_positive_object_results",
                                       "Gen_get_positive_objects", "Gen_get_negative_objects", "Gen_get_status"],
    "GenTie_PassFailResult_get_num": ["Gen_PassFailResult_get_num_success", "Gen_PassFailResult_get_num_fail"],
}

# (id, file, class, function, old, new, expected, why)   expected: caught | closed (translator fails closed) | equivalent
MUTANTS = [
    # ---- filter_objects
    ("F01", FPY, None, FO, "        if is_target:\n            filtered_objects.append", "        if not is_target:\n            filtered_objects.append", "caught", ""),
    ("F02", FPY, None, FO, "is_gt=is_gt,", "is_gt=True,", "caught", ""),
    ("F03", FPY, None, FO, "max_x_position_list=max_x_position_list,\n            max_y", "max_x_position_list=max_y_position_list,\n            max_y", "caught", ""),
    ("F04", FPY, None, FO, "transforms=transforms,\n        )\n        if is_target", "transforms=None,\n        )\n        if is_target", "caught", ""),
    ("F05", FPY, None, FO, "            confidence_threshold_list=confidence_threshold_list,\n", "", "caught", "the argument is no longer forwarded (the callee's default None)"),
    ("F06", FPY, None, FO, "for object_ in objects:", "for object_ in reversed(objects):", "closed", "another iteration order: not the loop the equation is proved for"),
    ("F07", FPY, None, FO, "target_uuids=target_uuids,", "target_uuids=ignore_attributes,", "caught", ""),
    ("F08", FPY, None, FO, "filtered_objects.append(object_)", "filtered_objects.append(objects[0])", "closed", "subscripts are not translated here"),
    # ---- filter_object_results
    ("F10", FPY, None, FR, "if is_target and object_result.ground_truth_object:", "if is_target or object_result.ground_truth_object:", "closed",
     "the ground truth would be handed to the callee on a path where it may be None"),
    ("F11", FPY, None, FR, "is_gt=False,", "is_gt=True,", "caught", ""),
    ("F12", FPY, None, FR, "is_gt=True,", "is_gt=False,", "caught", ""),
    ("F13", FPY, None, FR, "is_target = is_target and _is_target_object(", "is_target = is_target or _is_target_object(", "caught",
     "the ground-truth side is no longer evaluated"),
    ("F14", FPY, None, FR, "elif target_uuids and object_result.ground_truth_object is None:", "elif target_uuids or object_result.ground_truth_object is None:", "caught", ""),
    ("F15", FPY, None, FR, "            is_target = False\n", "            is_target = True\n", "caught", ""),
    ("F16", FPY, None, FR, "dynamic_object=object_result.estimated_object,", "dynamic_object=object_result.ground_truth_object,", "closed",
     "an Optional handed to the callee"),
    ("F17", FPY, None, FR, "                min_point_numbers=min_point_numbers,\n", "", "caught", ""),
    ("F18", FPY, None, FR, "confidence_threshold_list=confidence_threshold_list,", "confidence_threshold_list=None,", "caught", ""),
    ("F19", FPY, None, FR, "elif target_uuids and object_result", "elif target_uuids is not None and object_result", "caught",
     "an EMPTY uuid list would now drop the results without ground truth"),
    ("F20", FPY, None, FR, "is_target = is_target and _is_target_object(", "is_target = _is_target_object(", "equivalent",
     "is_target is True on that path"),
    ("F21", FPY, None, FR, "                target_uuids=target_uuids,\n", "", "caught", ""),
    ("F22", FPY, None, FR, "                ignore_attributes=ignore_attributes,\n", "                ignore_attributes=target_uuids,\n", "caught", ""),
    ("F23", FPY, None, FR, "elif target_uuids and object_result.ground_truth_object is None:", "elif target_uuids and object_result.ground_truth_object is not None:", "caught", ""),
    # ---- get_status
    ("S01", RPY, RC, GS, "(MatchingStatus.FP, MatchingStatus.TN)", "(MatchingStatus.FP, MatchingStatus.FP)", "caught", ""),
    ("S02", RPY, RC, GS, "if self.ground_truth_object is None:\n            return (MatchingStatus.FP, None)", "if self.ground_truth_object is not None:\n            return (MatchingStatus.FP, None)", "closed",
     "the label of a ground truth that is None would be read"),
    ("S03", RPY, RC, GS, "(MatchingStatus.TP, MatchingStatus.TP)", "(MatchingStatus.TP, MatchingStatus.FN)", "caught", ""),
    ("S04", RPY, RC, GS, "if self.is_result_correct(matching_mode, matching_threshold):", "if not self.is_result_correct(matching_mode, matching_threshold):", "caught", ""),
    ("S05", RPY, RC, GS, "return (MatchingStatus.FP, None)", "return (MatchingStatus.TP, None)", "caught", ""),
    ("S06", RPY, RC, GS, "self.is_result_correct(matching_mode, matching_threshold)", "self.is_result_correct(matching_mode, None)", "caught", ""),
    ("S07", RPY, RC, GS, "(MatchingStatus.FP, MatchingStatus.FN)", "(MatchingStatus.FN, MatchingStatus.FP)", "caught", ""),
    # ---- get_positive_objects
    ("P01", FPY, None, GP, "semantic_label=object_result.ground_truth_object.semantic_label,", "semantic_label=object_result.estimated_object.semantic_label,", "caught",
     "the threshold of the ESTIMATE's label"),
    ("P02", FPY, None, GP, "            fp_object_results.append(object_result)\n            continue", "            fp_object_results.append(object_result)\n            pass", "closed",
     "the label of a ground truth that is None would be read"),
    ("P03", FPY, None, GP, "if est_status == MatchingStatus.FP:", "if est_status == MatchingStatus.TP:", "caught", ""),
    ("P04", FPY, None, GP, "if gt_status == MatchingStatus.TN:", "if gt_status == MatchingStatus.FP:", "caught", ""),
    ("P05", FPY, None, GP, "            else:\n                fp_object_results.append(object_result)", "            else:\n                tp_object_results.append(object_result)", "caught", ""),
    ("P06", FPY, None, GP, "est_status == MatchingStatus.TP and gt_status == MatchingStatus.TP", "est_status == MatchingStatus.TP or gt_status == MatchingStatus.TP", "equivalent",
     "get_status returns TP for the ground truth exactly when it returns TP for the estimate"),
    ("P07", FPY, None, GP, "target_labels=target_labels,", "target_labels=None,", "caught", ""),
    ("P08", FPY, None, GP, "                        None,\n", "                        object_result.ground_truth_object,\n", "closed",
     "the model only covers the re-emission without ground truth"),
    ("P09", FPY, None, GP, "return tp_object_results, fp_object_results", "return fp_object_results, tp_object_results", "caught", ""),
    ("P10", FPY, None, GP, "threshold_list=matching_threshold_list,", "threshold_list=None,", "caught", ""),
    ("P11", FPY, None, GP, "est_status, gt_status = object_result.get_status", "gt_status, est_status = object_result.get_status", "caught", ""),
    ("P12", FPY, None, GP, "            fp_object_results.append(object_result)\n            continue", "            tp_object_results.append(object_result)\n            continue", "caught", ""),
    ("P13", FPY, None, GP, "tp_object_results.append(object_result)\n\n    return", "fp_object_results.append(object_result)\n\n    return", "caught", ""),
    ("P14", FPY, None, GP, "object_result.get_status(matching_mode, matching_threshold)", "object_result.get_status(matching_mode, None)", "caught", ""),
    # ---- get_negative_objects
    ("N01", FPY, None, GN, "if gt_status == MatchingStatus.TN:", "if gt_status == MatchingStatus.TP:", "caught", ""),
    ("N02", FPY, None, GN, "elif gt_status == MatchingStatus.FN:", "elif gt_status == MatchingStatus.FP:", "caught", ""),
    ("N03", FPY, None, GN, "if gt_status is not None:", "if gt_status is None:", "caught", ""),
    ("N04", FPY, None, GN, "if ground_truth_object in non_candidates:", "if ground_truth_object not in non_candidates:", "caught", ""),
    ("N05", FPY, None, GN, "if ground_truth_object.semantic_label.is_fp():", "if ground_truth_object.semantic_label.is_unknown():", "caught", ""),
    ("N06", FPY, None, GN, "if object_result.ground_truth_object is not None\n", "if object_result.ground_truth_object is None\n", "closed",
     "the label of a ground truth that is None would be read"),
    ("N07", FPY, None, GN, "            tn_objects.append(ground_truth_object)\n", "            fn_objects.append(ground_truth_object)\n", "caught", ""),
    ("N08", FPY, None, GN, "            continue\n", "            break\n", "closed", "break is not translated"),
    ("N09", FPY, None, GN, "return tn_objects, fn_objects", "return fn_objects, tn_objects", "caught", ""),
    ("N10", FPY, None, GN, "non_candidates.append(object_result.ground_truth_object)", "non_candidates.append(object_result.estimated_object)", "caught", ""),
    ("N11", FPY, None, GN, "            target_labels,\n            matching_threshold_list,\n", "            matching_threshold_list,\n            target_labels,\n", "closed",
     "positional arguments swapped: types differ"),
    ("N12", FPY, None, GN, "            fn_objects.append(object_result.ground_truth_object)", "            tn_objects.append(object_result.ground_truth_object)", "caught", ""),
    ("N13", FPY, None, GN, "else object_result.estimated_object.semantic_label", "else object_result.estimated_object.semantic_label if False else object_result.estimated_object.semantic_label", "equivalent",
     "a dead conditional (control: the generated text is unchanged or provably equal)"),
    ("N14", FPY, None, GN, "for ground_truth_object in ground_truth_objects:", "for ground_truth_object in non_candidates:", "closed",
     "another list is iterated (and its elements are Optional)"),
    # ---- PassFailResult
    ("E01", PPY, PC, EV, "            ground_truth_objects,\n            object_results,\n", "            object_results,\n            ground_truth_objects,\n", "closed", "types differ"),
    ("E02", PPY, PC, EV, "self.frame_pass_fail_config.matching_threshold_list,\n        )", "None,\n        )", "caught", ""),
    ("E03", PPY, PC, EV, "else MatchingMode.PLANEDISTANCE,", "else MatchingMode.CENTERDISTANCE,", "closed", "the model only covers the plane distance"),
    ("E04", PPY, PC, EV, "self.tp_object_results, self.fp_object_results = self", "self.fp_object_results, self.tp_object_results = self", "caught", ""),
    ("E05", PPY, PC, EV, "self.tn_objects, self.fn_objects = get_negative_objects", "self.fn_objects, self.tn_objects = get_negative_objects", "caught", ""),
    ("E06", PPY, PC, NS, "len(self.tp_object_results) + len(self.tn_objects)", "len(self.tp_object_results) + len(self.fn_objects)", "caught", ""),
    ("E07", PPY, PC, NF, "len(self.fp_object_results) + len(self.fn_objects)", "len(self.fp_object_results) - len(self.fn_objects)", "closed", "subtraction of lengths is not translated"),
    ("E08", PPY, PC, HP, "target_labels=self.frame_pass_fail_config.target_labels,", "target_labels=None,", "caught", ""),
    ("E09", PPY, PC, EV, "self.frame_pass_fail_config.target_labels,\n            MatchingMode", "None,\n            MatchingMode", "caught", ""),
    ("E10", PPY, PC, NF, "len(self.fp_object_results) + len(self.fn_objects)", "len(self.tp_object_results) + len(self.fn_objects)", "caught", ""),
]

IS_TARGET_ARGS = """target_labels=target_labels,
            ignore_attributes=ignore_attributes,
            max_x_position_list=max_x_position_list,
            max_y_position_list=max_y_position_list,
            max_distance_list=max_distance_list,
            min_distance_list=min_distance_list,
            min_point_numbers=min_point_numbers,
            target_uuids=target_uuids,
            confidence_threshold_list=confidence_threshold_list,
            transforms=transforms,"""
FO_SIG = """def filter_objects(objects, is_gt, target_labels=None, ignore_attributes=None, max_x_position_list=None, max_y_position_list=None,
                   max_distance_list=None, min_distance_list=None, min_point_numbers=None, confidence_threshold_list=None,
                   target_uuids=None, transforms=None, *args, **kwargs):"""
FR_SIG = """def filter_object_results(object_results, target_labels=None, ignore_attributes=None, max_x_position_list=None,
                          max_y_position_list=None, max_distance_list=None, min_distance_list=None, min_point_numbers=None,
                          confidence_threshold_list=None, target_uuids=None, transforms=None, *args, **kwargs):"""
EST_CALL = """_is_target_object(
            dynamic_object=object_result.estimated_object, is_gt=False, target_labels=target_labels,
            max_x_position_list=max_x_position_list, max_y_position_list=max_y_position_list, max_distance_list=max_distance_list,
            min_distance_list=min_distance_list, confidence_threshold_list=confidence_threshold_list, transforms=transforms)"""
GT_CALL = """_is_target_object(
                dynamic_object=%s, is_gt=True, target_labels=target_labels, ignore_attributes=ignore_attributes,
                max_x_position_list=max_x_position_list, max_y_position_list=max_y_position_list, max_distance_list=max_distance_list,
                min_distance_list=min_distance_list, min_point_numbers=min_point_numbers, target_uuids=target_uuids,
                transforms=transforms)"""

# (id, description, file, class, function, new source of the whole function)
REFACTORINGS = [
    ("R01", "filter_objects: the loop as a list comprehension", FPY, None, FO, FO_SIG + """
    return [
        object_ for object_ in objects
        if _is_target_object(dynamic_object=object_, is_gt=is_gt, """ + IS_TARGET_ARGS + """)
    ]
"""),
    ("R02", "filter_objects: early `continue`, positional first arguments, logging", FPY, None, FO, FO_SIG + """
    filtered_objects: List[ObjectType] = []
    for object_ in objects:
        if not _is_target_object(object_, is_gt, """ + IS_TARGET_ARGS + """):
            logging.debug("dropped")
            continue
        filtered_objects.append(object_)
    return filtered_objects
"""),
    ("R03", "filter_objects: comprehension into a local, then returned; arguments in another order", FPY, None, FO, FO_SIG + """
    kept: List[ObjectType] = [
        o for o in objects
        if _is_target_object(transforms=transforms, is_gt=is_gt, dynamic_object=o, target_uuids=target_uuids,
                             confidence_threshold_list=confidence_threshold_list, min_point_numbers=min_point_numbers,
                             min_distance_list=min_distance_list, max_distance_list=max_distance_list,
                             max_y_position_list=max_y_position_list, max_x_position_list=max_x_position_list,
                             ignore_attributes=ignore_attributes, target_labels=target_labels)
    ]
    return kept
"""),
    ("R04", "filter_object_results: conjuncts reordered (`ground truth and is_target`)", FPY, None, FR, FR_SIG + """
    filtered_object_results: List[DynamicObjectWithPerceptionResult] = []
    for object_result in object_results:
        is_target: bool = """ + EST_CALL + """
        if object_result.ground_truth_object and is_target:
            is_target = is_target and """ + (GT_CALL % "object_result.ground_truth_object") + """
        elif object_result.ground_truth_object is None and target_uuids:
            is_target = False
        if is_target:
            filtered_object_results.append(object_result)
    return filtered_object_results
"""),
    ("R05", "filter_object_results: nested ifs instead of and / elif, `is not None` instead of truthiness", FPY, None, FR, FR_SIG + """
    filtered_object_results: List[DynamicObjectWithPerceptionResult] = []
    for object_result in object_results:
        is_target: bool = """ + EST_CALL + """
        if object_result.ground_truth_object is not None:
            if is_target:
                is_target = """ + (GT_CALL % "object_result.ground_truth_object") + """
        elif target_uuids:
            is_target = False
        if is_target:
            filtered_object_results.append(object_result)
    return filtered_object_results
"""),
    ("R06", "filter_object_results: early `continue` for a rejected estimate, ground truth in a local", FPY, None, FR, FR_SIG + """
    filtered_object_results: List[DynamicObjectWithPerceptionResult] = []
    for object_result in object_results:
        if not """ + EST_CALL + """:
            continue
        ground_truth = object_result.ground_truth_object
        if ground_truth is None:
            if target_uuids:
                continue
        elif not """ + (GT_CALL % "ground_truth") + """:
            continue
        filtered_object_results.append(object_result)
    return filtered_object_results
"""),
    ("R07", "get_status: if / else statements instead of conditional expressions, is_fp in a local", RPY, RC, GS, """
def get_status(self, matching_mode, matching_threshold):
    if self.ground_truth_object is None:
        return (MatchingStatus.FP, None)
    gt_is_fp: bool = self.ground_truth_object.semantic_label.is_fp()
    if not self.is_result_correct(matching_mode, matching_threshold):
        if gt_is_fp:
            return (MatchingStatus.FP, MatchingStatus.FP)
        return (MatchingStatus.FP, MatchingStatus.FN)
    if gt_is_fp:
        return (MatchingStatus.FP, MatchingStatus.TN)
    else:
        return (MatchingStatus.TP, MatchingStatus.TP)
"""),
    ("R08", "get_positive_objects: else instead of continue, constants on the left, conjuncts reordered, logging", FPY, None, GP, """
def get_positive_objects(object_results, target_labels, matching_mode=None, matching_threshold_list=None):
    tp_object_results: List[DynamicObjectWithPerceptionResult] = []
    fp_object_results: List[DynamicObjectWithPerceptionResult] = []
    for object_result in object_results:
        if object_result.ground_truth_object is not None:
            matching_threshold = get_label_threshold(
                object_result.ground_truth_object.semantic_label, target_labels, matching_threshold_list
            )
            est_status, gt_status = object_result.get_status(matching_mode, matching_threshold)
            logging.debug("classified")
            if MatchingStatus.TP == gt_status and MatchingStatus.TP == est_status:
                tp_object_results.append(object_result)
            elif MatchingStatus.FP == est_status:
                if gt_status != MatchingStatus.TN:
                    fp_object_results.append(object_result)
                else:
                    fp_object_results.append(
                        DynamicObjectWithPerceptionResult(object_result.estimated_object, None, object_result.matching_label_policy)
                    )
        else:
            fp_object_results.append(object_result)
    return tp_object_results, fp_object_results
"""),
    ("R09", "get_negative_objects: label in a local, early continue, remembered before it is filed, `not in` + nested if", FPY, None, GN, """
def get_negative_objects(ground_truth_objects, object_results, target_labels, matching_mode=None, matching_threshold_list=None):
    tn_objects: List[DynamicObject] = []
    fn_objects: List[DynamicObject] = []
    non_candidates: List[ObjectType] = []
    for object_result in object_results:
        label = (
            object_result.estimated_object.semantic_label
            if object_result.ground_truth_object is None
            else object_result.ground_truth_object.semantic_label
        )
        matching_threshold = get_label_threshold(label, target_labels, matching_threshold_list)
        _, gt_status = object_result.get_status(matching_mode, matching_threshold)
        if gt_status is None:
            continue
        non_candidates.append(object_result.ground_truth_object)
        if gt_status == MatchingStatus.FN:
            fn_objects.append(object_result.ground_truth_object)
        elif gt_status == MatchingStatus.TN:
            tn_objects.append(object_result.ground_truth_object)
    for ground_truth_object in ground_truth_objects:
        if ground_truth_object not in non_candidates:
            if not ground_truth_object.semantic_label.is_fp():
                fn_objects.append(ground_truth_object)
            else:
                tn_objects.append(ground_truth_object)
    return tn_objects, fn_objects
"""),
    ("R10", "get_negative_objects: the second loop as two list comprehensions appended with +", FPY, None, GN, """
def get_negative_objects(ground_truth_objects, object_results, target_labels, matching_mode=None, matching_threshold_list=None):
    tn_objects: List[DynamicObject] = []
    fn_objects: List[DynamicObject] = []
    non_candidates: List[ObjectType] = []
    for object_result in object_results:
        matching_threshold = get_label_threshold(
            (
                object_result.ground_truth_object.semantic_label
                if object_result.ground_truth_object is not None
                else object_result.estimated_object.semantic_label
            ),
            target_labels,
            matching_threshold_list,
        )
        _, gt_status = object_result.get_status(matching_mode, matching_threshold)
        if gt_status == MatchingStatus.TN:
            tn_objects.append(object_result.ground_truth_object)
        elif gt_status == MatchingStatus.FN:
            fn_objects.append(object_result.ground_truth_object)
        if gt_status is not None:
            non_candidates.append(object_result.ground_truth_object)
    rest = [g for g in ground_truth_objects if g not in non_candidates]
    return tn_objects + [g for g in rest if g.semantic_label.is_fp()], fn_objects + [g for g in rest if not g.semantic_label.is_fp()]
"""),
    ("R11", "PassFailResult.evaluate: get_positive_objects called directly, results in locals first, keywords", PPY, PC, EV, """
def evaluate(self, object_results, ground_truth_objects) -> None:
    tp, fp = get_positive_objects(
        object_results,
        self.frame_pass_fail_config.target_labels,
        MatchingMode.PLANEDISTANCE if not self.frame_pass_fail_config.evaluation_task.is_2d() else MatchingMode.IOU2D,
        self.frame_pass_fail_config.matching_threshold_list,
    )
    tn, fn = get_negative_objects(
        ground_truth_objects=ground_truth_objects,
        object_results=object_results,
        target_labels=self.frame_pass_fail_config.target_labels,
        matching_mode=MatchingMode.IOU2D if self.frame_pass_fail_config.evaluation_task.is_2d() else MatchingMode.PLANEDISTANCE,
        matching_threshold_list=self.frame_pass_fail_config.matching_threshold_list,
    )
    self.tn_objects, self.fn_objects = tn, fn
    self.tp_object_results, self.fp_object_results = tp, fp
"""),
    ("R12", "get_num_success: operands swapped, through locals", PPY, PC, NS, """
def get_num_success(self) -> int:
    num_tn: int = len(self.tn_objects)
    num_tp: int = len(self.tp_object_results)
    return num_tn + num_tp
"""),
    ("R13", "get_positive_objects: extracted helper predicate (a module-level single-return function)", FPY, None, GP, """
def get_positive_objects(object_results, target_labels, matching_mode=None, matching_threshold_list=None):
    tp_object_results: List[DynamicObjectWithPerceptionResult] = []
    fp_object_results: List[DynamicObjectWithPerceptionResult] = []
    for object_result in object_results:
        if object_result.ground_truth_object is None:
            fp_object_results.append(object_result)
            continue
        matching_threshold = get_label_threshold(
            semantic_label=object_result.ground_truth_object.semantic_label,
            target_labels=target_labels,
            threshold_list=matching_threshold_list,
        )
        est_status, gt_status = object_result.get_status(matching_mode, matching_threshold)
        if est_status == MatchingStatus.FP:
            if gt_status == MatchingStatus.TN:
                fp_object_results.append(
                    DynamicObjectWithPerceptionResult(object_result.estimated_object, None, object_result.matching_label_policy)
                )
            else:
                fp_object_results.append(object_result)
        elif _both_tp(est_status, gt_status):
            tp_object_results.append(object_result)
    return tp_object_results, fp_object_results


def _both_tp(est_status, gt_status):
    return est_status == MatchingStatus.TP and gt_status == MatchingStatus.TP
"""),
]


# ---------------------------------------------------------------------------------------------------------------------
def needed_files():
    return sorted({fn.file for fn in lp.specs()} | {fn.file for fn in decisions.specs()} | {rel for fn in lp.specs() for rel, _, _, _ in fn.sigs})


def make_scratch(n):
    d = os.path.join(SCRATCH, str(n))
    shutil.rmtree(d, ignore_errors=True)
    for rel in needed_files():
        dst = os.path.join(d, "repo", "perception_eval", "perception_eval", rel)
        os.makedirs(os.path.dirname(dst), exist_ok=True)
        shutil.copy(os.path.join(PKGDIR, rel), dst)
    os.makedirs(os.path.join(d, "coq"))
    return d


def split_gentie():
    with open(os.path.join(THEORIES, "Props", "GenTiePassFail.v")) as f:
        txt = f.read()
    a, b = "From PE Require Gen.Decisions Gen.loops_passfail.\nImport Gen.Decisions Gen.loops_passfail.", \
        "From PE Require Gen.Decisions.\nFrom SCR Require loops_passfail.\nImport Gen.Decisions loops_passfail."
    assert a in txt
    whole = txt.replace(a, b)
    m0 = re.search(r"^\(\* ---- ", whole, flags=re.M)
    header, blocks = whole[:m0.start()], {}
    for m in re.finditer(r"(?ms)^Theorem (\w+)\b.*?^Print Assumptions \1\.", whole):
        blocks[m.group(1)] = m.group(0) + "\n"
    assert set(blocks) == set(THEOREM_MODULES), (sorted(blocks), sorted(THEOREM_MODULES))
    return whole, header, blocks


def modules_of(text):
    return {m.group(1): m.group(2) for m in re.finditer(r"(?s)Module (Gen_\w+)\.(.*?)End \1\.", text)}


def coqc(args, cwd):
    try:
        p = subprocess.run(["timeout", str(COQ_TIMEOUT), "coqc"] + args, cwd=cwd, capture_output=True, text=True)
        return p.returncode, p.stdout + p.stderr
    except Exception as e:  # noqa: BLE001
        return 99, str(e)


def check_text(d, name, text, nthm):
    fn = os.path.join(d, "coq", f"T_{name}.v")
    with open(fn, "w") as f:
        f.write(text)
    t0 = time.time()
    rc, out = coqc(["-Q", THEORIES, "PE", "-Q", os.path.join(d, "coq"), "SCR", fn], os.path.join(d, "coq"))
    dt = time.time() - t0
    if rc == 0 and out.count("Closed under the global context") == nthm and "Axioms:" not in out:
        return "ok", dt
    if rc == 124:
        return "timeout", dt
    m = re.search(r"Error:\s*(.*)", out, re.S)
    return "FAILS: " + (" ".join(m.group(1).split())[:110] if m else f"rc={rc}"), dt


def run_variant(n, edits, header, blocks, base_modules):
    """-> (translator status, {theorem: (result, seconds)}, scratch dir)"""
    d = make_scratch(n)
    for rel, fn in edits:
        path = os.path.join(d, "repo", "perception_eval", "perception_eval", rel)
        with open(path) as f:
            src = f.read()
        new = fn(src)
        ast.parse(new)
        assert new != src, "the edit changes nothing"
        with open(path, "w") as f:
            f.write(new)
    st = lp.regenerate(os.path.join(d, "repo"), os.path.join(d, "coq"))[GEN]
    with open(os.path.join(d, "coq", GEN)) as f:
        mods = modules_of(f.read())
    rc, out = coqc(["-Q", THEORIES, "PE", "-Q", os.path.join(d, "coq"), "SCR", GEN], os.path.join(d, "coq"))
    if rc != 0:
        return st, {"<" + GEN + ">": ("FAILS to compile: " + " ".join(out.split())[:200], 0)}, d
    if base_modules is None:
        todo = list(blocks)
    else:
        changed = [m for m in base_modules if mods.get(m) != base_modules[m]]
        todo = [t for t in blocks if any(m in changed for m in THEOREM_MODULES[t])]
    res = {}
    for t in todo:
        missing = [m for m in THEOREM_MODULES[t] if m not in mods]
        if missing:
            res[t] = ("LOST: " + ", ".join(missing) + " not translated", 0)
        else:
            res[t] = check_text(d, t, header + blocks[t], 1)
    return st, res, d


def main():
    jobs = 4
    only = None
    keep = "--keep" in sys.argv
    if "--jobs" in sys.argv:
        jobs = min(4, int(sys.argv[sys.argv.index("--jobs") + 1]))
    if "--only" in sys.argv:
        only = sys.argv[sys.argv.index("--only") + 1]
    ids = [a for a in sys.argv[1:] if re.fullmatch(r"[A-Z]\d\d", a)]
    shutil.rmtree(SCRATCH, ignore_errors=True)
    os.makedirs(SCRATCH)
    for rel in ("Gen/Decisions.v", "Proofs/GenTieLemmas.v", "Proofs/GenTiePassFailLemmas.v"):
        if rel.startswith("Gen/") and os.path.exists(os.path.join(THEORIES, rel + "o")):
            continue
        rc, out = coqc(["-Q", THEORIES, "PE", os.path.join(THEORIES, rel)], THEORIES)
        if rc != 0:
            print(rel, "does not compile:", out)
            return 1
    whole, header, blocks = split_gentie()
    failures = 0
    # ---- (1) unchanged repo
    t0 = time.time()
    st, res, d0 = run_variant("base", [], header, blocks, None)
    with open(os.path.join(d0, "coq", GEN)) as f:
        base_modules = modules_of(f.read())
    print(f"(1) UNCHANGED /repo: translation: {'all translated' if st is None else st}")
    for k, (r, dt) in res.items():
        print(f"    {k:55s} {r}  ({dt:.1f}s)")
    bad = [k for k, v in res.items() if v[0] != "ok"]
    r, dt = check_text(d0, "whole_file", whole, len(blocks))
    print(f"    {'<the whole file, with the non-vacuity examples>':55s} {r}  ({dt:.1f}s)")
    print(f"    -> {len(res) - len(bad)}/{len(res)} theorems closed, {time.time() - t0:.0f}s")
    if bad or st is not None or r != "ok":
        failures += 1
    if only == "base":
        if not keep:
            shutil.rmtree(SCRATCH, ignore_errors=True)
        return failures
    with cf.ThreadPoolExecutor(max_workers=jobs) as pool:
        # ---- (2) mutants
        if only in (None, "mutants"):
            print("\n(2) MUTANTS (one token each)")
            tally = {}
            todo = [m for m in MUTANTS if not ids or m[0] in ids]
            futs = [pool.submit(run_variant, m[0], [(m[1], lambda s, c=m[2], f=m[3], o=m[4], n=m[5]: apply_edit(s, c, f, o, n))], header, blocks, base_modules)
                    for m in todo]
            for (mid, rel, cls, func, old, new, expected, why), fut in zip(todo, futs):
                try:
                    st, res, d = fut.result()
                except Exception as e:  # noqa: BLE001
                    print(f"  {mid} ERROR {e}")
                    failures += 1
                    continue
                badt = [f"{k} [{v[0]}]" for k, v in res.items() if v[0] != "ok"]
                if st:
                    verdict = "fails closed (translator)"
                    okv = expected in ("closed", "caught", "equivalent")
                elif not res:
                    verdict = "generated text unchanged" + (" (equivalent)" if expected == "equivalent" else "")
                    okv = expected == "equivalent"
                elif badt:
                    verdict = "caught" if expected != "equivalent" else "equivalent, proof script rejects"
                    okv = True
                else:
                    verdict = "equivalent, still proves" if expected == "equivalent" else "MISSED"
                    okv = expected == "equivalent"
                if expected == "equivalent" and st:
                    verdict = "equivalent, fails closed"
                if expected == "closed" and not st:
                    verdict += " (expected to fail closed)"
                tally[verdict] = tally.get(verdict, 0) + 1
                if not okv:
                    failures += 1
                    verdict += "  <<<<<< UNEXPECTED"
                desc = f"{func}: {' '.join(old.split())[:58]!r} -> {' '.join(new.split())[:58]!r}"
                print(f"  {mid} {verdict:34s} {desc}")
                if why:
                    print(f"        note: {why}")
                if st:
                    print(f"        translator: {st[:260]}")
                for b in badt:
                    print(f"        breaks: {b[:190]}")
                if not keep:
                    shutil.rmtree(d, ignore_errors=True)
            print("  tally:", tally)
        # ---- (3) refactorings
        if only in (None, "refactorings"):
            print("\n(3) REFACTORINGS (behaviour preserving)")
            survived = 0
            allr = [r for r in REFACTORINGS if not ids or r[0] in ids]
            futs = [pool.submit(run_variant, rid, [(rel, lambda s, c=cls, f=func, n=new: replace_function(s, c, f, n))], header, blocks, base_modules)
                    for (rid, desc, rel, cls, func, new) in allr]
            for (rid, desc, rel, cls, func, new), fut in zip(allr, futs):
                try:
                    st, res, d = fut.result()
                except Exception as e:  # noqa: BLE001
                    print(f"  {rid} ERROR {e}")
                    failures += 1
                    continue
                badt = [f"{k} [{v[0]}]" for k, v in res.items() if v[0] != "ok"]
                if st:
                    verdict = "translator FAILS CLOSED"
                elif badt:
                    verdict = "translated, proof REJECTS"
                else:
                    verdict = "survives" + ("" if res else " (generated text identical)")
                    survived += 1
                print(f"  {rid} {verdict:28s} {desc}  [{len(res)} theorem(s) re-checked]")
                if st:
                    print(f"        translator: {st[:260]}")
                for b in badt:
                    print(f"        breaks: {b[:190]}")
                if not keep:
                    shutil.rmtree(d, ignore_errors=True)
            print(f"  {survived}/{len(allr)} refactorings survive")
    if not keep:
        shutil.rmtree(SCRATCH, ignore_errors=True)
    return 1 if failures else 0


if __name__ == "__main__":
    sys.exit(main())
