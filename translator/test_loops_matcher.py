#!/usr/bin/env python3
"""Self-test of translator/loops_matcher.py + coq/theories/Props/GenTieMatcher.v (same scheme as test_loops_classif.py).

  (1) unchanged /repo: translate, build Gen/loops_matcher.v, Proofs/GenTieMatcherLemmas.v and the whole Props/GenTieMatcher.v (theorems
      closed, non-vacuity examples evaluate);
  (2) MUTANTS: one-token changes of the translated functions in a scratch copy (/tmp/gen_matcher_scratch/<id>/): each must break an
      equation (named), or fail closed in the translator, or be semantically equivalent (the reason is in the table); a mutant that
      translates, is not equivalent and still proves is reported as MISSED (exit status 1);
  (3) REFACTORINGS: behaviour-preserving rewrites: survive / translator fails closed / translated but the proof rejects.

The generated file carries the fixed text the lemma file is stated over, so every scratch copy compiles its own copy of
Proofs/GenTieMatcherLemmas.v against its own generated file.  Each theorem of GenTieMatcher.v is compiled on its own (header + that
theorem), only the theorems that depend on a module whose generated text changed.
usage: python3 translator/test_loops_matcher.py [--jobs N] [--only base|mutants|refactorings] [--keep] [ids...]
"""
import ast
import concurrent.futures as cf
import os
import re
import shutil
import subprocess
import sys
import time

HERE = os.path.dirname(os.path.abspath(__file__))
VERIF = os.path.dirname(HERE)
sys.path.insert(0, HERE)
import loops_matcher as lm  # noqa: E402
from test_decisions import apply_edit, replace_function  # noqa: E402

REPO = "/repo"
PKGDIR = os.path.join(REPO, "perception_eval", "perception_eval")
SCRATCH = "/tmp/gen_matcher_scratch"
THEORIES = os.path.join(VERIF, "coq", "theories")
COQ_TIMEOUT = 400
GEN = lm.MODNAME + ".v"
RPY = lm.RESULT_PY
MPY = "evaluation/matching/object_matching.py"
FILES = [RPY, "common/threshold.py", MPY]
GM, FP, ST, GO = "_get_matching_module", "_get_fp_object_results", "_get_score_table", "get_object_results"

ALL = ["Gen_get_object_results", "Gen__get_matching_module", "Gen__get_fp_object_results", "Gen__get_score_table"]
THEOREM_MODULES = {
    "GenTie__get_matching_module": ["Gen__get_matching_module"],
    "GenTie__get_fp_object_results": ["Gen__get_fp_object_results"],
    "GenTie__get_score_table": ["Gen__get_score_table"],
    "GenTie_best_cell": [],                      # about the fixed prelude only
    "GenTie_get_object_results": ALL,
    "GenTie_get_object_results_outside": ["Gen_get_object_results", "Gen__get_fp_object_results"],
    "GenTie_get_object_results_facts": ALL,
}

NEW = "DynamicObjectWithPerceptionResult(est_obj, gt_obj, matching_label_policy, transforms=transforms)"
S1_MIN = "else np.unravel_index(np.nanargmin(masked_scores), masked_scores.shape)"
S1_MAX = "np.unravel_index(np.nanargmax(masked_scores), masked_scores.shape)"
FINAL = "        object_results += _get_fp_object_results(estimated_objects_)\n"
# (id, file, function, old, new, expected, why)   expected: caught | closed (translator fails closed) | equivalent | other-layer
MUTANTS = [
    # ---- get_object_results: best-cell selection
    ("M01", RPY, GO, S1_MIN, S1_MIN.replace("nanargmin", "nanargmax"), "caught", "stage 1 maximises distances"),
    ("M02", RPY, GO, S1_MAX, S1_MAX.replace("nanargmax", "nanargmin"), "caught", "stage 1 minimises IoU"),
    ("M03", RPY, GO, "np.nanargmin(rest_scores)", "np.nanargmax(rest_scores)", "caught", "stage 2"),
    ("M04", RPY, GO, "if maximize\n            else np.unravel_index(np.nanargmin(masked_scores)",
     "if not maximize\n            else np.unravel_index(np.nanargmin(masked_scores)", "caught", "direction inverted"),
    ("M05", RPY, GO, "if np.isnan(masked_scores).all():", "if np.isnan(masked_scores).any():", "caught", "stage 1 stops at the first NaN"),
    ("M06", RPY, GO, "if np.isnan(rest_scores).all():", "if np.isnan(rest_scores).any():", "caught", "stage 2 stops at the first NaN"),
    # ---- rows / columns
    ("M07", RPY, GO, "masked_scores = np.delete(masked_scores, est_idx, axis=0)", "masked_scores = np.delete(masked_scores, est_idx, axis=1)", "caught",
     "a column instead of the row"),
    ("M08", RPY, GO, "        masked_scores = np.delete(masked_scores, gt_idx, axis=1)\n", "", "caught", "column deletion dropped (stage 1)"),
    ("M09", RPY, GO, "        score_table = np.delete(score_table, est_idx, axis=0)\n", "", "caught", "row of the score table kept for stage 2"),
    ("M10", RPY, GO, "rest_scores = np.delete(rest_scores, est_idx, axis=0)", "rest_scores = np.delete(rest_scores, gt_idx, axis=0)", "caught", ""),
    ("M11", RPY, GO, "        rest_scores = np.delete(rest_scores, gt_idx, axis=1)\n", "", "caught", "column deletion dropped (stage 2)"),
    ("M12", RPY, GO, "est_obj = estimated_objects_.pop(est_idx)\n        gt_obj = ground_truth_objects_.pop(gt_idx)\n        result = " + NEW
     + "\n        object_results.append(result)\n\n        # Remove corresponding estimated objects and GTs from the score table.",
     "est_obj = estimated_objects_.pop(gt_idx)\n        gt_obj = ground_truth_objects_.pop(gt_idx)\n        result = " + NEW
     + "\n        object_results.append(result)\n\n        # Remove corresponding estimated objects and GTs from the score table.", "caught",
     "the estimate popped at the column index"),
    # ---- stages / mask
    ("M13", RPY, GO, "masked_scores = np.where(is_valid, scores, np.nan)", "masked_scores = scores", "caught", "stage 1 ignores the labels"),
    ("M14", RPY, GO, "masked_scores = np.where(is_valid, scores, np.nan)", "masked_scores = np.where(is_valid, np.nan, scores)", "closed",
     "mask inverted: not the np.where form of the vocabulary"),
    ("M15", RPY, GO, "rest_scores = score_table[..., 0]", "rest_scores = masked_scores", "caught", "stage 2 sees the masked table again"),
    ("M16", RPY, GO, "is_valid = score_table[..., 1]", "is_valid = score_table[..., 0]", "closed", "the scores used as the mask: not a table of flags"),
    ("M17", RPY, GO, "num_estimation, *_ = score_table.shape", "num_estimation = len(ground_truth_objects)", "equivalent",
     "fuel = number of ground truths: also suffices (at most min(n, m) pairs), but the equation is proved for fuel n"),
    # ---- remainder / FP validation / early returns
    ("M18", RPY, GO, "if len(estimated_objects_) > 0 and evaluation_task.is_fp_validation() is False:", "if len(estimated_objects_) > 0:", "caught",
     "FP-validation guard dropped"),
    ("M19", RPY, GO, "evaluation_task.is_fp_validation() is False:", "evaluation_task.is_fp_validation() is True:", "caught", ""),
    ("M20", RPY, GO, FINAL, FINAL + FINAL, "caught", "remainder appended twice"),
    ("M21", RPY, GO, FINAL, FINAL.replace("estimated_objects_)", "estimated_objects)"), "caught", "every estimate reported unmatched"),
    ("M22", RPY, GO, "return [] if evaluation_task.is_fp_validation() else _get_fp_object_results(estimated_objects)",
     "return _get_fp_object_results(estimated_objects) if evaluation_task.is_fp_validation() else []", "caught", ""),
    ("M23", RPY, GO, "    if not estimated_objects:\n        return []\n", "", "closed", "estimated_objects[0] would be read from a possibly empty list"),
    ("M24", RPY, GO, "len(estimated_objects_) > 0 and", "len(estimated_objects_) >= 0 and", "equivalent", "an empty remainder adds nothing"),
    ("M25", RPY, GO, "estimated_objects_: List[ObjectType] = estimated_objects.copy()", "estimated_objects_: List[ObjectType] = estimated_objects", "closed",
     "the working list would alias the caller's list"),
    ("M26", RPY, GO, "result = " + NEW + "\n        object_results.append(result)\n\n        # Remove corresponding estimated objects and GTs from the score table\n",
     "result = " + NEW.replace("est_obj, gt_obj", "gt_obj, est_obj")
     + "\n        object_results.append(result)\n\n        # Remove corresponding estimated objects and GTs from the score table\n", "closed",
     "a ground truth where an estimate is expected"),
    # ---- dispatch
    ("M27", RPY, GO, "        and isinstance(estimated_objects[0].semantic_label.label, TrafficLightLabel)\n", "", "caught", "every 2D object without ROI goes to the TLR matcher"),
    ("M28", RPY, GO, "and (estimated_objects[0].roi is None or ground_truth_objects[0].roi is None)\n        and isinstance",
     "and (estimated_objects[0].roi is None and ground_truth_objects[0].roi is None)\n        and isinstance", "caught", ""),
    ("M29", RPY, GO, "    elif isinstance(estimated_objects[0], DynamicObject2D) and (", "    elif not isinstance(estimated_objects[0], DynamicObject2D) and (", "caught", ""),
    ("M30", RPY, GO, "_get_score_table(\n        estimated_objects,\n        ground_truth_objects,\n        matching_label_policy,\n        matching_method_module,\n        target_labels,\n        matchable_thresholds,",
     "_get_score_table(\n        estimated_objects,\n        ground_truth_objects,\n        matching_label_policy,\n        matching_method_module,\n        matchable_thresholds,\n        target_labels,",
     "closed", "thresholds and labels swapped: not the caller's parameters passed on unchanged"),
    # ---- _get_score_table
    ("S01", RPY, ST, "gt_obj.semantic_label, target_labels, matchable_thresholds", "est_obj.semantic_label, target_labels, matchable_thresholds", "caught",
     "the radius of the ESTIMATE's label"),
    ("S02", RPY, ST, "if threshold is None or (", "if threshold is not None or (", "closed", "is_better_than(None)"),
    ("S03", RPY, ST, "is_same_frame_id: bool = est_obj.frame_id == gt_obj.frame_id", "is_same_frame_id: bool = est_obj.frame_id != gt_obj.frame_id", "caught", ""),
    ("S04", RPY, ST, "score_table[i, j] = (matching_method.value, is_label_ok)", "score_table[j, i] = (matching_method.value, is_label_ok)", "caught",
     "transposed (IndexError for a non-square table)"),
    ("S05", RPY, ST, "is_label_ok = matching_label_policy.is_matchable(est_obj, gt_obj)", "is_label_ok = not matching_label_policy.is_matchable(est_obj, gt_obj)", "caught",
     "label flag inverted"),
    ("S06", RPY, ST, "matching_label_policy.is_matchable(est_obj, gt_obj)", "matching_label_policy.is_matchable(gt_obj, est_obj)", "closed", ""),
    ("S07", RPY, ST, "(np.nan, False))", "(np.nan, True))", "caught", "the flag of an unwritten cell (the masked scores would not change: NaN either way)"),
    ("S08", RPY, ST, "            if is_same_frame_id:", "            if not is_same_frame_id:", "caught", ""),
    ("S09", RPY, ST, "threshold is not None and matching_method.is_better_than(threshold)", "threshold is not None or matching_method.is_better_than(threshold)", "caught",
     "every same-frame cell is written"),
    ("S10", RPY, ST, "np.full((num_row, num_col, 2)", "np.full((num_col, num_row, 2)", "caught", ""),
    ("S11", RPY, ST, "num_col: int = len(ground_truth_objects)", "num_col: int = len(estimated_objects)", "caught", ""),
    ("S12", RPY, ST, "for j, gt_obj in enumerate(ground_truth_objects):", "for j, gt_obj in enumerate(estimated_objects):", "closed", "an estimate where a ground truth is expected"),
    ("S13", MPY, "is_better_than", "return self.value < threshold_value", "return self.value <= threshold_value", "other-layer",
     "`<` to `<=` in the radius test: the body of is_better_than is tied by Props/GenTie.v (GenTie_*_is_better_than), here it is the fact meth_better"),
    # ---- _get_matching_module
    ("G01", RPY, GM, "maximize: bool = False\n    elif matching_mode == MatchingMode.PLANEDISTANCE", "maximize: bool = True\n    elif matching_mode == MatchingMode.PLANEDISTANCE", "caught", ""),
    ("G02", RPY, GM, "matching_method_module: IOU2dMatching = IOU2dMatching", "matching_method_module: IOU2dMatching = IOU3dMatching", "caught", ""),
    ("G03", RPY, GM, "elif matching_mode == MatchingMode.IOU2D:", "elif matching_mode == MatchingMode.IOU3D:", "caught", ""),
    # ---- _get_fp_object_results
    ("F01", RPY, FP, "ground_truth_object=None", "ground_truth_object=est_obj_", "closed", ""),
    ("F02", RPY, FP, "for est_obj_ in estimated_objects:", "for est_obj_ in reversed(estimated_objects):", "closed", ""),
    ("F03", RPY, FP, "        object_results.append(object_result_)\n", "        object_results.append(object_result_)\n        object_results.append(object_result_)\n", "caught", ""),
]

LOOP1_OLD = """        est_idx, gt_idx = (
            np.unravel_index(np.nanargmax(masked_scores), masked_scores.shape)
            if maximize
            else np.unravel_index(np.nanargmin(masked_scores), masked_scores.shape)
        )
"""
LOOP1_NEW = """        flat_idx = np.nanargmax(masked_scores) if maximize else np.nanargmin(masked_scores)
        est_idx, gt_idx = np.unravel_index(flat_idx, masked_scores.shape)
"""
DISPATCH_OLD = """    if (
        isinstance(estimated_objects[0], DynamicObject2D)
        and (estimated_objects[0].roi is None or ground_truth_objects[0].roi is None)
        and isinstance(estimated_objects[0].semantic_label.label, TrafficLightLabel)
    ):
        return _get_object_results_for_tlr(estimated_objects, ground_truth_objects, uuid_matching_first)
    elif isinstance(estimated_objects[0], DynamicObject2D) and (
        estimated_objects[0].roi is None or ground_truth_objects[0].roi is None
    ):
        return _get_object_results_with_id(estimated_objects, ground_truth_objects)
"""
DISPATCH_NEW = """    is_2d_without_roi = isinstance(estimated_objects[0], DynamicObject2D) and (
        estimated_objects[0].roi is None or ground_truth_objects[0].roi is None
    )
    if is_2d_without_roi:
        if isinstance(estimated_objects[0].semantic_label.label, TrafficLightLabel):
            return _get_object_results_for_tlr(estimated_objects, ground_truth_objects, uuid_matching_first)
        return _get_object_results_with_id(estimated_objects, ground_truth_objects)
"""
STAGE2_OLD = """        if np.isnan(rest_scores).all():
            break

        est_idx, gt_idx = (
            np.unravel_index(np.nanargmax(rest_scores), rest_scores.shape)
            if maximize
            else np.unravel_index(np.nanargmin(rest_scores), rest_scores.shape)
        )
"""
STAGE2_NEW = """        if not np.isnan(rest_scores).all():
            if maximize:
                est_idx, gt_idx = np.unravel_index(np.nanargmax(rest_scores), rest_scores.shape)
            else:
                est_idx, gt_idx = np.unravel_index(np.nanargmin(rest_scores), rest_scores.shape)
        else:
            break
"""
# (id, description, function, [(old, new)] edits inside the function | whole new source of the function)
REFACTORINGS = [
    ("R01", "_get_fp_object_results: the result appended without a local", FP, """
def _get_fp_object_results(estimated_objects):
    object_results: List[DynamicObjectWithPerceptionResult] = []
    for est_obj_ in estimated_objects:
        object_results.append(DynamicObjectWithPerceptionResult(estimated_object=est_obj_, ground_truth_object=None))
    return object_results
"""),
    ("R02", "_get_score_table: no `is_same_frame_id` local, the redundant `threshold is not None` dropped", ST, [
        ("            is_same_frame_id: bool = est_obj.frame_id == gt_obj.frame_id\n\n            if is_same_frame_id:",
         "            if est_obj.frame_id == gt_obj.frame_id:"),
        ("if threshold is None or (threshold is not None and matching_method.is_better_than(threshold)):",
         "if threshold is None or matching_method.is_better_than(threshold):")]),
    ("R03", "_get_score_table: early `continue` for another frame, flag computed inside the tuple", ST, [
        ("            if is_same_frame_id:\n", "            if not is_same_frame_id:\n                continue\n            if True:\n")]),
    ("R04", "_get_score_table: nested ifs instead of `or` (the assignment written twice)", ST, [
        ("                if threshold is None or (threshold is not None and matching_method.is_better_than(threshold)):\n"
         "                    is_label_ok = matching_label_policy.is_matchable(est_obj, gt_obj)\n"
         "                    score_table[i, j] = (matching_method.value, is_label_ok)\n",
         "                if threshold is None:\n"
         "                    score_table[i, j] = (matching_method.value, matching_label_policy.is_matchable(est_obj, gt_obj))\n"
         "                elif matching_method.is_better_than(threshold):\n"
         "                    score_table[i, j] = (matching_method.value, matching_label_policy.is_matchable(est_obj, gt_obj))\n")]),
    ("R05", "get_object_results: the flat arg-best in a local, one np.unravel_index (stage 1)", GO, [(LOOP1_OLD, LOOP1_NEW)]),
    ("R06", "get_object_results: the dispatch test in a local, nested ifs", GO, [(DISPATCH_OLD, DISPATCH_NEW)]),
    ("R07", "get_object_results: stage 2 as `if not all-NaN: <if / else on maximize> else: break`", GO, [(STAGE2_OLD, STAGE2_NEW)]),
    ("R08", "get_object_results: remainder test by truthiness and `not`", GO, [
        ("if len(estimated_objects_) > 0 and evaluation_task.is_fp_validation() is False:",
         "if estimated_objects_ and not evaluation_task.is_fp_validation():")]),
    ("R09", "get_object_results: `len(...) == 0` instead of `not ...` in the early returns", GO, [
        ("    if not estimated_objects:\n        return []", "    if len(estimated_objects) == 0:\n        return []")]),
    ("R10", "get_object_results: stage 1 as a `while` loop (no range bound)", GO, [
        ("    for _ in range(num_estimation):\n        if np.isnan(masked_scores).all():\n            break\n",
         "    while not np.isnan(masked_scores).all():\n        if False:\n            break\n")]),
    ("R11", "get_object_results: second early return as if / else statements", GO, [
        ("        return [] if evaluation_task.is_fp_validation() else _get_fp_object_results(estimated_objects)",
         "        if evaluation_task.is_fp_validation():\n            return []\n        return _get_fp_object_results(estimated_objects)")]),
    ("R12", "_get_matching_module: `maximize` computed after the chain from the two IoU modes", GM, """
def _get_matching_module(matching_mode):
    if matching_mode == MatchingMode.CENTERDISTANCE:
        matching_method_module = CenterDistanceMatching
    elif matching_mode == MatchingMode.PLANEDISTANCE:
        matching_method_module = PlaneDistanceMatching
    elif matching_mode == MatchingMode.IOU2D:
        matching_method_module = IOU2dMatching
    elif matching_mode == MatchingMode.IOU3D:
        matching_method_module = IOU3dMatching
    else:
        raise ValueError(f"Unsupported matching mode: {matching_mode}")
    maximize = matching_mode == MatchingMode.IOU2D or matching_mode == MatchingMode.IOU3D
    return matching_method_module, maximize
"""),
]


# ---------------------------------------------------------------------------------------------------------------------
def make_scratch(n):
    d = os.path.join(SCRATCH, str(n))
    shutil.rmtree(d, ignore_errors=True)
    for rel in FILES:
        dst = os.path.join(d, "repo", "perception_eval", "perception_eval", rel)
        os.makedirs(os.path.dirname(dst), exist_ok=True)
        shutil.copy(os.path.join(PKGDIR, rel), dst)
    os.makedirs(os.path.join(d, "coq"))
    return d


REQ_GEN = "From PE Require Gen.loops_matcher.\nImport Gen.loops_matcher."
REQ_SCR = "From SCR Require loops_matcher.\nImport loops_matcher."


def scratch_lemmas():
    with open(os.path.join(THEORIES, "Proofs", "GenTieMatcherLemmas.v")) as f:
        txt = f.read()
    assert REQ_GEN in txt
    return txt.replace(REQ_GEN, REQ_SCR)


def split_gentie():
    with open(os.path.join(THEORIES, "Props", "GenTieMatcher.v")) as f:
        txt = f.read()
    a = "From PE Require Import Base.QUtil Model.Matching Proofs.MatchingProofs Proofs.GenTieMatcherLemmas."
    assert a in txt and REQ_GEN in txt
    whole = txt.replace(a, "From PE Require Import Base.QUtil Model.Matching Proofs.MatchingProofs.\nFrom SCR Require Import GenTieMatcherLemmas.") \
               .replace(REQ_GEN, REQ_SCR)
    m0 = re.search(r"^\(\* ---- ", whole, flags=re.M)
    header, blocks = whole[:m0.start()], {}
    for m in re.finditer(r"(?ms)^Theorem (\w+)\b.*?^Print Assumptions \1\.", whole):
        blocks[m.group(1)] = m.group(0) + "\n"
    assert set(blocks) == set(THEOREM_MODULES), (sorted(blocks), sorted(THEOREM_MODULES))
    return whole, header, blocks


def modules_of(text):
    return {m.group(1): m.group(2) for m in re.finditer(r"(?s)Module (Gen_\w+)\.(.*?)End \1\.", text)}


def coqc(args, cwd):
    try:
        p = subprocess.run(["timeout", str(COQ_TIMEOUT), "coqc"] + args, cwd=cwd, capture_output=True, text=True)
        return p.returncode, p.stdout + p.stderr
    except Exception as e:  # noqa: BLE001
        return 99, str(e)


def check_text(d, name, text, nthm):
    fn = os.path.join(d, "coq", f"T_{name}.v")
    with open(fn, "w") as f:
        f.write(text)
    t0 = time.time()
    rc, out = coqc(["-Q", THEORIES, "PE", "-Q", os.path.join(d, "coq"), "SCR", fn], os.path.join(d, "coq"))
    dt = time.time() - t0
    if rc == 0 and out.count("Closed under the global context") == nthm and "Axioms:" not in out:
        return "ok", dt
    if rc == 124:
        return "timeout", dt
    m = re.search(r"Error:\s*(.*)", out, re.S)
    return "FAILS: " + (" ".join(m.group(1).split())[:110] if m else f"rc={rc}"), dt


def run_variant(n, edits, header, blocks, base_modules, lemmas):
    """-> (translator status, {theorem: (result, seconds)}, scratch dir)"""
    d = make_scratch(n)
    for rel, fn in edits:
        path = os.path.join(d, "repo", "perception_eval", "perception_eval", rel)
        with open(path) as f:
            src = f.read()
        new = fn(src)
        ast.parse(new)
        assert new != src, "the edit changes nothing"
        with open(path, "w") as f:
            f.write(new)
    st = lm.regenerate(os.path.join(d, "repo"), os.path.join(d, "coq"))[GEN]
    with open(os.path.join(d, "coq", GEN)) as f:
        mods = modules_of(f.read())
    if base_modules is None:
        todo = list(blocks)
    else:
        changed = [m for m in base_modules if mods.get(m) != base_modules[m]]
        todo = [t for t in blocks if any(m in changed for m in THEOREM_MODULES[t])]
    if not todo:
        return st, {}, d
    cq = os.path.join(d, "coq")
    rc, out = coqc(["-Q", THEORIES, "PE", "-Q", cq, "SCR", GEN], cq)
    if rc != 0:
        return st, {"<" + GEN + ">": ("FAILS to compile: " + " ".join(out.split())[:200], 0)}, d
    with open(os.path.join(cq, "GenTieMatcherLemmas.v"), "w") as f:
        f.write(lemmas)
    rc, out = coqc(["-Q", THEORIES, "PE", "-Q", cq, "SCR", "GenTieMatcherLemmas.v"], cq)
    if rc != 0:
        return st, {"<GenTieMatcherLemmas.v>": ("FAILS to compile: " + " ".join(out.split())[:200], 0)}, d
    res = {}
    for t in todo:
        missing = [m for m in THEOREM_MODULES[t] if m not in mods]
        if missing:
            res[t] = ("LOST: " + ", ".join(missing) + " not translated", 0)
        else:
            res[t] = check_text(d, t, header + blocks[t], 1)
    return st, res, d


def edit_fn(func, old, new):
    cls = "CenterDistanceMatching" if func == "is_better_than" else None
    return lambda s: apply_edit(s, cls, func, old, new)


def refactor_fn(func, spec):
    if isinstance(spec, str):
        return lambda s: replace_function(s, None, func, spec)

    def f(s):
        for old, new in spec:
            s = apply_edit(s, None, func, old, new)
        return s
    return f


def main():
    jobs = 3
    only = None
    keep = "--keep" in sys.argv
    if "--jobs" in sys.argv:
        jobs = min(4, int(sys.argv[sys.argv.index("--jobs") + 1]))
    if "--only" in sys.argv:
        only = sys.argv[sys.argv.index("--only") + 1]
    ids = [a for a in sys.argv[1:] if re.fullmatch(r"[A-Z]\d\d", a)]
    shutil.rmtree(SCRATCH, ignore_errors=True)
    os.makedirs(SCRATCH)
    whole, header, blocks = split_gentie()
    lemmas = scratch_lemmas()
    failures = 0
    # ---- (1) unchanged repo
    t0 = time.time()
    st, res, d0 = run_variant("base", [], header, blocks, None, lemmas)
    with open(os.path.join(d0, "coq", GEN)) as f:
        base_modules = modules_of(f.read())
    print(f"(1) UNCHANGED /repo: translation: {'all translated' if st is None else st}")
    for k, (r, dt) in res.items():
        print(f"    {k:55s} {r}  ({dt:.1f}s)")
    bad = [k for k, v in res.items() if v[0] != "ok"]
    r, dt = check_text(d0, "whole_file", whole, len(blocks))
    print(f"    {'<the whole file, with the non-vacuity examples>':55s} {r}  ({dt:.1f}s)")
    print(f"    -> {len(res) - len(bad)}/{len(res)} theorems closed, {time.time() - t0:.0f}s")
    if bad or st is not None or r != "ok":
        failures += 1
    if only == "base":
        if not keep:
            shutil.rmtree(SCRATCH, ignore_errors=True)
        return failures
    with cf.ThreadPoolExecutor(max_workers=jobs) as pool:
        # ---- (2) mutants
        if only in (None, "mutants"):
            print("\n(2) MUTANTS (one token each)")
            tally = {}
            todo = [m for m in MUTANTS if not ids or m[0] in ids]
            futs = [pool.submit(run_variant, m[0], [(m[1], edit_fn(m[2], m[3], m[4]))], header, blocks, base_modules, lemmas) for m in todo]
            for (mid, rel, func, old, new, expected, why), fut in zip(todo, futs):
                try:
                    st, res, d = fut.result()
                except Exception as e:  # noqa: BLE001
                    print(f"  {mid} ERROR {e}")
                    failures += 1
                    continue
                badt = [f"{k} [{v[0]}]" for k, v in res.items() if v[0] != "ok"]
                if st:
                    verdict = "fails closed (translator)"
                    okv = expected in ("closed", "caught", "equivalent")
                elif not res:
                    verdict = "generated text unchanged" + (" (equivalent)" if expected == "equivalent" else " (tied by another layer)" if expected == "other-layer" else "")
                    okv = expected in ("equivalent", "other-layer")
                elif badt:
                    verdict = "caught" if expected != "equivalent" else "equivalent, proof script rejects"
                    okv = True
                else:
                    verdict = "equivalent, still proves" if expected == "equivalent" else "MISSED"
                    okv = expected == "equivalent"
                if expected == "equivalent" and st:
                    verdict = "equivalent, fails closed"
                if expected == "closed" and not st:
                    verdict += " (expected to fail closed)"
                tally[verdict] = tally.get(verdict, 0) + 1
                if not okv:
                    failures += 1
                    verdict += "  <<<<<< UNEXPECTED"
                desc = f"{func}: {' '.join(old.split())[:58]!r} -> {' '.join(new.split())[:58]!r}"
                print(f"  {mid} {verdict:34s} {desc}")
                if why:
                    print(f"        note: {why}")
                if st:
                    print(f"        translator: {st[:260]}")
                for b in badt:
                    print(f"        breaks: {b[:190]}")
                if not keep:
                    shutil.rmtree(d, ignore_errors=True)
            print("  tally:", tally)
        # ---- (3) refactorings
        if only in (None, "refactorings"):
            print("\n(3) REFACTORINGS (behaviour preserving)")
            survived = 0
            allr = [r for r in REFACTORINGS if not ids or r[0] in ids]
            futs = [pool.submit(run_variant, rid, [(RPY, refactor_fn(func, spec))], header, blocks, base_modules, lemmas)
                    for (rid, desc, func, spec) in allr]
            for (rid, desc, func, spec), fut in zip(allr, futs):
                try:
                    st, res, d = fut.result()
                except Exception as e:  # noqa: BLE001
                    print(f"  {rid} ERROR {e}")
                    failures += 1
                    continue
                badt = [f"{k} [{v[0]}]" for k, v in res.items() if v[0] != "ok"]
                if st:
                    verdict = "translator FAILS CLOSED"
                elif badt:
                    verdict = "translated, proof REJECTS"
                else:
                    verdict = "survives" + ("" if res else " (generated text identical)")
                    survived += 1
                print(f"  {rid} {verdict:28s} {desc}  [{len(res)} theorem(s) re-checked]")
                if st:
                    print(f"        translator: {st[:260]}")
                for b in badt:
                    print(f"        breaks: {b[:190]}")
                if not keep:
                    shutil.rmtree(d, ignore_errors=True)
            print(f"  {survived}/{len(allr)} refactorings survive")
    if not keep:
        shutil.rmtree(SCRATCH, ignore_errors=True)
    return 1 if failures else 0


if __name__ == "__main__":
    sys.exit(main())
