#!/usr/bin/env python3
"""Self-test of translator/loops_manager.py + coq/theories/Props/GenTieManager.v (same scheme as test_loops_sensing.py).

  (1) unchanged /repo: translate, build Gen/loops_manager.v, Proofs/GenTieManagerLemmas.v and the whole Props/GenTieManager.v (theorems
      closed, non-vacuity examples evaluate); every theorem also on its own (header + that theorem), as the harness compiles it;
  (2) MUTANTS: small changes (one token, unless the description says otherwise) of the translated functions in a scratch copy
      (/tmp/gen_manager_scratch/<id>/): each must break an equation (named), or fail closed in the translator, or be semantically
      equivalent (the reason is in the table); a mutant that translates, is not equivalent and still proves is reported as MISSED
      (exit status 1);
  (3) REFACTORINGS: behaviour-preserving rewrites: survive / translator fails closed / translated but the proof rejects.

Every scratch copy compiles its own copy of Proofs/GenTieManagerLemmas.v against its own generated file.
usage: python3 translator/test_loops_manager.py [--jobs N] [--only base|mutants|refactorings] [--keep] [ids...]
"""
import ast
import concurrent.futures as cf
import os
import re
import shutil
import subprocess
import sys
import time

HERE = os.path.dirname(os.path.abspath(__file__))
VERIF = os.path.dirname(HERE)
sys.path.insert(0, HERE)
import loops_manager as lm  # noqa: E402
from test_decisions import apply_edit, replace_function  # noqa: E402

REPO = "/repo"
PKGDIR = os.path.join(REPO, "perception_eval", "perception_eval")
SCRATCH = "/tmp/gen_manager_scratch"
THEORIES = os.path.join(VERIF, "coq", "theories")
COQ_TIMEOUT = 400
GEN = lm.MODNAME + ".v"

MPY, BPY = lm.MANAGER_PY, lm.BASE_PY
MG, BS = lm.MGR, lm.BASE
AF, FO, SR, GN = "add_frame_result", "_filter_objects", "get_scene_result", "get_ground_truth_now_frame"
M_A, M_F, M_S, M_G = "Gen_add_frame_result", "Gen__filter_objects", "Gen_get_scene_result", "Gen_get_ground_truth_now_frame"
THEOREM_MODULES = {
    "GenTie__filter_objects": [M_F],
    "GenTie_add_frame_result": [M_A, M_F],
    "GenTie_add_frame_result_outside": [M_A, M_F],
    "GenTie_get_scene_result": [M_S],
    "GenTie_get_scene_result_outside": [M_S],
    "GenTie_get_ground_truth_now_frame": [M_G],
    "GenTie_get_ground_truth_now_frame_outside": [M_G],
}

GET = 'if self.evaluator_config.filtering_params.get("target_uuids"):'
# (id, file, class, function, old, new, expected, why)   expected: caught | closed (translator fails closed) | equivalent
MUTANTS = [
    # ---- add_frame_result
    ("A01", MPY, MG, AF, "self.frame_results[-1]", "self.frame_results[0]", "caught", "predecessor = the FIRST stored frame"),
    ("A02", MPY, MG, AF, "self.frame_results[-1]", "self.frame_results[-0]", "caught", "[-0] is [0]"),
    ("A03", MPY, MG, AF, "len(self.frame_results) > 0", "len(self.frame_results) > 1", "caught", "the second frame gets no predecessor"),
    ("A04", MPY, MG, AF, "len(self.frame_results) > 0", "len(self.frame_results) >= 0", "caught", "IndexError on the first frame"),
    ("A05", MPY, MG, AF, None, None, "caught", "the append moved BEFORE the evaluation: a frame is its own predecessor"),
    ("A06", MPY, MG, AF, "        self.frame_results.append(result)\n", "", "caught", "the append dropped"),
    ("A07", MPY, MG, AF, "previous_result=self.frame_results[-1]", "previous_result=None", "caught", ""),
    ("A08", MPY, MG, AF, "object_results, ground_truth_now_frame = self._filter_objects(", "object_results, _ = self._filter_objects(", "caught",
     "the frame result holds the DATASET frame, evaluate_frame writes onto it"),
    ("A09", MPY, MG, AF, "unix_time=unix_time,", "unix_time=0,", "caught", ""),
    ("A10", MPY, MG, AF, "result.evaluate_frame()", "result.evaluate_frame(previous_result=result)", "caught", ""),
    ("A11", MPY, MG, AF, "target_labels=self.target_labels,", "target_labels=self.evaluator_config.target_labels,", "equivalent",
     "the property target_labels IS evaluator_config.target_labels (checked on every run)"),
    ("A12", MPY, MG, AF, "self.frame_results.append(result)", "self.frame_results.insert(0, result)", "closed", "insert is not translated"),
    ("A13", MPY, MG, "target_labels", "return self.evaluator_config.target_labels", "return self.evaluator_config.target_labels[:1]", "closed",
     "the property getter changed"),
    # ---- _filter_objects
    ("F01", MPY, MG, FO, "frame_ground_truth = copy(frame_ground_truth)", "frame_ground_truth = frame_ground_truth", "caught",
     "the copy dropped: the filtered list is written onto the dataset frame"),
    ("F02", MPY, MG, FO, "is_gt=False", "is_gt=True", "caught", "estimates filtered as ground truths"),
    ("F03", MPY, MG, FO, "is_gt=True", "is_gt=False", "caught", "ground truths filtered as estimates"),
    ("F04", MPY, MG, FO, None, None, "caught", "the two is_gt flags swapped (two tokens)"),
    ("F05", MPY, MG, FO, "estimated_objects = filter_objects(", "filtered_objects = filter_objects(", "caught",
     "the matcher gets the UNFILTERED estimates"),
    ("F06", MPY, MG, FO, "ground_truth_objects=frame_ground_truth.objects", "ground_truth_objects=[]", "caught", ""),
    ("F07", MPY, MG, FO, GET, "if False:", "caught", "the target-uuid post-filter dropped"),
    ("F08", MPY, MG, FO, GET, GET.replace("if ", "if not "), "caught", "the post-filter condition negated"),
    ("F09", MPY, MG, FO, "objects=frame_ground_truth.objects", "objects=estimated_objects", "caught", "ground truths := filtered estimates"),
    ("F10", MPY, MG, FO, "is_gt=False,\n            transforms=frame_ground_truth.transforms,", "is_gt=False,", "caught", "no transforms for the estimates"),
    ("F11", MPY, MG, FO, "            **self.filtering_params,\n", "", "closed", "the filtering parameters not passed (first call)"),
    ("F12", MPY, MG, FO, "copy(frame_ground_truth)", "deepcopy(frame_ground_truth)", "closed", "deepcopy is not in the vocabulary"),
    ("F13", MPY, MG, FO, "frame_ground_truth.objects = filter_objects(", "frame_ground_truth.transforms = filter_objects(", "closed", ""),
    ("F14", MPY, MG, FO, 'self.filtering_params["uuid_matching_first"]', "False", "caught", ""),
    ("F15", MPY, MG, FO, "estimated_objects=estimated_objects,", "estimated_objects=frame_ground_truth.objects,", "caught", ""),
    # ---- get_scene_result
    ("S01", MPY, MG, SR, "{label: [[]] for label in target_labels}", "{label: [] for label in target_labels}", "caught",
     "the scene pooling started without the empty frame"),
    ("S02", MPY, MG, SR, "{label: 0 for label in target_labels}", "{label: 1 for label in target_labels}", "caught", ""),
    ("S03", MPY, MG, SR, "for frame in self.frame_results:", "for frame in reversed(self.frame_results):", "closed", "frames pooled in reverse"),
    ("S04", MPY, MG, SR, None, None, "caught", "a frame without results skipped (two lines added)"),
    ("S05", MPY, MG, SR, "divide_objects_to_num(frame.frame_ground_truth.objects, target_labels)",
     "divide_objects_to_num(self.ground_truth_frames[0].objects, target_labels)", "closed", "counts taken from the unfiltered (dataset) ground truth"),
    ("S06", MPY, MG, SR, "all_frame_results[label].append(obj_result_dict[label])", "all_frame_results[label] = [obj_result_dict[label]]", "closed", ""),
    ("S07", MPY, MG, SR, "all_num_gt[label] += num_gt_dict[label]", "all_num_gt[label] += 1", "caught", ""),
    ("S08", MPY, MG, SR, "used_frame.append(int(frame.frame_name))", "pass", "closed", "another loop state"),
    ("S09", MPY, MG, SR, "detection_config is not None", "detection_config is None", "caught", ""),
    ("S10", MPY, MG, SR, "scene_metrics_score.evaluate_tracking(", "scene_metrics_score.evaluate_detection(", "caught", ""),
    ("S11", MPY, MG, SR, "        if self.evaluator_config.metrics_config.prediction_config is not None:\n            pass\n", "", "equivalent",
     "an `if` whose body is `pass`"),
    ("S12", MPY, MG, SR, "append(obj_result_dict[label])", "append(obj_result_dict[target_labels[0]])", "caught", ""),
    ("S13", MPY, MG, SR, "divide_objects(frame.object_results, target_labels)", "divide_objects(frame.object_results)", "closed", ""),
    ("S14", MPY, MG, SR, "for label in target_labels:\n                all_frame_results", "for label in all_num_gt:\n                all_frame_results", "closed", ""),
    ("S15", MPY, MG, SR, "num_gt_dict[label]", "num_gt_dict[label] + num_gt_dict[label]", "caught", ""),
    # ---- get_ground_truth_now_frame
    ("G01", BPY, BS, GN, "if not interpolate_ground_truth:", "if interpolate_ground_truth:", "caught", ""),
    ("G02", BPY, BS, GN, "threshold_min_time=threshold_min_time,", "threshold_min_time=unix_time,", "caught", "first call"),
    ("G03", BPY, BS, GN, "threshold_min_time: int = 75000", "threshold_min_time: int = 7500", "closed", "a default changed"),
    ("G04", BPY, BS, GN, "FrameGroundTruth = get_now_frame(", "FrameGroundTruth = get_interpolated_now_frame(", "caught", ""),
]


def special_edit(mid):
    if mid == "A05":
        def f(src):
            s = apply_edit(src, MG, AF, "        self.frame_results.append(result)\n", "")
            return apply_edit(s, MG, AF, "        if len(self.frame_results) > 0:", "        self.frame_results.append(result)\n        if len(self.frame_results) > 0:")
        return f
    if mid == "F04":
        def f(src):
            s = apply_edit(src, MG, FO, "is_gt=False", "is_gt=TMP_")
            s = apply_edit(s, MG, FO, "is_gt=True", "is_gt=False")
            return apply_edit(s, MG, FO, "is_gt=TMP_", "is_gt=True")
        return f
    if mid == "S04":
        return lambda src: apply_edit(src, MG, SR, "            obj_result_dict = divide_objects(",
                                      "            if len(frame.object_results) == 0:\n                continue\n            obj_result_dict = divide_objects(")
    raise KeyError(mid)


R_ADD_IFEXP = '''
def add_frame_result(self, unix_time, ground_truth_now_frame, estimated_objects, critical_object_filter_config, frame_pass_fail_config):
    object_results, ground_truth_now_frame = self._filter_objects(estimated_objects, ground_truth_now_frame)
    result = PerceptionFrameResult(
        object_results=object_results,
        frame_ground_truth=ground_truth_now_frame,
        metrics_config=self.metrics_config,
        critical_object_filter_config=critical_object_filter_config,
        frame_pass_fail_config=frame_pass_fail_config,
        unix_time=unix_time,
        target_labels=self.target_labels,
    )
    previous = self.frame_results[-1] if len(self.frame_results) > 0 else None
    result.evaluate_frame(previous_result=previous)
    self.frame_results.append(result)
    return result
'''
R_ADD_EQ0 = '''
def add_frame_result(self, unix_time, ground_truth_now_frame, estimated_objects, critical_object_filter_config, frame_pass_fail_config):
    object_results, ground_truth_now_frame = self._filter_objects(estimated_objects, ground_truth_now_frame)
    result = PerceptionFrameResult(object_results, ground_truth_now_frame, self.metrics_config, critical_object_filter_config,
                                   frame_pass_fail_config, unix_time, self.target_labels)
    if len(self.frame_results) == 0:
        result.evaluate_frame()
    else:
        result.evaluate_frame(previous_result=self.frame_results[-1])
    self.frame_results.append(result)
    return result
'''
R_ADD_GE1 = '''
def add_frame_result(self, unix_time, ground_truth_now_frame, estimated_objects, critical_object_filter_config, frame_pass_fail_config):
    object_results, frame = self._filter_objects(estimated_objects, ground_truth_now_frame)
    result = PerceptionFrameResult(
        object_results=object_results,
        frame_ground_truth=frame,
        metrics_config=self.evaluator_config.metrics_config,
        critical_object_filter_config=critical_object_filter_config,
        frame_pass_fail_config=frame_pass_fail_config,
        unix_time=unix_time,
        target_labels=self.target_labels,
    )
    if len(self.frame_results) >= 1:
        result.evaluate_frame(self.frame_results[-1])
    else:
        result.evaluate_frame(None)
    self.frame_results.append(result)
    return result
'''
R_ADD_TRUTHY = '''
def add_frame_result(self, unix_time, ground_truth_now_frame, estimated_objects, critical_object_filter_config, frame_pass_fail_config):
    object_results, ground_truth_now_frame = self._filter_objects(estimated_objects, ground_truth_now_frame)
    result = PerceptionFrameResult(
        object_results=object_results,
        frame_ground_truth=ground_truth_now_frame,
        metrics_config=self.metrics_config,
        critical_object_filter_config=critical_object_filter_config,
        frame_pass_fail_config=frame_pass_fail_config,
        unix_time=unix_time,
        target_labels=self.target_labels,
    )
    if self.frame_results:
        result.evaluate_frame(previous_result=self.frame_results[-1])
    else:
        result.evaluate_frame()
    self.frame_results.append(result)
    return result
'''
R_FILTER_LOCALS = '''
def _filter_objects(self, estimated_objects, frame_ground_truth):
    frame_ground_truth = copy(frame_ground_truth)
    transforms = frame_ground_truth.transforms
    params = self.filtering_params
    estimated_objects = filter_objects(objects=estimated_objects, is_gt=False, transforms=transforms, **params)
    ground_truths = filter_objects(objects=frame_ground_truth.objects, is_gt=True, transforms=transforms, **params)
    frame_ground_truth.objects = ground_truths
    object_results = get_object_results(
        evaluation_task=self.evaluation_task,
        estimated_objects=estimated_objects,
        ground_truth_objects=ground_truths,
        target_labels=self.target_labels,
        matching_label_policy=self.evaluator_config.label_params["matching_label_policy"],
        matchable_thresholds=params["max_matchable_radii"],
        transforms=transforms,
        uuid_matching_first=params["uuid_matching_first"],
    )
    if self.evaluator_config.filtering_params.get("target_uuids"):
        object_results = filter_object_results(object_results=object_results, transforms=transforms, target_uuids=params["target_uuids"])
    return object_results, frame_ground_truth
'''
R_FILTER_UUIDS = '''
def _filter_objects(self, estimated_objects, frame_ground_truth):
    frame_ground_truth = copy(frame_ground_truth)
    estimated_objects = filter_objects(
        objects=estimated_objects, is_gt=False, transforms=frame_ground_truth.transforms, **self.filtering_params)
    frame_ground_truth.objects = filter_objects(
        objects=frame_ground_truth.objects, is_gt=True, transforms=frame_ground_truth.transforms, **self.filtering_params)
    object_results = get_object_results(
        self.evaluation_task, estimated_objects, frame_ground_truth.objects,
        target_labels=self.target_labels,
        matching_label_policy=self.evaluator_config.label_params["matching_label_policy"],
        matchable_thresholds=self.filtering_params["max_matchable_radii"],
        transforms=frame_ground_truth.transforms,
        uuid_matching_first=self.filtering_params["uuid_matching_first"],
    )
    target_uuids = self.evaluator_config.filtering_params.get("target_uuids")
    if target_uuids:
        object_results = filter_object_results(
            object_results=object_results, transforms=frame_ground_truth.transforms, target_uuids=target_uuids)
    return object_results, frame_ground_truth
'''
R_FILTER_EARLY = '''
def _filter_objects(self, estimated_objects, frame_ground_truth):
    frame_ground_truth = copy(frame_ground_truth)
    estimated_objects = filter_objects(
        objects=estimated_objects, is_gt=False, transforms=frame_ground_truth.transforms, **self.filtering_params)
    frame_ground_truth.objects = filter_objects(
        objects=frame_ground_truth.objects, is_gt=True, transforms=frame_ground_truth.transforms, **self.filtering_params)
    object_results = get_object_results(
        evaluation_task=self.evaluation_task,
        estimated_objects=estimated_objects,
        ground_truth_objects=frame_ground_truth.objects,
        target_labels=self.target_labels,
        matching_label_policy=self.evaluator_config.label_params["matching_label_policy"],
        matchable_thresholds=self.filtering_params["max_matchable_radii"],
        transforms=frame_ground_truth.transforms,
        uuid_matching_first=self.filtering_params["uuid_matching_first"],
    )
    if not self.evaluator_config.filtering_params.get("target_uuids"):
        return object_results, frame_ground_truth
    object_results = filter_object_results(
        object_results=object_results, transforms=frame_ground_truth.transforms, target_uuids=self.filtering_params["target_uuids"])
    return object_results, frame_ground_truth
'''
SCENE_TAIL = '''
    scene_metrics_score = MetricsScore(config=self.metrics_config, used_frame=used_frame)
    if self.evaluator_config.metrics_config.detection_config is not None:
        scene_metrics_score.evaluate_detection(all_frame_results, all_num_gt)
    if self.evaluator_config.metrics_config.tracking_config is not None:
        scene_metrics_score.evaluate_tracking(all_frame_results, all_num_gt)
    if self.evaluator_config.metrics_config.classification_config is not None:
        scene_metrics_score.evaluate_classification(all_frame_results, all_num_gt)
    return scene_metrics_score
'''
R_SCENE_SWAP = '''
def get_scene_result(self):
    target_labels = self.target_labels
    all_frame_results = {label: [[]] for label in target_labels}
    all_num_gt = {label: 0 for label in target_labels}
    used_frame: List[int] = []
    for frame in self.frame_results:
        num_gt_dict = divide_objects_to_num(frame.frame_ground_truth.objects, target_labels)
        obj_result_dict = divide_objects(frame.object_results, target_labels)
        for label in target_labels:
            all_num_gt[label] += num_gt_dict[label]
            all_frame_results[label].append(obj_result_dict[label])
        used_frame.append(int(frame.frame_name))
''' + SCENE_TAIL
R_SCENE_LOCALS = '''
def get_scene_result(self):
    target_labels = self.target_labels
    all_frame_results = {lbl: [[]] for lbl in target_labels}
    all_num_gt = {lbl: 0 for lbl in target_labels}
    used_frame: List[int] = []
    for frame_result in self.frame_results:
        ground_truths = frame_result.frame_ground_truth.objects
        obj_result_dict = divide_objects(frame_result.object_results, target_labels=target_labels)
        num_gt_dict = divide_objects_to_num(ground_truths, target_labels)
        for lbl in target_labels:
            bucket = obj_result_dict[lbl]
            all_frame_results[lbl].append(bucket)
            all_num_gt[lbl] += num_gt_dict[lbl]
        number = int(frame_result.frame_name)
        used_frame.append(number)
''' + SCENE_TAIL
R_SCENE_USED_FIRST = '''
def get_scene_result(self):
    target_labels = self.target_labels
    all_frame_results = {label: [[]] for label in target_labels}
    all_num_gt = {label: 0 for label in target_labels}
    used_frame: List[int] = []
    for frame in self.frame_results:
        used_frame.append(int(frame.frame_name))
        obj_result_dict = divide_objects(frame.object_results, target_labels)
        num_gt_dict = divide_objects_to_num(frame.frame_ground_truth.objects, target_labels)
        for label in target_labels:
            all_frame_results[label].append(obj_result_dict[label])
            all_num_gt[label] += num_gt_dict[label]
''' + SCENE_TAIL
R_NOW_SWAPPED = '''
def get_ground_truth_now_frame(self, unix_time: int, threshold_min_time: int = 75000, interpolate_ground_truth: bool = False):
    if interpolate_ground_truth:
        return get_interpolated_now_frame(
            ground_truth_frames=self.ground_truth_frames, unix_time=unix_time, threshold_min_time=threshold_min_time)
    return get_now_frame(self.ground_truth_frames, unix_time, threshold_min_time)
'''
R_NOW_IFEXP = '''
def get_ground_truth_now_frame(self, unix_time: int, threshold_min_time: int = 75000, interpolate_ground_truth: bool = False):
    frames = self.ground_truth_frames
    return (
        get_interpolated_now_frame(frames, unix_time, threshold_min_time)
        if interpolate_ground_truth
        else get_now_frame(frames, unix_time, threshold_min_time)
    )
'''
REFACTORINGS = [
    ("P01", "add_frame_result: the predecessor as a conditional expression, one call of evaluate_frame", MPY, MG, AF, R_ADD_IFEXP),
    ("P02", "add_frame_result: `len(...) == 0` with the branches swapped, positional constructor arguments", MPY, MG, AF, R_ADD_EQ0),
    ("P03", "add_frame_result: `len(...) >= 1`, positional previous_result, explicit None, a new name for the copy", MPY, MG, AF, R_ADD_GE1),
    ("P04", "add_frame_result: truthiness of the list instead of len() > 0", MPY, MG, AF, R_ADD_TRUTHY),
    ("P05", "_filter_objects: transforms / params / filtered ground truths as locals", MPY, MG, FO, R_FILTER_LOCALS),
    ("P06", "_filter_objects: target_uuids read once into a local, positional matcher arguments", MPY, MG, FO, R_FILTER_UUIDS),
    ("P07", "_filter_objects: early return when there are no target uuids", MPY, MG, FO, R_FILTER_EARLY),
    ("P08", "get_scene_result: `+=` before the append, the two divide calls swapped, no `if ...: pass`", MPY, MG, SR, R_SCENE_SWAP),
    ("P09", "get_scene_result: renamed loop variables, extracted locals, a keyword argument", MPY, MG, SR, R_SCENE_LOCALS),
    ("P10", "get_scene_result: used_frame appended at the start of the loop body", MPY, MG, SR, R_SCENE_USED_FIRST),
    ("P11", "get_ground_truth_now_frame: branches swapped, direct returns, positional arguments", BPY, BS, GN, R_NOW_SWAPPED),
    ("P12", "get_ground_truth_now_frame: one conditional expression", BPY, BS, GN, R_NOW_IFEXP),
]


def needed_files():
    out = set()
    for fn in lm.specs():
        out.add(fn.file)
        out.update(rel for rel, _, _, _ in fn.sigs)
        out.update(rel for rel, _, _, _ in fn.properties)
    return sorted(out)


def make_scratch(n):
    d = os.path.join(SCRATCH, str(n))
    shutil.rmtree(d, ignore_errors=True)
    for rel in needed_files():
        dst = os.path.join(d, "repo", "perception_eval", "perception_eval", rel)
        os.makedirs(os.path.dirname(dst), exist_ok=True)
        shutil.copy(os.path.join(PKGDIR, rel), dst)
    os.makedirs(os.path.join(d, "coq"))
    return d


def scratch_lemmas():
    with open(os.path.join(THEORIES, "Proofs", "GenTieManagerLemmas.v")) as f:
        txt = f.read()
    a, b = "From PE Require Gen.loops_manager.", "Import Gen.loops_manager."
    assert a in txt and b in txt
    return txt.replace(a, "From SCR Require loops_manager.").replace(b, "Import loops_manager.")


def split_gentie():
    with open(os.path.join(THEORIES, "Props", "GenTieManager.v")) as f:
        txt = f.read()
    a = "From PE Require Import Base.QUtil Proofs.GenTieManagerLemmas."
    b = "From PE Require Gen.loops_tracking Gen.loops_interp Gen.loops_manager."
    c = "Import Gen.loops_manager."
    assert a in txt and b in txt and c in txt
    whole = txt.replace(a, "From PE Require Import Base.QUtil.\nFrom SCR Require Import GenTieManagerLemmas.") \
        .replace(b, "From PE Require Gen.loops_tracking Gen.loops_interp.\nFrom SCR Require loops_manager.").replace(c, "Import loops_manager.")
    m0 = re.search(r"^\(\* ---- ", whole, flags=re.M)
    header, blocks = whole[:m0.start()], {}
    for m in re.finditer(r"(?ms)^Theorem (\w+)\b.*?^Print Assumptions \1\.", whole):
        blocks[m.group(1)] = m.group(0) + "\n"
    assert set(blocks) == set(THEOREM_MODULES), (sorted(blocks), sorted(THEOREM_MODULES))
    return whole, header, blocks


def modules_of(text):
    return {m.group(1): m.group(2) for m in re.finditer(r"(?s)Module (Gen_\w+)\.(.*?)End \1\.", text)}


def coqc(args, cwd):
    try:
        p = subprocess.run(["timeout", str(COQ_TIMEOUT), "coqc"] + args, cwd=cwd, capture_output=True, text=True)
        return p.returncode, p.stdout + p.stderr
    except Exception as e:  # noqa: BLE001
        return 99, str(e)


def check_text(d, name, text, nthm):
    fn = os.path.join(d, "coq", f"T_{name}.v")
    with open(fn, "w") as f:
        f.write(text)
    t0 = time.time()
    rc, out = coqc(["-Q", THEORIES, "PE", "-Q", os.path.join(d, "coq"), "SCR", fn], os.path.join(d, "coq"))
    dt = time.time() - t0
    if rc == 0 and out.count("Closed under the global context") == nthm and "Axioms:" not in out:
        return "ok", dt
    if rc == 124:
        return "timeout", dt
    m = re.search(r"Error:\s*(.*)", out, re.S)
    return "FAILS: " + (" ".join(m.group(1).split())[:110] if m else f"rc={rc}"), dt


def run_variant(n, edits, header, blocks, base_modules):
    """-> (translator status, {theorem: (result, seconds)}, scratch dir)"""
    d = make_scratch(n)
    for rel, fn in edits:
        path = os.path.join(d, "repo", "perception_eval", "perception_eval", rel)
        with open(path) as f:
            src = f.read()
        new = fn(src)
        ast.parse(new)
        assert new != src, "the edit changes nothing"
        with open(path, "w") as f:
            f.write(new)
    st = lm.regenerate(os.path.join(d, "repo"), os.path.join(d, "coq"))[GEN]
    with open(os.path.join(d, "coq", GEN)) as f:
        mods = modules_of(f.read())
    if base_modules is None:
        todo = list(blocks)
    else:
        changed = [m for m in base_modules if mods.get(m) != base_modules[m]]
        todo = [t for t in blocks if any(m in changed for m in THEOREM_MODULES[t])]
    if not todo:
        return st, {}, d
    cq = os.path.join(d, "coq")
    rc, out = coqc(["-Q", THEORIES, "PE", "-Q", cq, "SCR", GEN], cq)
    if rc != 0:
        return st, {"<" + GEN + ">": ("FAILS to compile: " + " ".join(out.split())[:200], 0)}, d
    with open(os.path.join(cq, "GenTieManagerLemmas.v"), "w") as f:
        f.write(scratch_lemmas())
    rc, out = coqc(["-Q", THEORIES, "PE", "-Q", cq, "SCR", "GenTieManagerLemmas.v"], cq)
    if rc != 0:
        return st, {"<GenTieManagerLemmas.v>": ("FAILS to compile: " + " ".join(out.split())[:200], 0)}, d
    res = {}
    for t in todo:
        missing = [m for m in THEOREM_MODULES[t] if m not in mods]
        if missing:
            res[t] = ("LOST: " + ", ".join(missing) + " not translated", 0)
        else:
            res[t] = check_text(d, t, header + blocks[t], 1)
    return st, res, d


def main():
    jobs = 4
    only = None
    keep = "--keep" in sys.argv
    if "--jobs" in sys.argv:
        jobs = min(4, int(sys.argv[sys.argv.index("--jobs") + 1]))
    if "--only" in sys.argv:
        only = sys.argv[sys.argv.index("--only") + 1]
    ids = [a for a in sys.argv[1:] if re.fullmatch(r"[A-Z]\d\d", a)]
    shutil.rmtree(SCRATCH, ignore_errors=True)
    os.makedirs(SCRATCH)
    whole, header, blocks = split_gentie()
    failures = 0
    # ---- (1) unchanged repo
    t0 = time.time()
    st, res, d0 = run_variant("base", [], header, blocks, None)
    with open(os.path.join(d0, "coq", GEN)) as f:
        base_modules = modules_of(f.read())
    print(f"(1) UNCHANGED /repo: translation: {'all translated' if st is None else st}")
    for k, (r, dt) in res.items():
        print(f"    {k:60s} {r}  ({dt:.1f}s)")
    bad = [k for k, v in res.items() if v[0] != "ok"]
    r, dt = check_text(d0, "whole_file", whole, len(blocks))
    print(f"    {'<the whole file, with the non-vacuity examples>':60s} {r}  ({dt:.1f}s)")
    print(f"    -> {len(res) - len(bad)}/{len(res)} theorems closed, {time.time() - t0:.0f}s")
    if bad or st is not None or r != "ok":
        failures += 1
    if only == "base":
        if not keep:
            shutil.rmtree(SCRATCH, ignore_errors=True)
        return failures
    with cf.ThreadPoolExecutor(max_workers=jobs) as pool:
        # ---- (2) mutants
        if only in (None, "mutants"):
            print("\n(2) MUTANTS")
            tally = {}
            todo = [m for m in MUTANTS if not ids or m[0] in ids]
            futs = [pool.submit(run_variant, m[0],
                                [(m[1], special_edit(m[0]) if m[4] is None else
                                  (lambda s, c=m[2], f=m[3], o=m[4], n=m[5]: apply_edit(s, c, f, o, n)))], header, blocks, base_modules)
                    for m in todo]
            for (mid, rel, cls, func, old, new, expected, why), fut in zip(todo, futs):
                try:
                    st, res, d = fut.result()
                except Exception as e:  # noqa: BLE001
                    print(f"  {mid} ERROR {type(e).__name__}: {e}")
                    failures += 1
                    continue
                badt = [f"{k} [{v[0]}]" for k, v in res.items() if v[0] != "ok"]
                if st:
                    verdict = "fails closed (translator)"
                    okv = expected in ("closed", "caught", "equivalent")
                elif not res:
                    verdict = "generated text unchanged" + (" (equivalent)" if expected == "equivalent" else "")
                    okv = expected == "equivalent"
                elif badt:
                    verdict = "caught" if expected != "equivalent" else "equivalent, proof script rejects"
                    okv = True
                else:
                    verdict = "equivalent, still proves" if expected == "equivalent" else "MISSED"
                    okv = expected == "equivalent"
                if expected == "equivalent" and st:
                    verdict = "equivalent, fails closed"
                if expected == "closed" and not st:
                    verdict += " (expected to fail closed)"
                tally[verdict] = tally.get(verdict, 0) + 1
                if not okv:
                    failures += 1
                    verdict += "  <<<<<< UNEXPECTED"
                desc = f"{func}: {' '.join((old or 'several lines').split())[:58]!r} -> {' '.join((new or 'see the note').split())[:58]!r}"
                print(f"  {mid} {verdict:34s} {desc}  ({sum(v[1] for v in res.values()):.0f}s)", flush=True)
                if why:
                    print(f"        note: {why}")
                if st:
                    print(f"        translator: {st[:260]}")
                for b in badt:
                    print(f"        breaks: {b[:190]}")
                if not keep:
                    shutil.rmtree(d, ignore_errors=True)
            print("  tally:", tally)
        # ---- (3) refactorings
        if only in (None, "refactorings"):
            print("\n(3) REFACTORINGS (behaviour preserving)")
            survived = 0
            allr = [r for r in REFACTORINGS if not ids or r[0] in ids]
            futs = [pool.submit(run_variant, rid, [(rel, (lambda s, c=cls, f=func, n=new: replace_function(s, c, f, n)))],
                                header, blocks, base_modules)
                    for (rid, desc, rel, cls, func, new) in allr]
            for (rid, desc, rel, cls, func, new), fut in zip(allr, futs):
                try:
                    st, res, d = fut.result()
                except Exception as e:  # noqa: BLE001
                    print(f"  {rid} ERROR {type(e).__name__}: {e}")
                    failures += 1
                    continue
                badt = [f"{k} [{v[0]}]" for k, v in res.items() if v[0] != "ok"]
                if st:
                    verdict = "translator FAILS CLOSED"
                elif badt:
                    verdict = "translated, proof REJECTS"
                else:
                    verdict = "survives" + ("" if res else " (generated text identical)")
                    survived += 1
                print(f"  {rid} {verdict:28s} {desc}  [{len(res)} theorem(s) re-checked]")
                if st:
                    print(f"        translator: {st[:260]}")
                for b in badt:
                    print(f"        breaks: {b[:190]}")
                if not keep:
                    shutil.rmtree(d, ignore_errors=True)
            print(f"  {survived}/{len(allr)} refactorings survive")
    if not keep:
        shutil.rmtree(SCRATCH, ignore_errors=True)
    return 1 if failures else 0


if __name__ == "__main__":
    sys.exit(main())
