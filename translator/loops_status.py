#!/usr/bin/env python3
"""Translator for common/status.py of perception_eval (property C19, the status tallies and rates): Python `ast` -> Gallina
(Gen/loops_status.v).

Layer of the redundant tie for C19: `StatusRate` (constructor, the three private getters, the `rate` property),
`GroundTruthStatus.__init__` / `add_status` / `get_status_rates` and `get_scene_rates` are re-translated from the source on every run and
Props/GenTieStatus.v proves each generated definition EQUAL, for all inputs, to the hand model (Model/Analyzer.v: `add_status`,
`mkGtStatus`) or, where the model has no definition (the rates), to an explicit closed-form term (Proofs/GenTieStatusLemmas.v).

A small whitelist translator in continuation-passing style (everything that is not listed fails closed, per function):

  values          nat (len(), a counter `n = 0; n += len(..)`), list nat (frame numbers), `sval` (a status argument: a MatchingStatus
                  member or its string value -- MatchingStatus.__eq__ accepts both -- or anything else), floats `option Q` (None =
                  float("inf"); a finite value is an exact rational), tuples, the records of the model
  a / b           on two ints: Python's true division, `fdiv_nat`, ZeroDivisionError on a zero divisor WHATEVER the numerator.  No
                  dominating test is needed: the guard is in the term and the equation proves that the error is never reached
  == != < <= > >= nat against nat / an integer-valued non-negative literal (0, 0.0); `status == MatchingStatus.X` is `sval_is`
  and / or / not  on pure conditions; `a if c else b`; `if` / `elif` / `else` (the rest of the block is continued in both branches)
  for x in xs     the body may only accumulate (`n += <pure nat>`, `n = n + ..`): fold_left over the tuple of the assigned counters
  return          with a value; bare in a method that returns None (the current state of the object)
  raise E(...)    the error class (the message must not contain a call)
  self.x.append(v) / self.x = v    on the attributes the method owns: they are locals `self_x`, read from the record at entry; a method
                  that returns None "returns" the record rebuilt from them (constructor: the record / tuple of its attributes)
  calls           `StatusRate(...)`, `self.__get_*()` : the generated definition of the callee (its parameter list is checked)
Also here (same property): tool/utils.py get_area_idx.  Its first statements (isinstance dispatch, TransformKey, transforms.transform:
how the BASE_LINK position (x, y) of the object is obtained) are PINNED by their text and not translated -- the model starts from that
position; the rest is translated with numpy rendered by vocabulary (fixed text of the generated file):
  arr[:, 0] / arr[:, 1]   a column of an (N, 2) array (map fst / map snd);  x < col, x > col, <=, >=: elementwise, a list of booleans
  a * b, a + b            on bool arrays: elementwise and / or, `bzip` with numpy's broadcasting rule (equal lengths, or one of them 1;
                          otherwise ValueError)
  any(v) is False         any() is the builtin (a genuine bool), so the identity test is `not any(v)`
  np.where(v)[0].item()   the index of the only true element; ValueError unless exactly one
generate_area_points (np.arange / np.repeat / np.meshgrid / reshape) is NOT translated.
Only `ast` is used; the library is never imported.
"""
import ast
import os
import sys
from fractions import Fraction

HERE = os.path.dirname(os.path.abspath(__file__))
sys.path.insert(0, HERE)
from py_to_coq import TranslatorError, coq_str  # noqa: E402
from decisions import fail, paren, qlit, parse, find_function  # noqa: E402

MODNAME = "loops_status"          # harness/lib/core.py regenerate_gen: translator/<modname>.py writes Gen/<modname>.v
STATUS_PY = "common/status.py"

NAT, NATLIST, SVAL, FL, BOOL, NUM, GT, GTLIST, RATE, UUID = "nat", "list nat", "sval", "option Q", "bool", "<literal>", \
    "Analyzer.GtStatus", "list Analyzer.GtStatus", "status_rate", "nat (* uuid *)"
QT, ARR2, QVEC, BVEC, OPTNAT, NONE_T = "Q", "list (Q * Q)", "list Q", "list bool", "option nat", "<None>"
EXN = ("ValueError", "ZeroDivisionError", "TypeError")
UTILS_PY = "tool/utils.py"


TUPS = {}


def tup(*ts):
    t = "(" + " * ".join(ts) + ")"
    TUPS[t] = list(ts)
    return t


class E:
    def __init__(self, term, ty, num=None, emptylist=False, parts=None):
        self.term, self.ty, self.num, self.emptylist, self.parts = term, ty, num, emptylist, parts


class Call:
    def __init__(self, template, params, ret, sig):
        self.template, self.params, self.ret, self.sig = template, params, ret, sig       # sig = (class, function)


class Fn:
    def __init__(self, name, cls, func, params, penv, ret, attrs=None, own=None, init=None, result=None, calls=None, needs=(),
                 decorators=(), file=None, preamble=(), pyparams=None):
        self.file, self.preamble, self.pyparams = file or STATUS_PY, tuple(preamble), pyparams
        self.name, self.cls, self.func, self.params, self.penv, self.ret = name, cls, func, params, penv, ret
        self.attrs, self.own, self.init, self.result, self.calls, self.needs = attrs or {}, own or {}, init, result, calls or {}, needs
        self.decorators = decorators
        self.counter, self.noeff = 0, False

    def fresh(self, hint):
        self.counter += 1
        return f"{hint}{self.counter}_"


class Env:
    def __init__(self, fn):
        self.fn, self.vars, self.params = fn, {}, set()

    def copy(self):
        e = Env(self.fn)
        e.vars, e.params = dict(self.vars), set(self.params)
        return e


def lname(n):
    return n if not n.startswith("__") else "l" + n


def coerce(e, ty, node):
    if e.ty == ty:
        return e.term
    if e.ty == NUM:
        if ty == NAT and e.num.denominator == 1 and e.num >= 0:
            return f"{int(e.num)}%nat"
        if ty == FL:
            return f"Some {qlit(e.num)}"
    if e.emptylist and ty == NATLIST:
        return "(@nil nat)"
    if ty == OPTNAT and e.ty == NONE_T:
        return "(@None nat)"
    if ty == OPTNAT and e.ty == NAT:
        return f"Some {paren(e.term)}"
    if ty == OPTNAT and e.ty == NUM and natlike(e):
        return f"Some {int(e.num)}%nat"
    if e.parts is not None and ty in TUPS and len(TUPS[ty]) == len(e.parts):      # a tuple with literals: typed by what it is returned as
        return "(" + ", ".join(coerce(x, t, node) for x, t in zip(e.parts, TUPS[ty])) + ")"
    fail(f"a {e.ty} where a {ty} is needed", node)


def is_inf(node):
    return isinstance(node, ast.Call) and isinstance(node.func, ast.Name) and node.func.id == "float" and len(node.args) == 1 \
        and not node.keywords and isinstance(node.args[0], ast.Constant) and node.args[0].value in ("inf", "Infinity", "+inf")


def emit_bind(fn, term, k, ty, hint="v"):
    if fn.noeff:
        fail("something that can raise inside a loop body / a condition")
    v = fn.fresh(hint)
    return f"bind ({term}) (fun {v} =>\n{k(E(v, ty))})"


def natlike(e):
    return e.ty == NAT or (e.ty == NUM and e.num.denominator == 1 and e.num >= 0)


# =============================================================================================
# expressions
# =============================================================================================
def tr(node, env, k):
    fn = env.fn
    if isinstance(node, ast.Constant) and node.value is None:
        return k(E("None", NONE_T))
    if isinstance(node, ast.Subscript):          # arr[:, 0] / arr[:, 1]: a column of an (N, 2) array
        ix = node.slice
        if not (isinstance(ix, ast.Tuple) and len(ix.elts) == 2 and isinstance(ix.elts[0], ast.Slice) and ix.elts[0].lower is None
                and ix.elts[0].upper is None and ix.elts[0].step is None and isinstance(ix.elts[1], ast.Constant)
                and type(ix.elts[1].value) is int and ix.elts[1].value in (0, 1)):
            fail("subscript that is not a column `[:, 0]` / `[:, 1]`", node)

        def with_arr(a):
            if a.ty != ARR2:
                fail(f"column of a {a.ty}", node)
            return k(E(f"map {'fst' if ix.elts[1].value == 0 else 'snd'} {paren(a.term)}", QVEC))
        return tr(node.value, env, with_arr)
    if isinstance(node, ast.Compare) and len(node.ops) == 1 and isinstance(node.ops[0], (ast.Is, ast.IsNot)):
        c = node.comparators[0]            # `any(..) is False`: any() returns a genuine bool, so identity with False is `not`
        if not (isinstance(c, ast.Constant) and isinstance(c.value, bool) and isinstance(node.left, ast.Call)
                and isinstance(node.left.func, ast.Name) and node.left.func.id == "any"):
            fail("`is` that is not `any(...) is True / False`", node)
        same = c.value == isinstance(node.ops[0], ast.Is)
        return tr(node.left, env, lambda a: k(E(a.term if same else f"negb {paren(a.term)}", BOOL)))
    if isinstance(node, ast.Compare) and len(node.ops) == 1 and isinstance(node.ops[0], (ast.Lt, ast.LtE, ast.Gt, ast.GtE)):
        a, b = pure(node.left, env), pure(node.comparators[0], env)
        if {a.ty, b.ty} == {QT, QVEC}:          # a scalar against a vector: elementwise
            op = type(node.ops[0])
            if a.ty == QVEC:                    # vec < x  is  x > vec
                a, b, op = b, a, {ast.Lt: ast.Gt, ast.Gt: ast.Lt, ast.LtE: ast.GtE, ast.GtE: ast.LtE}[op]
            x = paren(a.term)
            body = {ast.Lt: f"Qltb {x} v_", ast.Gt: f"Qltb v_ {x}", ast.LtE: f"negb (Qltb v_ {x})", ast.GtE: f"negb (Qltb {x} v_)"}[op]
            return k(E(f"map (fun v_ => {body}) {paren(b.term)}", BVEC))
    if isinstance(node, ast.BinOp) and isinstance(node.op, (ast.Mult, ast.Add)):
        def with_vecs(a, b):
            if a.ty == BVEC and b.ty == BVEC:      # numpy bool arrays: * is `and`, + is `or`, with broadcasting
                return emit_bind(fn, f"{'bmul' if isinstance(node.op, ast.Mult) else 'badd'} {paren(a.term)} {paren(b.term)}", k, BVEC)
            return None
        box = []
        probe = Env.copy(env)
        old, fn.noeff = fn.noeff, False
        c0 = fn.counter
        try:
            tr(node.left, probe, lambda a: (box.append(a), "?")[1])
        except TranslatorError:
            pass
        finally:
            fn.noeff, fn.counter = old, c0
        if len(box) == 1 and box[0].ty == BVEC:
            return tr(node.left, env, lambda a: tr(node.right, env, lambda b: with_vecs(a, b) or fail("a bool array with something else", node)))
    if isinstance(node, ast.Call) and isinstance(node.func, ast.Name) and node.func.id == "any" and "any" not in env.vars:
        if len(node.args) != 1 or node.keywords:
            fail("any form", node)

        def with_v(v):
            if v.ty != BVEC:
                fail(f"any of a {v.ty}", node)
            return k(E(f"existsb (fun b_ => b_) {paren(v.term)}", BOOL))
        return tr(node.args[0], env, with_v)
    if isinstance(node, ast.Call) and ast.unparse(node.func).startswith("np.where(") and ast.unparse(node.func).endswith(")[0].item"):
        w = node.func.value.value           # np.where(v)[0].item(): the index of the only true element (ValueError unless exactly one)
        if node.args or node.keywords or len(w.args) != 1 or w.keywords or ast.unparse(w.func) != "np.where" \
                or not (isinstance(node.func.value.slice, ast.Constant) and node.func.value.slice.value == 0):
            fail("np.where form", node)

        def with_w(v):
            if v.ty != BVEC:
                fail(f"np.where of a {v.ty}", node)
            return emit_bind(fn, f"item_of (where_true 0 {paren(v.term)})", k, NAT)
        return tr(w.args[0], env, with_w)
    if isinstance(node, ast.Constant):
        v = node.value
        if isinstance(v, bool) or not isinstance(v, (int, float)) or v != v or v in (float("inf"), float("-inf")):
            fail(f"literal {v!r}", node)
        return k(E(None, NUM, num=Fraction(v)))
    if is_inf(node):
        return k(E("(@None Q)", FL))
    if isinstance(node, ast.List) and not node.elts:
        return k(E(None, "<empty list>", emptylist=True))
    if isinstance(node, ast.Name):
        if node.id not in env.vars:
            fail(f"unknown name `{node.id}`", node)
        t, ty = env.vars[node.id]
        return k(E(t, ty))
    if isinstance(node, ast.Attribute):
        key = ast.unparse(node)
        if key in CONSTS:
            return k(E(*CONSTS[key]))
        if isinstance(node.value, ast.Name) and node.value.id == "self" and node.attr in fn.own:
            nme = "self_" + node.attr
            if nme not in env.vars:
                fail(f"`{key}` is read before it is assigned", node)
            return k(E(*env.vars[nme]))

        def with_base(b):
            a = fn.attrs.get((b.ty, node.attr))
            if a is None:
                fail(f"attribute not in the vocabulary: `.{node.attr}` of a {b.ty}", node)
            return k(E(a[0].format(paren(b.term)), a[1]))
        return tr(node.value, env, with_base)
    if isinstance(node, ast.Tuple):
        def go(i, acc):
            if i == len(node.elts):
                if any(e.ty == NUM or e.emptylist for e in acc):
                    return k(E(None, "<tuple with literals>", parts=acc))
                return k(E("(" + ", ".join(e.term for e in acc) + ")", tup(*[e.ty for e in acc])))
            return tr(node.elts[i], env, lambda e: go(i + 1, acc + [e]))
        if len(node.elts) < 2:
            fail("tuple form", node)
        return go(0, [])
    if isinstance(node, ast.BinOp):
        def with_ab(a, b):
            if isinstance(node.op, ast.Div):
                if a.ty == NUM and b.ty == NUM:
                    fail("division of two literals", node)
                if natlike(a) and natlike(b):
                    return emit_bind(fn, f"fdiv_nat {paren(coerce(a, NAT, node))} {paren(coerce(b, NAT, node))}", k, FL)
                fail(f"division of a {a.ty} by a {b.ty}", node)
            if isinstance(node.op, ast.Add):
                if a.ty == NUM and b.ty == NUM:
                    return k(E(None, NUM, num=a.num + b.num))
                if natlike(a) and natlike(b):
                    return k(E(f"({paren(coerce(a, NAT, node))} + {paren(coerce(b, NAT, node))})%nat", NAT))
                fail(f"sum of a {a.ty} and a {b.ty}", node)
            fail(f"operator {type(node.op).__name__}", node)
        return tr(node.left, env, lambda a: tr(node.right, env, lambda b: with_ab(a, b)))
    if isinstance(node, ast.IfExp):
        c = cond(node.test, env)
        return f"if {c} then\n{tr(node.body, env, k)}\nelse\n{tr(node.orelse, env, k)}"
    if isinstance(node, (ast.Compare, ast.BoolOp)) or (isinstance(node, ast.UnaryOp) and isinstance(node.op, ast.Not)):
        return k(E(cond(node, env), BOOL))
    if isinstance(node, ast.Call):
        f = node.func
        if isinstance(f, ast.Name) and f.id == "len" and f.id not in env.vars and len(node.args) == 1 and not node.keywords:
            def with_l(l):
                if l.ty != NATLIST:
                    fail(f"len of a {l.ty}", node)
                return k(E(f"length {paren(l.term)}", NAT))
            return tr(node.args[0], env, with_l)
        key = ast.unparse(f)
        spec = fn.calls.get(key)
        if spec is None or (isinstance(f, ast.Name) and f.id in env.vars):
            fail(f"call not in the vocabulary: `{key}`", node)
        if any(isinstance(a, ast.Starred) for a in node.args) or any(kw.arg is None for kw in node.keywords) \
                or len(node.args) > len(spec.params):
            fail(f"call form of `{key}`", node)
        given = {}
        for (pn, _), a in zip(spec.params, node.args):
            given[pn] = a
        for kw in node.keywords:
            if kw.arg in given or kw.arg not in [p for p, _ in spec.params]:
                fail(f"argument `{kw.arg}` of `{key}`", node)
            given[kw.arg] = kw.value
        if sorted(given) != sorted(p for p, _ in spec.params):
            fail(f"arguments of `{key}`", node)
        order = [a for a in node.args] + [kw.value for kw in node.keywords]      # Python's evaluation order
        names = [pn for (pn, _), _a in zip(spec.params, node.args)] + [kw.arg for kw in node.keywords]
        tys = dict(spec.params)

        def go(i, acc):
            if i == len(order):
                d = dict(acc)
                if "self" in spec.template:
                    d["self"] = paren(env.vars["self"][0])
                return emit_bind(fn, spec.template.format(**d), k, spec.ret, hint="r")
            return tr(order[i], env, lambda e: go(i + 1, acc + [(names[i], paren(coerce(e, tys[names[i]], node)))]))
        return go(0, [])
    fail(f"expression not translated: {type(node).__name__}", node)


def pure(node, env):
    fn = env.fn
    old, fn.noeff = fn.noeff, True
    box = []
    try:
        tr(node, env, lambda e: (box.append(e), "?")[1])
    finally:
        fn.noeff = old
    if len(box) != 1:
        fail("a condition / loop value that branches", node)
    return box[0]


def cond(node, env):
    """a pure boolean term"""
    if isinstance(node, ast.BoolOp):
        op = "&&" if isinstance(node.op, ast.And) else "||"
        return "(" + f" {op} ".join(cond(v, env) for v in node.values) + ")"
    if isinstance(node, ast.UnaryOp) and isinstance(node.op, ast.Not):
        return f"negb {paren(cond(node.operand, env))}"
    if isinstance(node, ast.Compare):
        if len(node.ops) != 1:
            fail("chained comparison", node)
        op, a, b = node.ops[0], pure(node.left, env), pure(node.comparators[0], env)
        if isinstance(op, (ast.Eq, ast.NotEq)) and SVAL in (a.ty, b.ty):
            if a.ty == SVAL and a.term in SCONST.values():
                a, b = b, a
            if not (a.ty == SVAL and b.ty == SVAL and b.term in SCONST.values()):
                fail("a status compared with something that is not a MatchingStatus member", node)
            t = f"sval_is {paren(a.term)} {b.term[len('(SKnown '):-1]}"
            return t if isinstance(op, ast.Eq) else f"negb ({t})"
        if a.ty == NUM and b.ty == NUM:
            fail("comparison of two literals", node)
        if natlike(a) and natlike(b):
            x, y = paren(coerce(a, NAT, node)), paren(coerce(b, NAT, node))
            f = {ast.Eq: "Nat.eqb {x} {y}", ast.NotEq: "negb (Nat.eqb {x} {y})", ast.Lt: "Nat.ltb {x} {y}", ast.LtE: "Nat.leb {x} {y}",
                 ast.Gt: "Nat.ltb {y} {x}", ast.GtE: "Nat.leb {y} {x}"}.get(type(op))
            if f is None:
                fail(f"comparison operator {type(op).__name__}", node)
            return f.format(x=x, y=y)
        fail(f"comparison of a {a.ty} with a {b.ty}", node)
    e = pure(node, env)
    if e.ty != BOOL:
        fail(f"truth value of a {e.ty}", node)
    return e.term


# =============================================================================================
# statements
# =============================================================================================
def finish(env, node=None):
    fn = env.fn
    if fn.result is None:
        fail("the function can end without a return (None)", node)
    d = {}
    for a in fn.own:
        if "self_" + a not in env.vars:
            fail(f"the attribute `{a}` is not assigned on every path", node)
        d[a] = env.vars["self_" + a][0]
    if "self" in env.vars:
        d["self"] = paren(env.vars["self"][0])
    return "Ok " + paren(fn.result.format(**d))


def assigned_names(stmts, env, loopvar):
    out = []
    for s in stmts:
        if isinstance(s, ast.AugAssign) and isinstance(s.target, ast.Name):
            n = s.target.id
        elif isinstance(s, ast.Assign) and len(s.targets) == 1 and isinstance(s.targets[0], ast.Name):
            n = s.targets[0].id
        elif isinstance(s, ast.AnnAssign) and isinstance(s.target, ast.Name) and s.value is not None:
            n = s.target.id
        else:
            fail(f"statement of a loop body not translated: {type(s).__name__}", s)
        if n == loopvar or n in env.params or n not in env.vars or env.vars[n][1] != NAT:
            fail(f"a loop body may only update counters that exist before the loop (`{n}`)", s)
        if n not in out:
            out.append(n)
    return out


def block(ss, env, inloop=None):
    fn = env.fn
    if not ss:
        return inloop if inloop is not None else finish(env)
    s, rest = ss[0], ss[1:]

    def cont(e):
        return block(rest, e, inloop)

    def bind_name(nme, v, node):
        if nme in env.params or nme == "self":
            fail(f"the parameter `{nme}` is re-bound", node)
        if v.ty == NUM:
            if not natlike(v):
                fail(f"`{nme}` = a literal that is not a natural number", node)
            v = E(coerce(v, NAT, node), NAT)
        if v.emptylist:
            v = E("(@nil nat)", NATLIST)          # the frame-number lists are the only lists built here
        if v.term is None:
            fail(f"`{nme}` = a value whose type is not known here", node)
        if nme in env.vars and env.vars[nme][1] != v.ty:
            fail(f"`{nme}` changes type ({env.vars[nme][1]} -> {v.ty})", node)
        e1 = env.copy()
        e1.vars[nme] = (lname(nme), v.ty)
        return f"let {lname(nme)} := {v.term} in\n{cont(e1)}"

    if isinstance(s, ast.Expr) and isinstance(s.value, ast.Constant) and isinstance(s.value.value, str):
        return cont(env)
    if isinstance(s, ast.Pass):
        return cont(env)
    if isinstance(s, (ast.Assign, ast.AnnAssign)):
        if getattr(s, "value", None) is None:
            fail("declaration without a value", s)
        targets = s.targets if isinstance(s, ast.Assign) else [s.target]
        if len(targets) != 1:
            fail("multiple assignment", s)
        t = targets[0]
        if isinstance(t, ast.Name):
            return tr(s.value, env, lambda v: bind_name(t.id, v, s))
        if isinstance(t, ast.Attribute) and isinstance(t.value, ast.Name) and t.value.id == "self" and t.attr in fn.own and inloop is None:
            ty = fn.own[t.attr]

            def setattr_(v):
                e1 = env.copy()
                e1.vars["self_" + t.attr] = ("self_" + t.attr, ty)
                return f"let self_{t.attr} := {coerce(v, ty, s)} in\n{cont(e1)}"
            return tr(s.value, env, setattr_)
        fail(f"assignment to `{ast.unparse(t)}`", s)
    if isinstance(s, ast.AugAssign):
        if not isinstance(s.op, ast.Add) or not isinstance(s.target, ast.Name):
            fail("augmented assignment form", s)
        nme = s.target.id
        if nme not in env.vars or nme in env.params or env.vars[nme][1] != NAT:
            fail(f"`{nme} += ...` on something that is not a local counter", s)

        def aug(v):
            if not natlike(v):
                fail(f"`+=` of a {v.ty} to a counter", s)
            return f"let {lname(nme)} := ({lname(nme)} + {paren(coerce(v, NAT, s))})%nat in\n{cont(env.copy())}"
        return tr(s.value, env, aug)
    if inloop is not None:
        fail(f"statement of a loop body not translated: {type(s).__name__}", s)
    if isinstance(s, ast.Expr) and isinstance(s.value, ast.Call) and isinstance(s.value.func, ast.Attribute) and s.value.func.attr == "append":
        c = s.value
        tgt = c.func.value
        if not (isinstance(tgt, ast.Attribute) and isinstance(tgt.value, ast.Name) and tgt.value.id == "self" and tgt.attr in fn.own
                and fn.own[tgt.attr] == NATLIST) or len(c.args) != 1 or c.keywords:
            fail(f"append to `{ast.unparse(tgt)}`, which is not a frame-number list of the object", s)
        nme = "self_" + tgt.attr
        if nme not in env.vars:
            fail(f"`{ast.unparse(tgt)}` is appended to before it exists", s)

        def app(v):
            if v.ty != NAT:
                fail(f"append of a {v.ty}", s)
            return f"let {nme} := ({nme} ++ [{v.term}])%list in\n{cont(env.copy())}"
        return tr(c.args[0], env, app)
    if isinstance(s, ast.If):
        def branch(c):
            if c.ty != BOOL:
                fail(f"truth value of a {c.ty}", s)
            return f"if {c.term} then\n{block(s.body + rest, env)}\nelse\n{block(s.orelse + rest, env)}"
        return tr(s.test, env, branch)
    if isinstance(s, ast.Return):
        if s.value is None and fn.result is not None and fn.init is not None:
            return finish(env, s)          # a method that mutates its object: a bare return ends it with the current state
        if s.value is None or fn.result is not None:
            fail("return form", s)
        return tr(s.value, env, lambda e: "Ok " + paren(coerce(e, fn.ret, s)))
    if isinstance(s, ast.Raise):
        x = s.exc
        if s.cause is not None or not (isinstance(x, ast.Call) and isinstance(x.func, ast.Name) and x.func.id in EXN):
            fail("raise of something that is not one of the modelled exception classes", s)
        if any(isinstance(n, ast.Call) for a in list(x.args) + [kw.value for kw in x.keywords] for n in ast.walk(a)):
            fail("a call inside the message of a raise", s)
        return f"Err {x.func.id}"
    if isinstance(s, ast.For):
        if s.orelse or not isinstance(s.target, ast.Name) or s.target.id in env.vars:
            fail("loop form", s)
        it = pure(s.iter, env)
        if it.ty != GTLIST:
            fail(f"loop over a {it.ty}", s)
        x = s.target.id
        names = assigned_names(s.body, env, x)
        if not names:
            fail("a loop that updates nothing", s)
        e1 = env.copy()
        e1.vars[x] = (lname(x), GT)
        e1.params.add(x)
        pat = ", ".join(lname(n) for n in names)
        old, fn.noeff = fn.noeff, True
        try:
            body = block(s.body, e1, inloop=f"({pat})" if len(names) > 1 else lname(names[0]))
        finally:
            fn.noeff = old
        if len(names) == 1:
            n = lname(names[0])
            return f"let {n} := fold_left (fun {n} {lname(x)} =>\n{body}) {paren(it.term)} {n} in\n{cont(env.copy())}"
        return (f"let '({pat}) := fold_left (fun st_ {lname(x)} => let '({pat}) := st_ in\n{body}) {paren(it.term)} ({pat}) in\n"
                f"{cont(env.copy())}")
    fail(f"statement not translated: {type(s).__name__}", s)


# =============================================================================================
# the functions and their vocabularies
# =============================================================================================
SCONST = {"MatchingStatus." + m: f"(SKnown Analyzer.{m})" for m in ("TP", "FP", "TN", "FN")}
CONSTS = {k: (v, SVAL) for k, v in SCONST.items()}
GT_ATTRS = {(GT, "total_frame_nums"): ("Analyzer.g_total {}", NATLIST), (GT, "tp_frame_nums"): ("Analyzer.g_tp {}", NATLIST),
            (GT, "fp_frame_nums"): ("Analyzer.g_fp {}", NATLIST), (GT, "tn_frame_nums"): ("Analyzer.g_tn {}", NATLIST),
            (GT, "fn_frame_nums"): ("Analyzer.g_fn {}", NATLIST), (GT, "uuid"): ("Analyzer.g_uuid {}", UUID)}
RATE_ATTRS = {(RATE, "status"): ("sr_status {}", SVAL), (RATE, "status_frame_nums"): ("sr_status_frames {}", NATLIST),
              (RATE, "total_frame_nums"): ("sr_total_frames {}", NATLIST)}
GT_LISTS = ("total_frame_nums", "tp_frame_nums", "fp_frame_nums", "tn_frame_nums", "fn_frame_nums")
GT_RECORD = "Analyzer.mkGtStatus {uuid} " + " ".join("{" + a + "}" for a in GT_LISTS)
EQ_EXPECTED = "def __eq__(self, other: Union[MatchingStatus, str]) -> bool:\n    if isinstance(other, str):\n" \
              "        return self.value == other\n    return super().__eq__(other)"


def check_enum(tree):
    """`status == MatchingStatus.X` is rendered `sval_is status X`: that is what MatchingStatus is (four members whose value is their
    name, an __eq__ that also accepts the string value) -- checked on the source"""
    cs = [n for n in tree.body if isinstance(n, ast.ClassDef) and n.name == "MatchingStatus"]
    if len(cs) != 1 or [ast.unparse(b) for b in cs[0].bases] != ["Enum"]:
        fail("class MatchingStatus(Enum) not found")
    members = [(s.targets[0].id, s.value.value) for s in cs[0].body
               if isinstance(s, ast.Assign) and len(s.targets) == 1 and isinstance(s.targets[0], ast.Name) and isinstance(s.value, ast.Constant)]
    if members != [(m, m) for m in ("TP", "FP", "FN", "TN")] or any(isinstance(s, ast.AnnAssign) for s in cs[0].body):
        fail(f"the members of MatchingStatus changed: {members}")
    eq = [s for s in cs[0].body if isinstance(s, ast.FunctionDef) and s.name == "__eq__"]
    if len(eq) != 1 or ast.unparse(eq[0]) != EQ_EXPECTED or any(isinstance(s, ast.FunctionDef) and s.name in ("__ne__", "__hash__") for s in cs[0].body):
        fail("MatchingStatus.__eq__ changed")


def specs():
    S = []
    rate_self = {"self": ("self", RATE)}
    S.append(Fn("StatusRate___init__", "StatusRate", "__init__", "(status : sval) (status_frame_nums total_frame_nums : list nat)",
                {"status": ("status", SVAL), "status_frame_nums": ("status_frame_nums", NATLIST), "total_frame_nums": ("total_frame_nums", NATLIST)},
                RATE, own={"status": SVAL, "status_frame_nums": NATLIST, "total_frame_nums": NATLIST},
                result="({status}, {status_frame_nums}, {total_frame_nums})"))
    S.append(Fn("__get_num_status_frames", "StatusRate", "__get_num_status_frames", "(self : status_rate)", dict(rate_self), NAT, attrs=RATE_ATTRS))
    S.append(Fn("__get_num_total_frames", "StatusRate", "__get_num_total_frames", "(self : status_rate)", dict(rate_self), NAT, attrs=RATE_ATTRS))
    S.append(Fn("__get_rate", "StatusRate", "__get_rate", "(self : status_rate)", dict(rate_self), FL, attrs=RATE_ATTRS,
                calls={"self.__get_num_status_frames": Call("Gen___get_num_status_frames.f {self}", [], NAT, ("StatusRate", "__get_num_status_frames")),
                       "self.__get_num_total_frames": Call("Gen___get_num_total_frames.f {self}", [], NAT, ("StatusRate", "__get_num_total_frames"))},
                needs=("__get_num_status_frames", "__get_num_total_frames")))
    S.append(Fn("rate", "StatusRate", "rate", "(self : status_rate)", dict(rate_self), FL, attrs=RATE_ATTRS,
                calls={"self.__get_rate": Call("Gen___get_rate.f {self}", [], FL, ("StatusRate", "__get_rate"))}, needs=("__get_rate",),
                decorators=("property",)))
    S.append(Fn("GroundTruthStatus___init__", "GroundTruthStatus", "__init__", "(uuid : nat)", {"uuid": ("uuid", UUID)}, GT,
                own=dict({"uuid": UUID}, **{a: NATLIST for a in GT_LISTS}), result=GT_RECORD))
    S.append(Fn("add_status", "GroundTruthStatus", "add_status", "(self : Analyzer.GtStatus) (status : sval) (frame_num : nat)",
                {"self": ("self", GT), "status": ("status", SVAL), "frame_num": ("frame_num", NAT)}, GT, attrs=GT_ATTRS,
                own={a: NATLIST for a in GT_LISTS}, init={a: GT_ATTRS[(GT, a)][0] for a in GT_LISTS},
                result=GT_RECORD.replace("{uuid}", "(Analyzer.g_uuid {self})")))
    ctor = Call("Gen_StatusRate___init__.f {status} {status_frame_nums} {total_frame_nums}",
                [("status", SVAL), ("status_frame_nums", NATLIST), ("total_frame_nums", NATLIST)], RATE, ("StatusRate", "__init__"))
    S.append(Fn("get_status_rates", "GroundTruthStatus", "get_status_rates", "(self : Analyzer.GtStatus)", {"self": ("self", GT)},
                tup(RATE, RATE, RATE, RATE), attrs=GT_ATTRS, calls={"StatusRate": ctor}, needs=("StatusRate___init__",)))
    S.append(Fn("get_scene_rates", None, "get_scene_rates", "(status_list : list Analyzer.GtStatus)", {"status_list": ("status_list", GTLIST)},
                tup(FL, FL, FL, FL), attrs=GT_ATTRS))
    S.append(Fn("get_area_idx", None, "get_area_idx", "(upper_rights bottom_lefts : list (Q * Q)) (x y : Q)",
                {"upper_rights": ("upper_rights", ARR2), "bottom_lefts": ("bottom_lefts", ARR2), "x": ("x", QT), "y": ("y", QT)}, OPTNAT,
                file=UTILS_PY, pyparams=("object_result", "upper_rights", "bottom_lefts", "transforms"), preamble=AREA_PREAMBLE))
    return S


AREA_PREAMBLE = (
    "if isinstance(object_result, DynamicObject):\n    frame_id: FrameID = object_result.frame_id\n"
    "    position: np.ndarray = np.array(object_result.state.position)\n"
    "elif isinstance(object_result, DynamicObjectWithPerceptionResult):\n    frame_id: FrameID = object_result.estimated_object.frame_id\n"
    "    position: np.ndarray = np.array(object_result.estimated_object.state.position)\n"
    "else:\n    raise TypeError(f'Unexpected object type: {type(object_result)}')",
    "transform_key = TransformKey(frame_id, FrameID.BASE_LINK)",
    "x, y, _ = transforms.transform(transform_key, position)",
)


def translate_function(fn, repo, trees):
    if fn.file not in trees:
        trees[fn.file] = parse(repo, fn.file)
    tree = trees[fn.file]
    if fn.file == STATUS_PY:
        check_enum(tree)
    f = find_function(tree, fn.cls, fn.func)
    if tuple(ast.unparse(d) for d in f.decorator_list) != tuple(fn.decorators):
        fail(f"decorators changed: {[ast.unparse(d) for d in f.decorator_list]}")
    for key, spec in fn.calls.items():       # the callee's parameter list is the one the call vocabulary was written for
        g = find_function(tree, *spec.sig)
        a = g.args
        if a.vararg or a.kwarg or a.kwonlyargs or a.posonlyargs or a.defaults or [x.arg for x in a.args] != ["self"] + [p for p, _ in spec.params]:
            fail(f"the parameters of {spec.sig[0]}.{spec.sig[1]} changed")
    for n in ast.walk(f):
        if isinstance(n, (ast.While, ast.Try, ast.With, ast.Lambda, ast.NamedExpr, ast.Global, ast.Nonlocal, ast.Delete, ast.Assert,
                          ast.Yield, ast.YieldFrom, ast.Await, ast.ClassDef, ast.Starred, ast.Break, ast.Continue, ast.ListComp,
                          ast.GeneratorExp, ast.DictComp, ast.SetComp)) or (isinstance(n, ast.FunctionDef) and n is not f):
            fail(f"unsupported construct {type(n).__name__}", n)
    a = f.args
    if a.kwonlyargs or a.posonlyargs or a.vararg or a.kwarg or a.defaults:
        fail("parameter list form")
    pynames = [x.arg for x in a.args if x.arg != "self" or "self" in fn.penv]
    body = list(f.body)
    if fn.pyparams is not None:
        # the first statements (how x, y are obtained from the object: its BASE_LINK position) are PINNED, not translated: the model
        # starts from that position (Obj.o_x / o_y); the translated part starts after them
        if pynames != list(fn.pyparams):
            fail(f"parameters changed: {pynames}")
        if body and isinstance(body[0], ast.Expr) and isinstance(body[0].value, ast.Constant) and isinstance(body[0].value.value, str):
            body = body[1:]
        got = [ast.unparse(st) for st in body[:len(fn.preamble)]]
        if got != list(fn.preamble):
            fail("the statements that compute the position (x, y) of the object changed")
        body = body[len(fn.preamble):]
        pynames = list(fn.penv)
    if (fn.cls is not None) != bool(a.args and a.args[0].arg == "self") or sorted(pynames) != sorted(fn.penv):
        fail(f"parameters changed: {[x.arg for x in a.args]}")
    fn.counter, fn.noeff = 0, False
    env = Env(fn)
    for p in pynames:
        env.vars[p] = fn.penv[p]
        env.params.add(p)
    pre = ""
    if fn.init:
        for at, t in fn.init.items():
            pre += f"let self_{at} := {t.format('self')} in\n"
            env.vars["self_" + at] = ("self_" + at, fn.own[at])
    term = pre + block(body, env)
    return "\n".join([f"Module Gen_{fn.name}.", f"(* {fn.file}: {(fn.cls + '.') if fn.cls else ''}{fn.func} *)",
                      f"Definition f {fn.params} : res {paren(fn.ret)} :=\n{term}.", f"End Gen_{fn.name}."])


HEADER = """(* GENERATED by translator/loops_status.py from the Python source of /repo on every run -- do not edit.
   Part 1 (fixed text): exceptions, the error monad, status arguments, int / int, the StatusRate tuple.
   Part 2: one module per function, `f` = its body.  Props/GenTieStatus.v proves each `f` equal to the hand model (Model/Analyzer.v)
   or, where the model has no definition, to a closed-form term of Proofs/GenTieStatusLemmas.v. *)
From Coq Require Import List Bool ZArith Arith QArith.
From PE Require Import Base.QUtil.
From PE Require Model.Analyzer.
Import ListNotations.
Open Scope Q_scope.

(* ---- results: a value, or the class of the exception *)
Inductive exn := ValueError | ZeroDivisionError | TypeError.
Inductive res (A : Type) : Type := Ok (a : A) | Err (e : exn).
Arguments Ok {A} a.
Arguments Err {A} e.
Definition bind {A B} (r : res A) (f : A -> res B) : res B := match r with Ok a => f a | Err e => Err e end.

(* ---- a `status` argument: a MatchingStatus member or its string value (MatchingStatus.__eq__ accepts both), or anything else *)
Inductive sval := SKnown (s : Analyzer.status) | SOther.
Definition sval_is (v : sval) (s : Analyzer.status) : bool :=        (* v == MatchingStatus.<s> *)
  match v with SKnown s' => Analyzer.status_eqb s' s | SOther => false end.

(* ---- floats: Some q = a finite value (an exact rational: rounding is not modelled), None = float("inf") *)
Definition Qnat (n : nat) : Q := inject_Z (Z.of_nat n).
(* int / int: ZeroDivisionError for a zero divisor whatever the numerator *)
Definition fdiv_nat (a b : nat) : res (option Q) :=
  if Nat.eqb b 0 then Err ZeroDivisionError else Ok (Some (Qnat a / Qnat b)).

(* ---- numpy bool arrays (tool/utils.py get_area_idx): a * b is elementwise `and`, a + b elementwise `or`; shapes (n,) and (m,) broadcast
   when n = m or one of them is 1, otherwise ValueError *)
Definition bzip (op : bool -> bool -> bool) (a b : list bool) : res (list bool) :=
  if Nat.eqb (length a) (length b) then Ok (map (fun p => op (fst p) (snd p)) (combine a b))
  else match a, b with
       | [u], _ => Ok (map (op u) b)
       | _, [v] => Ok (map (fun u => op u v) a)
       | _, _ => Err ValueError
       end.
Definition bmul := bzip andb.
Definition badd := bzip orb.
Fixpoint where_true (k : nat) (v : list bool) : list nat :=          (* np.where(v)[0], counted from k *)
  match v with [] => [] | b :: t => if b then k :: where_true (S k) t else where_true (S k) t end.
Definition item_of (l : list nat) : res nat :=                        (* .item(): ValueError unless the array has exactly one element *)
  match l with [k] => Ok k | _ => Err ValueError end.

(* ---- a StatusRate object: (status, status_frame_nums, total_frame_nums) *)
Definition status_rate := (sval * list nat * list nat)%type.
Definition sr_status (r : status_rate) : sval := fst (fst r).
Definition sr_status_frames (r : status_rate) : list nat := snd (fst r).
Definition sr_total_frames (r : status_rate) : list nat := snd r.
"""


def generate(repo):
    """-> (text, {function: why-not-translated})"""
    trees, out, bad, done = {}, [HEADER], {}, []
    for fn in specs():
        try:
            missing = [n for n in fn.needs if n not in done]
            if missing:
                fail("depends on " + ", ".join(missing) + " (not translated)")
            txt = translate_function(fn, repo, trees)
        except (TranslatorError, SyntaxError, OSError, RecursionError) as e:
            bad[fn.name] = f"{type(e).__name__}: {e}" if not isinstance(e, TranslatorError) else str(e)
            out.append(f"(* {fn.name}: not translated: {bad[fn.name].replace('*)', '* )').replace('(*', '( *')} *)\n")
            continue
        except Exception as e:  # noqa: BLE001  -- a defect of the translator itself must not look like a translation
            bad[fn.name] = f"internal error {type(e).__name__}: {e}"
            out.append(f"(* {fn.name}: not translated: {bad[fn.name].replace('*)', '* )').replace('(*', '( *')} *)\n")
            continue
        done.append(fn.name)
        out.append(txt + "\n")
    out.append("From Coq Require Import String.\nOpen Scope string_scope.")
    out.append("Definition translated : list string := [" + "; ".join(coq_str(n) for n in done) + "].")
    return "\n".join(out) + "\n", bad


def regenerate(repo, outdir):
    """Write <outdir>/loops_status.v (only when the content changes).  {"loops_status.v": None} when every function was translated,
    else {"loops_status.v": "partial: f1: not translated: why; ..."}."""
    os.makedirs(outdir, exist_ok=True)
    txt, bad = generate(repo)
    fname = MODNAME + ".v"
    path = os.path.join(outdir, fname)
    old = None
    if os.path.exists(path):
        with open(path) as fh:
            old = fh.read()
    if old != txt:
        with open(path, "w") as fh:
            fh.write(txt)
    if not bad:
        return {fname: None}
    return {fname: "partial: " + "; ".join(f"{k}: not translated: {v}" for k, v in bad.items())}


if __name__ == "__main__":
    repo_ = sys.argv[1] if len(sys.argv) > 1 else "/repo"
    outdir_ = sys.argv[2] if len(sys.argv) > 2 else os.path.join(HERE, "..", "coq", "theories", "Gen")
    try:
        st = regenerate(repo_, outdir_)
    except OSError as e_:
        print(f"{MODNAME}.v: could not be written: {e_}")
        sys.exit(1)
    for k_, v_ in st.items():
        print(f"{k_}: {'ok' if v_ is None else v_}")
    sys.exit(0)
