#!/usr/bin/env python3
"""Translator for the CLASSIFICATION layer of perception_eval: Python `ast` -> Gallina (Gen/loops_classif.v).

Layer of the redundant tie for C11: the scores of evaluation/metrics/classification (ClassificationAccuracy: counting of TP / FP, the
formulas with their zero guards returning float("inf"); ClassificationMetricsScore._summarize) and the identity-based matchers of
evaluation/result/object_result.py (_get_fp_object_results, _get_object_results_with_id, _get_object_results_for_tlr) are re-translated
from the source on every run and Props/GenTieClassif.v proves each generated definition EQUAL, for all inputs, to the hand model
(Model/Classif.v).

The continuation-passing expression / statement translator is the one of loops_passfail.py (typed vocabularies keyed by (type,
attribute), `for` = fold_left in the error monad, Optional narrowing, `if` joins, calls with defaults, fail closed per function).  It is
used through a PRIVATE instance of that module (loaded a second time under another name, so that the instance the other layers use is
untouched) in which the forms these functions need are added:

  ints            a Python int that can only be non-negative (len(), a counter `n = 0; n += 1`, a sum of such) is a nat; any other
                  integer arithmetic (a + b - c) is done in Z on `Z.of_nat` of the leaves; `!= 0` is Nat.eqb / Z.eqb accordingly
  floats          `fl` = F q | PInf | NInf | FNaN (fixed text of the generated file): float("inf") is PInf; + - * are total with the
                  IEEE rules for inf / nan (finite values are exact rationals: idealised binary64), `/` is fdiv, which raises
                  ZeroDivisionError on a zero divisor WHATEVER the numerator (Python's float division); `x ** 2` on a finite float;
                  == / != are IEEE (nan equals nothing).  No dominating test is needed: the guard is in the term and the equation
                  proves that the error is never reached
  x += v          nat counter / in-place extension of a list created in the function
  raise E(...)    the error class (the message cannot influence a value; it must not contain a call)
  xs.copy()       the list value; xs.remove(x) on a copy created in the function: Classif.remove_id on the identity (ValueError when
                  absent); `x in xs` on objects without __eq__: Classif.mem_id on the identity; a loop that iterates one list and
                  removes from ANOTHER (its copy) is a fold over the iterated list whose state contains the shrinking copy
  nested def      a local function (match_condition) is inlined at its call, with the caller's locals as its free variables (Python
                  closures read the variable at call time) -- `if c: return a else: return b` bodies
  any([c for x in xs])   existsb, for a pure element
  xs[0]           nth_error with IndexError
  dynamic values  `object_results` of ClassificationAccuracy is a list whose elements are results OR lists of results (`dyn`):
                  isinstance(x, list), `.is_label_correct` of a list = AttributeError, `acc += x` with a non-list = TypeError
  self.x          in a constructor the attributes it assigns are locals `self_x`; a method call that reads attributes gets them as
                  explicit keyword arguments; the constructor "returns" the tuple of its attributes.
Only `ast` is used; the library is never imported.
"""
import ast
import importlib.util
import os
import sys
from fractions import Fraction

HERE = os.path.dirname(os.path.abspath(__file__))
sys.path.insert(0, HERE)
from py_to_coq import TranslatorError, coq_str  # noqa: E402
from decisions import fail, paren, qlit, parse, find_function  # noqa: E402

MODNAME = "loops_classif"          # harness/lib/core.py regenerate_gen: translator/<modname>.py writes Gen/<modname>.v


def _private(name):
    spec = importlib.util.spec_from_file_location("_loops_classif_private_" + name, os.path.join(HERE, name + ".py"))
    m = importlib.util.module_from_spec(spec)
    spec.loader.exec_module(m)
    return m


P = _private("loops_passfail")
BOOL, NAT, Q, UNIT, NONE, LBL, NUM, ANYLIST = P.BOOL, P.NAT, P.Q, P.UNIT, P.NONE, P.LBL, P.NUM, P.ANYLIST
coqt, opt, lst, tup, is_opt, is_list, E, CallSpec, Fn, Env, lname, show = P.coqt, P.opt, P.lst, P.tup, P.is_opt, P.is_list, P.E, \
    P.CallSpec, P.Fn, P.Env, P.lname, P.show
ZT = "Z"
FL, DYN, IOBJ, RESULT, ACC, CAM, SELF = coqt("fl"), coqt("dyn"), coqt("Classif.iobj"), coqt("Classif.result"), coqt("Classif.accuracy"), \
    coqt("nat"), coqt("unit")
EXN = ("RuntimeError", "ValueError", "ZeroDivisionError", "TypeError", "AttributeError", "IndexError", "KeyError")

_orig = {n: getattr(P, n) for n in ("tr", "compare", "cond", "tr_block", "coerce", "join_ty", "escapes")}


# =============================================================================================
# numbers
# =============================================================================================
def is_inf(node):
    return isinstance(node, ast.Call) and isinstance(node.func, ast.Name) and node.func.id == "float" and len(node.args) == 1 \
        and not node.keywords and isinstance(node.args[0], ast.Constant) and node.args[0].value in ("inf", "Infinity", "+inf")


def is_intlike(e):
    return e.ty in (NAT, ZT) or (e.ty == NUM and e.isint)


def to_z(e, node):
    if e.ty == ZT:
        return e.term
    if e.ty == NAT:
        return f"Z.of_nat {paren(e.term)}"
    if e.ty == NUM and e.isint:
        return f"{int(e.num)}%Z" if e.num >= 0 else f"({int(e.num)})%Z"
    fail(f"a {show(e.ty)} where an int is needed", node)


def to_q(e, node):
    if e.ty == Q:
        return e.term
    if e.ty == NUM:
        return qlit(e.num)
    if e.ty in (NAT, ZT):
        return f"inject_Z {paren(to_z(e, node))}"
    fail(f"a {show(e.ty)} where a finite number is needed", node)


def to_fl(e, node):
    if e.ty == FL:
        return e.term
    return f"F {paren(to_q(e, node))}"


def arith(op, a, b, node, env, k):
    kinds = (NAT, ZT, NUM, Q, FL)
    if a.ty not in kinds or b.ty not in kinds:
        fail(f"arithmetic on a {show(a.ty)} and a {show(b.ty)}", node)
    if isinstance(op, ast.Pow):
        if not (b.ty == NUM and b.isint and b.num == 2):
            fail("power with an exponent that is not the literal 2", node)
        if a.ty == NUM:
            return k(E(None, NUM, num=a.num * a.num, isint=a.isint))
        if a.ty == Q:
            return k(E(f"({paren(a.term)} ^ 2)", Q))
        fail(f"power of a {show(a.ty)}", node)
    if isinstance(op, ast.Div):
        if a.ty == NUM and b.ty == NUM:
            fail("division of two literals", node)
        return P.emit_bind(env.fn, f"fdiv {paren(to_fl(a, node))} {paren(to_fl(b, node))}", lambda v: k(E(v, FL)))
    sym = {ast.Add: "+", ast.Sub: "-", ast.Mult: "*"}.get(type(op))
    if sym is None:
        fail(f"operator {type(op).__name__}", node)
    if a.ty == NUM and b.ty == NUM:
        v = {"+": a.num + b.num, "-": a.num - b.num, "*": a.num * b.num}[sym]
        return k(E(None, NUM, num=v, isint=a.isint and b.isint))
    if FL in (a.ty, b.ty):
        f = {"+": "fadd", "-": "fsub", "*": "fmul"}[sym]
        return k(E(f"{f} {paren(to_fl(a, node))} {paren(to_fl(b, node))}", FL))
    def natlike(e):
        return e.ty == NAT or (e.ty == NUM and e.isint and e.num >= 0)
    if sym == "+" and natlike(a) and natlike(b):          # a sum of non-negative ints is a non-negative int
        return k(E(f"({paren(_orig['coerce'](a, NAT, node))} + {paren(_orig['coerce'](b, NAT, node))})%nat", NAT))
    if is_intlike(a) and is_intlike(b):
        return k(E(f"({paren(to_z(a, node))} {sym} {paren(to_z(b, node))})%Z", ZT))
    return k(E(f"({paren(to_q(a, node))} {sym} {paren(to_q(b, node))})", Q))


# =============================================================================================
# expressions
# =============================================================================================
def pure(node, env, what):
    """the translated expression when nothing in it can raise (else: not translated)"""
    fn = env.fn
    box, e0 = [], fn.effects
    tr(node, env, lambda e: (box.append(e), "?")[1])
    if fn.effects != e0 or len(box) != 1:
        fail(f"{what} that can raise or branches", node)
    return box[0]


def tr(node, env, k):
    fn = env.fn
    key = ast.unparse(node)
    if key in env.narrow or key in fn.consts or (isinstance(node, ast.Attribute) and key in env.vars):
        return _orig["tr"](node, env, k)
    if is_inf(node):
        return k(E("PInf", FL))
    if isinstance(node, ast.BinOp):
        return tr(node.left, env, lambda a: tr(node.right, env, lambda b: arith(node.op, a, b, node, env, k)))
    if isinstance(node, ast.Attribute):
        def with_base(b):
            if is_opt(b.ty) or b.ty == NONE:
                fail(f"`{ast.unparse(node.value)}` may be None where `.{node.attr}` is read", node)
            if b.ty == DYN:         # an element that may be a list: reading an attribute of a list is an AttributeError
                a = fn.attrs.get((RESULT, node.attr))
                if a is None:
                    fail(f"attribute not in the vocabulary: `.{node.attr}` of a result", node)
                return P.emit_bind(fn, f"dyn_result {paren(b.term)}", lambda v: k(E(a[0].format(paren(v)), a[1])), hint="r")
            a = fn.attrs.get((b.ty, node.attr))
            if a is None:
                fail(f"attribute not in the vocabulary: `.{node.attr}` of a {show(b.ty)}", node)
            return k(E(a[0].format(paren(b.term)), a[1]))
        return tr(node.value, env, with_base)
    if isinstance(node, ast.Subscript):
        ix = node.slice
        if not (isinstance(ix, ast.Constant) and isinstance(ix.value, int) and not isinstance(ix.value, bool) and ix.value >= 0):
            fail("subscript that is not a natural literal", node)

        def with_list(l):
            if not is_list(l.ty) or l.ty == ANYLIST:
                fail("subscript of something that is not a list", node)
            return P.emit_bind(fn, f"match nth_error {paren(l.term)} {ix.value} with Some x_ => Ok x_ | None => Err IndexError end",
                               lambda v: k(E(v, l.ty[1])))
        return tr(node.value, env, with_list)
    if isinstance(node, ast.Call):
        f = node.func
        if isinstance(f, ast.Name) and f.id not in env.vars:
            if f.id == "isinstance" and len(node.args) == 2 and not node.keywords:
                if not (isinstance(node.args[1], ast.Name) and node.args[1].id == "list"):
                    fail("isinstance with a class other than list", node)

                def with_x(x):
                    if x.ty == DYN:
                        return k(E(f"dyn_is_list {paren(x.term)}", BOOL))
                    if is_list(x.ty):
                        return k(E("true", BOOL))
                    if x.ty in (RESULT, IOBJ, ACC):
                        return k(E("false", BOOL))
                    fail(f"isinstance(_, list) of a {show(x.ty)}", node)
                return tr(node.args[0], env, with_x)
            if f.id == "any" and len(node.args) == 1 and not node.keywords and isinstance(node.args[0], (ast.ListComp, ast.GeneratorExp)):
                lc = node.args[0]
                if len(lc.generators) != 1 or lc.generators[0].ifs or lc.generators[0].is_async \
                        or not isinstance(lc.generators[0].target, ast.Name):
                    fail("comprehension form", node)
                g = lc.generators[0]
                if g.target.id in env.vars:
                    fail(f"comprehension variable `{g.target.id}` shadows an existing name", node)

                def with_iter(l):
                    if not is_list(l.ty) or l.ty == ANYLIST:
                        fail("comprehension over something that is not a list", node)
                    e1 = env.copy()
                    e1.vars[g.target.id] = (lname(g.target.id), l.ty[1])
                    P.drop_narrow(e1, g.target.id)
                    c = pure(lc.elt, e1, "an element of any(...)")
                    if c.ty != BOOL:
                        fail("any(...) over elements that are not booleans", node)
                    return k(E(f"existsb (fun {lname(g.target.id)} => {c.term}) {paren(l.term)}", BOOL))
                return tr(g.iter, env, with_iter)
            if f.id in getattr(fn, "nested", {}):
                T, F_ = E("true", BOOL), E("false", BOOL)
                return P.join_value(lambda leaf: inline_cond(node, env, lambda e: leaf(T), lambda e: leaf(F_)), env, k, node, BOOL)
        if isinstance(f, ast.Attribute) and f.attr == "copy" and not node.args and not node.keywords:
            def with_l(l):
                if not is_list(l.ty) or l.ty == ANYLIST:
                    fail(".copy() of something that is not a list", node)
                return k(E(l.term, l.ty))
            return tr(f.value, env, with_l)
    return _orig["tr"](node, env, k)


def compare(op, a, b, env, kt, kf, node):
    ite = P.ite
    neg = isinstance(op, ast.NotEq)

    def out(t):
        return ite(t, kf(env), kt(env)) if neg else ite(t, kt(env), kf(env))

    if isinstance(op, (ast.Eq, ast.NotEq)):
        if a.const is not None and b.const is None:
            a, b = b, a
        if b.const == "FrameID.CAM_TRAFFIC_LIGHT":
            # the model's fact for `frame_id == FrameID.CAM_TRAFFIC_LIGHT` is o_tlcam of the same object
            if a.ty == CAM and a.term.startswith("Classif.o_cam "):
                return out("Classif.o_tlcam " + a.term[len("Classif.o_cam "):])
            fail("comparison of something that is not a frame_id with FrameID.CAM_TRAFFIC_LIGHT", node)
        if b.const is not None and b.ty == CAM:
            fail(f"the model has no fact for a comparison with {b.const}", node)
        if a.ty == b.ty and a.ty in (LBL, CAM):
            return out(f"Nat.eqb {paren(a.term)} {paren(b.term)}")
        if {a.ty, b.ty} <= {opt(NAT), NAT} and opt(NAT) in (a.ty, b.ty):
            x = a.term if a.ty == opt(NAT) else f"Some {paren(a.term)}"
            y = b.term if b.ty == opt(NAT) else f"Some {paren(b.term)}"
            return out(f"opt_nat_eqb {paren(x)} {paren(y)}")
        if FL in (a.ty, b.ty):
            return out(f"fl_eqb {paren(to_fl(a, node))} {paren(to_fl(b, node))}")
    if ZT in (a.ty, b.ty) and is_intlike(a) and is_intlike(b):
        f = {ast.Lt: "Z.ltb {x} {y}", ast.LtE: "Z.leb {x} {y}", ast.Gt: "Z.ltb {y} {x}", ast.GtE: "Z.leb {y} {x}", ast.Eq: "Z.eqb {x} {y}",
             ast.NotEq: "Z.eqb {x} {y}"}.get(type(op))
        if f is None:
            fail(f"comparison operator {type(op).__name__}", node)
        return out(f.format(x=paren(to_z(a, node)), y=paren(to_z(b, node))))
    if FL in (a.ty, b.ty):
        fail("ordering comparison of floats that may be inf / nan", node)
    return _orig["compare"](op, a, b, env, kt, kf, node)


def coerce(e, ty, node=None):
    if e.ty == NUM and ty == FL:
        return f"F {qlit(e.num)}"
    if e.ty == NUM and ty == ZT and e.isint:
        return to_z(e, node)
    return _orig["coerce"](e, ty, node)


def join_ty(a, b, node=None):
    if {a, b} == {NUM, FL}:
        return FL
    return _orig["join_ty"](a, b, node)


# ---- a local function, inlined -----------------------------------------------------------------------------------------------
def inline_cond(call, env, kt, kf):
    fn = env.fn
    d = fn.nested[call.func.id]
    a = d.args
    if a.vararg or a.kwarg or a.kwonlyargs or a.posonlyargs or a.defaults or call.keywords or len(call.args) != len(a.args) \
            or any(isinstance(x, ast.Starred) for x in call.args):
        fail(f"call form of the local function `{d.name}`", call)
    if fn.inline_depth >= 2:
        fail(f"recursion through the local function `{d.name}`", call)
    pnames = [x.arg for x in a.args]

    def go(i, acc):
        if i == len(pnames):
            e2 = env.copy()
            e2.loop = None
            for pn, e in zip(pnames, acc):
                if e.ty in (NUM, NONE, ANYLIST):
                    fail(f"a literal passed to the local function `{d.name}`", call)
                e2.vars[pn] = (e.term, e.ty)
                e2.params.add(pn)
                e2.made.discard(pn)
                P.drop_narrow(e2, pn)
            body = list(d.body)
            if body and isinstance(body[0], ast.Expr) and isinstance(body[0].value, ast.Constant) and isinstance(body[0].value.value, str):
                body = body[1:]
            fn.inline_depth += 1
            try:
                return block_cond(body, e2, lambda _e: kt(env), lambda _e: kf(env), d)
            finally:
                fn.inline_depth -= 1
        return tr(call.args[i], env, lambda e: go(i + 1, acc + [e]))
    return go(0, [])


def block_cond(ss, env, kt, kf, d):
    """the body of a local boolean function: `return e` and `if c: ... else: ...` only"""
    if not ss:
        fail(f"the local function `{d.name}` can end without a return (None)", d)
    s = ss[0]
    if isinstance(s, ast.Return) and s.value is not None:
        return cond(s.value, env, kt, kf, True)
    if isinstance(s, ast.If):
        return cond(s.test, env, lambda e: block_cond(s.body + ss[1:], e, kt, kf, d), lambda e: block_cond(s.orelse + ss[1:], e, kt, kf, d))
    fail(f"statement of the local function `{d.name}` not translated: {type(s).__name__}", s)


def cond(test, env, kt, kf, strict=False):
    if isinstance(test, ast.Call) and isinstance(test.func, ast.Name) and test.func.id in getattr(env.fn, "nested", {}) \
            and test.func.id not in env.vars:
        return inline_cond(test, env, kt, kf)
    return _orig["cond"](test, env, kt, kf, strict)


# =============================================================================================
# statements
# =============================================================================================
def escapes(stmts):
    return _orig["escapes"](stmts) or any(isinstance(n, ast.Raise) for s in stmts for n in ast.walk(s))


def tr_block(ss, env, k):
    fn = env.fn
    if not ss:
        return _orig["tr_block"](ss, env, k)
    s, rest = ss[0], ss[1:]

    def cont(e):
        return tr_block(rest, e, k)

    if isinstance(s, ast.Raise):
        x = s.exc
        if s.cause is not None or not (isinstance(x, ast.Call) and isinstance(x.func, ast.Name) and x.func.id in EXN):
            fail("raise of something that is not one of the modelled exception classes", s)
        if any(isinstance(n, ast.Call) for a in list(x.args) + [kw.value for kw in x.keywords] for n in ast.walk(a)):
            fail("a call inside the message of a raise", s)
        return f"Err {x.func.id}"
    if isinstance(s, ast.AugAssign):
        if not isinstance(s.op, ast.Add) or not isinstance(s.target, ast.Name):
            fail("augmented assignment form", s)
        nme = s.target.id
        if nme not in env.vars or nme in env.params:
            fail(f"`{nme} += ...` on something that is not a local", s)
        x, ty = lname(nme), env.vars[nme][1]

        def bound(v):
            if ty == NAT and (v.ty == NAT or (v.ty == NUM and v.isint and v.num >= 0)):
                return f"let {x} := ({x} + {paren(_orig['coerce'](v, NAT, s))})%nat in\n{cont(P.bind_local(env, nme, NAT, s))}"
            if is_list(ty) and ty != ANYLIST:
                if nme not in env.made:
                    fail(f"`{nme} += ...` on a list that was not created in this function (in-place extension)", s)
                if v.ty == ty:
                    return f"let {x} := ({x} ++ {paren(v.term)})%list in\n{cont(env.copy())}"
                if v.ty == DYN and ty == lst(DYN):        # list += <a value that must be a list of results>
                    return P.emit_bind(fn, f"dyn_list {paren(v.term)}",
                                       lambda w: f"let {x} := ({x} ++ map inl {w})%list in\n{cont(env.copy())}", hint="l")
            fail(f"`+=` of a {show(v.ty)} to a {show(ty)}", s)
        return tr(s.value, env, bound)
    if isinstance(s, ast.Expr) and isinstance(s.value, ast.Call) and isinstance(s.value.func, ast.Attribute) \
            and isinstance(s.value.func.value, ast.Name) and s.value.func.attr == "remove":
        c = s.value
        nme = c.func.value.id
        if len(c.args) != 1 or c.keywords:
            fail("remove form", s)
        if nme not in env.vars or nme in env.params or nme not in env.made or env.vars[nme][1] != lst(IOBJ):
            fail(f"remove from `{nme}`, which is not a list of objects created in this function", s)
        x, t = lname(nme), fn.fresh("t")

        def removed(v):
            if v.ty != IOBJ:
                fail(f"removal of a {show(v.ty)}", s)
            return (f"match Classif.remove_id (fst {paren(v.term)}) {x} with\n| Some {t} =>\nlet {x} := {t} in\n{cont(env.copy())}\n"
                    f"| None => Err ValueError\nend")
        return tr(c.args[0], env, removed)
    if isinstance(s, (ast.Assign, ast.AnnAssign)) and getattr(s, "value", None) is not None:
        targets = s.targets if isinstance(s, ast.Assign) else [s.target]
        v = s.value
        if len(targets) == 1 and isinstance(targets[0], ast.Name):
            nme = targets[0].id
            if isinstance(v, ast.Call) and isinstance(v.func, ast.Attribute) and v.func.attr == "copy" and not v.args and not v.keywords:
                def copied(l):
                    e1 = P.bind_local(env, nme, l.ty, s, made=True)        # a fresh list: it may be mutated
                    return f"let {lname(nme)} := {l.term} in\n{cont(e1)}"
                return tr(v, env, copied)
            if isinstance(v, ast.Name) and v.id in env.params and is_list(env.vars[v.id][1]):
                # an alias of a parameter list (never mutated: parameters may not be changed): the value itself, not `made`
                t, ty = env.vars[v.id]
                e1 = P.bind_local(env, nme, ty, s, made=False)
                return f"let {lname(nme)} := {t} in\n{cont(e1)}"
    return _orig["tr_block"](ss, env, k)


for _n, _f in (("tr", tr), ("compare", compare), ("cond", cond), ("tr_block", tr_block), ("coerce", coerce), ("join_ty", join_ty),
               ("escapes", escapes)):
    setattr(P, _n, _f)
P.ANNOTATIONS = {}          # element types of the empty lists come from the per-function table only


# =============================================================================================
# one function
# =============================================================================================
class _SelfAttrs(ast.NodeTransformer):
    """self.x -> the local self_x, for the attributes the constructor owns"""

    def __init__(self, attrs):
        self.attrs = attrs

    def visit_Attribute(self, node):
        if isinstance(node.value, ast.Name) and node.value.id == "self" and node.attr in self.attrs:
            return ast.copy_location(ast.Name(id="self_" + node.attr, ctx=node.ctx), node)
        return self.generic_visit(node)


def prepare_init(fn, body):
    body = [_SelfAttrs(fn.own_attrs).visit(s) for s in body]
    for s in body:
        for n in ast.walk(s):
            if isinstance(n, ast.Attribute) and isinstance(n.ctx, (ast.Store, ast.Del)):
                fail(f"`{ast.unparse(n)}` is written", n)
            if isinstance(n, ast.Return):
                fail("return in a constructor", n)
            if isinstance(n, ast.Call) and ast.unparse(n.func) in fn.implicit:
                for a in fn.implicit[ast.unparse(n.func)]:
                    if any(kw.arg == a for kw in n.keywords):
                        fail(f"`{a}` passed to {ast.unparse(n.func)}", n)
                    n.keywords.append(ast.keyword(arg=a, value=ast.Name(id="self_" + a, ctx=ast.Load())))
    ret = ast.Return(value=ast.Tuple(elts=[ast.Name(id="self_" + a, ctx=ast.Load()) for a in fn.result_attrs], ctx=ast.Load()))
    body.append(ret)
    for s in body:
        ast.fix_missing_locations(s)
    return body


def translate_function(fn, repo, trees):
    def tree_of(rel):
        if rel not in trees:
            trees[rel] = parse(repo, rel)
        return trees[rel]

    f = find_function(tree_of(fn.file), fn.cls, fn.func)
    fn.tree_body = []
    for rel, cls, func, expected in fn.sigs:
        P.check_signature(tree_of(rel), cls, func, expected)
    fn.counter, fn.effects, fn.found, fn.inline_depth = 0, 0, [], 0
    body = list(f.body)
    if body and isinstance(body[0], ast.Expr) and isinstance(body[0].value, ast.Constant) and isinstance(body[0].value.value, str):
        body = body[1:]
    # local functions: only at the top level of the body, before any other statement that is not a definition
    fn.nested = {}
    while body and isinstance(body[0], ast.FunctionDef):
        d = body.pop(0)
        if d.name in fn.nested or d.decorator_list:
            fail(f"local function `{d.name}`", d)
        for n in ast.walk(d):
            if isinstance(n, (ast.Assign, ast.AugAssign, ast.AnnAssign, ast.For, ast.While, ast.Nonlocal, ast.Global, ast.Lambda, ast.NamedExpr)):
                fail(f"local function `{d.name}`: unsupported construct {type(n).__name__}", n)
            if n is not d and isinstance(n, ast.FunctionDef):
                fail("nested local functions", n)
        fn.nested[d.name] = d
    for st in body:
        for n in ast.walk(st):
            if isinstance(n, (ast.While, ast.Try, ast.With, ast.Lambda, ast.NamedExpr, ast.Global, ast.Nonlocal, ast.Delete, ast.Assert,
                              ast.Yield, ast.YieldFrom, ast.Await, ast.FunctionDef, ast.ClassDef, ast.Starred, ast.Break)):
                fail(f"unsupported construct {type(n).__name__}", n)
            if isinstance(n, ast.Name) and isinstance(n.ctx, ast.Store) and n.id in fn.nested:
                fail(f"the local function `{n.id}` is re-bound", n)
    a = f.args
    if a.kwonlyargs or a.posonlyargs or a.vararg or a.kwarg:
        fail("parameter list form")
    pynames = [x.arg for x in a.args if x.arg != "self" or "self" in fn.penv]
    if sorted(pynames) != sorted(fn.penv):
        fail(f"parameters changed: {pynames} (expected {sorted(fn.penv)})")
    if getattr(fn, "own_attrs", None):
        body = prepare_init(fn, body)
    env = Env(fn)
    for p in pynames:
        env.vars[p] = fn.penv[p]
        env.params.add(p)
    term = tr_block(body, env, None)
    if fn.found != fn.loops:
        def shw(ls):
            return "; ".join(f"{kd} over ({', '.join(show(t) for t in ts)})" for kd, ts in ls) or "none"
        fail(f"the loops of the function ({shw(fn.found)}) are not the ones its equation is proved for ({shw(fn.loops)})")
    out = [f"Module Gen_{fn.name}.", f"(* {fn.file}: {(fn.cls + '.') if fn.cls else ''}{fn.func} *)",
           f"Definition f {fn.params} : res {paren(P.cty(fn.ret))} :=\n{term}.", f"End Gen_{fn.name}."]
    return "\n".join(out)


# =============================================================================================
# the functions and their vocabularies
# =============================================================================================
ACCURACY_PY = "evaluation/metrics/classification/accuracy.py"
SCORE_PY = "evaluation/metrics/classification/classification_metrics_score.py"
RESULT_PY = "evaluation/result/object_result.py"

# facts of the model (Model/Classif.v): an object is (identity, facts); a result is (estimate, ground truth or None)
ATTRS = {
    (RESULT, "is_label_correct"): ("Classif.is_label_correct {}", BOOL),
    (RESULT, "estimated_object"): ("fst {}", IOBJ),
    (RESULT, "ground_truth_object"): ("snd {}", opt(IOBJ)),
    (IOBJ, "uuid"): ("Classif.o_uuid (snd {})", opt(NAT)),
    (IOBJ, "frame_id"): ("Classif.o_cam (snd {})", CAM),
    (IOBJ, "semantic_label"): ("Classif.o_label (snd {})", LBL),          # Label.__eq__ compares `.label`
    (ACC, "objects_results_num"): ("Classif.a_num_res {}", NAT),
    (ACC, "num_ground_truth"): ("Classif.a_num_gt {}", NAT),
    (ACC, "num_tp"): ("Classif.a_tp {}", NAT),
    (ACC, "num_fp"): ("Classif.a_fp {}", NAT),
}
SELF_COUNTS = {(SELF, "objects_results_num"): ("objects_results_num", NAT), (SELF, "num_ground_truth"): ("num_ground_truth", NAT)}
CONSTS = {"FrameID.CAM_TRAFFIC_LIGHT": E("tt", CAM, const="FrameID.CAM_TRAFFIC_LIGHT")}
for _m in ("CAM_FRONT", "CAM_BACK", "BASE_LINK", "MAP", "CAM_FRONT_LEFT", "CAM_FRONT_RIGHT", "CAM_BACK_LEFT", "CAM_BACK_RIGHT", "LIDAR"):
    CONSTS["FrameID." + _m] = E("tt", CAM, const="FrameID." + _m)
# `x in xs` / xs.remove(x) on DynamicObject2D (no __eq__): identity
MEMBERS = {(IOBJ, IOBJ): "Classif.mem_id (fst {x}) {l}"}
NEW_RESULT = CallSpec("({estimated_object}, {ground_truth_object})",
                      [("estimated_object", IOBJ, None), ("ground_truth_object", opt(IOBJ), None), ("matching_label_policy", UNIT, "tt"),
                       ("transforms", P.FLAG, "false")], RESULT)
NEW_RESULT_SIG = (RESULT_PY, "DynamicObjectWithPerceptionResult", "__init__",
                  [("estimated_object", None), ("ground_truth_object", None), ("matching_label_policy", "MatchingLabelPolicy.DEFAULT"),
                   ("transforms", "None")])
LO, LR = lst(IOBJ), lst(RESULT)
GET_FP = CallSpec("Gen__get_fp_object_results.f {estimated_objects}", [("estimated_objects", LO, None)], LR, eff=True)
GET_FP_SIG = (RESULT_PY, None, "_get_fp_object_results", [("estimated_objects", None)])
COUNTS3 = "(objects_results_num num_ground_truth num_tp : nat)"


def specs():
    S = []
    # ---- 1. ClassificationAccuracy -------------------------------------------------------------------------------------------------
    S.append(Fn("calculate_tp_fp", ACCURACY_PY, "calculate_tp_fp", "(object_results : list dyn)",
                {"self": ("tt", SELF), "object_results": ("object_results", lst(DYN))}, tup(NAT, NAT), cls="ClassificationAccuracy",
                attrs=ATTRS, loops=[("list", (NAT, NAT))]))
    S.append(Fn("calculate_accuracy", ACCURACY_PY, "calculate_accuracy", COUNTS3, {"self": ("tt", SELF), "num_tp": ("num_tp", NAT)}, FL,
                cls="ClassificationAccuracy", attrs=SELF_COUNTS))
    S.append(Fn("calculate_precision_recall", ACCURACY_PY, "calculate_precision_recall", COUNTS3,
                {"self": ("tt", SELF), "num_tp": ("num_tp", NAT)}, tup(FL, FL), cls="ClassificationAccuracy", attrs=SELF_COUNTS))
    S.append(Fn("calculate_f1score", ACCURACY_PY, "calculate_f1score", "(precision recall : fl) (beta : Q)",
                {"self": ("tt", SELF), "precision": ("precision", FL), "recall": ("recall", FL), "beta": ("beta", Q)}, FL,
                cls="ClassificationAccuracy"))
    c3 = [("num_tp", NAT, None), ("objects_results_num", NAT, None), ("num_ground_truth", NAT, None)]
    fn = Fn("ClassificationAccuracy___init__", ACCURACY_PY, "__init__", "(object_results : list dyn) (num_ground_truth : nat)",
            {"self": ("tt", SELF), "object_results": ("object_results", lst(DYN)), "num_ground_truth": ("num_ground_truth", NAT),
             "target_labels": ("tt", UNIT)},
            tup(NAT, NAT, NAT, NAT, FL, FL, FL, FL), cls="ClassificationAccuracy", attrs=ATTRS,
            funcs={"self.calculate_tp_fp": CallSpec("Gen_calculate_tp_fp.f {object_results}", [("object_results", lst(DYN), None)],
                                                    tup(NAT, NAT), eff=True),
                   "self.calculate_accuracy": CallSpec("Gen_calculate_accuracy.f {objects_results_num} {num_ground_truth} {num_tp}", c3, FL, eff=True),
                   "self.calculate_precision_recall": CallSpec("Gen_calculate_precision_recall.f {objects_results_num} {num_ground_truth} {num_tp}",
                                                               c3, tup(FL, FL), eff=True),
                   "self.calculate_f1score": CallSpec("Gen_calculate_f1score.f {precision} {recall} {beta}",
                                                      [("precision", FL, None), ("recall", FL, None), ("beta", Q, "1")], FL, eff=True)},
            sigs=[(ACCURACY_PY, "ClassificationAccuracy", "calculate_tp_fp", [("object_results", None)]),
                  (ACCURACY_PY, "ClassificationAccuracy", "calculate_accuracy", [("num_tp", None)]),
                  (ACCURACY_PY, "ClassificationAccuracy", "calculate_precision_recall", [("num_tp", None)]),
                  (ACCURACY_PY, "ClassificationAccuracy", "calculate_f1score", [("precision", None), ("recall", None), ("beta", "1.0")])],
            local_types={"all_object_results": lst(DYN)}, loops=[("list", (lst(DYN),))],
            needs=("calculate_tp_fp", "calculate_accuracy", "calculate_precision_recall", "calculate_f1score"))
    fn.own_attrs = ("num_ground_truth", "target_labels", "objects_results_num", "num_tp", "num_fp", "accuracy", "precision", "recall", "f1score")
    fn.result_attrs = ("objects_results_num", "num_ground_truth", "num_tp", "num_fp", "accuracy", "precision", "recall", "f1score")
    fn.implicit = {"self.calculate_accuracy": ["objects_results_num", "num_ground_truth"],
                   "self.calculate_precision_recall": ["objects_results_num", "num_ground_truth"]}
    S.append(fn)
    # ---- 2. ClassificationMetricsScore._summarize ------------------------------------------------------------------------------------
    S.append(Fn("_summarize", SCORE_PY, "_summarize", "(accuracies : list Classif.accuracy)", {"self": ("tt", SELF)}, tup(FL, FL, FL, FL),
                cls="ClassificationMetricsScore", attrs={**ATTRS, (SELF, "accuracies"): ("accuracies", lst(ACC))},
                loops=[("list", (NAT, NAT, NAT, NAT))]))
    # ---- 3. the identity-based matchers ------------------------------------------------------------------------------------------------
    S.append(Fn("_get_fp_object_results", RESULT_PY, "_get_fp_object_results", "(estimated_objects : list Classif.iobj)",
                {"estimated_objects": ("estimated_objects", LO)}, LR, attrs=ATTRS,
                funcs={"DynamicObjectWithPerceptionResult": NEW_RESULT}, sigs=[NEW_RESULT_SIG],
                local_types={"object_results": LR}, loops=[("list", (LR,))]))
    two = "(estimated_objects ground_truth_objects : list Classif.iobj)"
    two_penv = {"estimated_objects": ("estimated_objects", LO), "ground_truth_objects": ("ground_truth_objects", LO)}
    S3 = (LR, LO, LO)
    S.append(Fn("_get_object_results_with_id", RESULT_PY, "_get_object_results_with_id", two, dict(two_penv), LR, attrs=ATTRS, consts=CONSTS,
                members=MEMBERS, funcs={"DynamicObjectWithPerceptionResult": NEW_RESULT, "_get_fp_object_results": GET_FP},
                sigs=[NEW_RESULT_SIG, GET_FP_SIG], local_types={"object_results": LR},
                loops=[("list", S3), ("list", S3)], needs=("_get_fp_object_results",)))
    S.append(Fn("_get_object_results_for_tlr", RESULT_PY, "_get_object_results_for_tlr", two + " (uuid_matching_first : bool)",
                dict(two_penv, uuid_matching_first=("uuid_matching_first", BOOL)), LR, attrs=ATTRS, consts=CONSTS, members=MEMBERS,
                funcs={"DynamicObjectWithPerceptionResult": NEW_RESULT, "_get_fp_object_results": GET_FP},
                sigs=[NEW_RESULT_SIG, GET_FP_SIG], local_types={"object_results": LR},
                loops=[("list", S3), ("list", S3), ("list", S3), ("list", S3)]))
    return S


HEADER = """(* GENERATED by translator/loops_classif.py from the Python source of /repo on every run -- do not edit.
   Part 1 (fixed text): exceptions, the error monad, Python floats with inf / nan, values that are a result or a list of results.
   Part 2: one module per function, `f` = its body.  Props/GenTieClassif.v proves each `f` equal to the hand model (Model/Classif.v). *)
From Coq Require Import List Bool ZArith Arith QArith.
From PE Require Import Base.QUtil.
From PE Require Model.Classif.
Import ListNotations.
Open Scope Q_scope.

(* ---- results: a value, or the class of the exception *)
Inductive exn := RuntimeError | ValueError | ZeroDivisionError | TypeError | AttributeError | IndexError | KeyError.
Inductive res (A : Type) : Type := Ok (a : A) | Err (e : exn).
Arguments Ok {A} a.
Arguments Err {A} e.
Definition bind {A B} (r : res A) (f : A -> res B) : res B := match r with Ok a => f a | Err e => Err e end.
(* the results of the hand model, embedded: RuntimeError("uuid of estimation and ground truth must be set"), ValueError of list.remove *)
Definition of_res {A} (r : Classif.res A) : res A :=
  match r with
  | Classif.Ok a => Ok a
  | Classif.Error Classif.ErrUuidNone => Err RuntimeError
  | Classif.Error Classif.ErrRemove => Err ValueError
  end.

(* ---- Python floats: a finite value (an exact rational: rounding and overflow are not modelled), +inf, -inf, nan *)
Inductive fl := F (q : Q) | PInf | NInf | FNaN.
Definition of_score (s : Classif.score) : fl :=
  match s with Classif.Fin q => F q | Classif.Inf => PInf | Classif.NaN => FNaN end.
Definition fl_eqb (a b : fl) : bool :=                       (* ==: nan equals nothing *)
  match a, b with F x, F y => Qeqb x y | PInf, PInf => true | NInf, NInf => true | _, _ => false end.
Definition fneg (a : fl) : fl := match a with F x => F (- x) | PInf => NInf | NInf => PInf | FNaN => FNaN end.
Definition fadd (a b : fl) : fl :=
  match a, b with
  | FNaN, _ | _, FNaN => FNaN
  | F x, F y => F (x + y)
  | PInf, NInf | NInf, PInf => FNaN
  | PInf, _ | _, PInf => PInf
  | NInf, _ | _, NInf => NInf
  end.
Definition fsub (a b : fl) : fl := fadd a (fneg b).
Definition inf_times (pos : bool) (y : Q) : fl :=          (* (+-inf) * y, y finite *)
  if Qltb 0 y then (if pos then PInf else NInf) else if Qltb y 0 then (if pos then NInf else PInf) else FNaN.
Definition fmul (a b : fl) : fl :=
  match a, b with
  | FNaN, _ | _, FNaN => FNaN
  | F x, F y => F (x * y)
  | PInf, F y => inf_times true y | NInf, F y => inf_times false y
  | F x, PInf => inf_times true x | F x, NInf => inf_times false x
  | PInf, PInf | NInf, NInf => PInf
  | PInf, NInf | NInf, PInf => NInf
  end.
(* a / b: ZeroDivisionError for a zero divisor whatever the numerator (also inf / 0.0 and nan / 0.0) *)
Definition fdiv (a b : fl) : res fl :=
  match b with
  | F y => if Qeqb y 0 then Err ZeroDivisionError
           else Ok (match a with
                    | F x => F (x / y)
                    | PInf => if Qltb 0 y then PInf else NInf
                    | NInf => if Qltb 0 y then NInf else PInf
                    | FNaN => FNaN
                    end)
  | FNaN => Ok FNaN
  | PInf | NInf => Ok (match a with F _ => F 0 | _ => FNaN end)
  end.
Definition opt_nat_eqb (a b : option nat) : bool :=          (* == on values that may be None *)
  match a, b with Some x, Some y => Nat.eqb x y | None, None => true | _, _ => false end.

(* ---- an element of `object_results` of ClassificationAccuracy: a result, or a list of results *)
Definition dyn := (Classif.result + list Classif.result)%type.
Definition dyn_is_list (x : dyn) : bool := match x with inr _ => true | inl _ => false end.
Definition dyn_result (x : dyn) : res Classif.result :=      (* reading an attribute of a result: a list has none *)
  match x with inl r => Ok r | inr _ => Err AttributeError end.
Definition dyn_list (x : dyn) : res (list Classif.result) :=   (* list += x: x must be iterable *)
  match x with inr l => Ok l | inl _ => Err TypeError end.
"""


def generate(repo):
    """-> (text, {function: why-not-translated})"""
    trees, out, bad, done = {}, [HEADER], {}, []
    for fn in specs():
        try:
            missing = [n for n in fn.needs if n not in done]
            if missing:
                fail("depends on " + ", ".join(missing) + " (not translated)")
            txt = translate_function(fn, repo, trees)
        except (TranslatorError, SyntaxError, OSError, RecursionError) as e:
            bad[fn.name] = f"{type(e).__name__}: {e}" if not isinstance(e, TranslatorError) else str(e)
            out.append(f"(* {fn.name}: not translated: {bad[fn.name].replace('*)', '* )').replace('(*', '( *')} *)\n")
            continue
        except Exception as e:  # noqa: BLE001  -- a defect of the translator itself must not look like a translation
            bad[fn.name] = f"internal error {type(e).__name__}: {e}"
            out.append(f"(* {fn.name}: not translated: {bad[fn.name].replace('*)', '* )').replace('(*', '( *')} *)\n")
            continue
        done.append(fn.name)
        out.append(txt + "\n")
    out.append("From Coq Require Import String.\nOpen Scope string_scope.")
    out.append("Definition translated : list string := [" + "; ".join(coq_str(n) for n in done) + "].")
    return "\n".join(out) + "\n", bad


def regenerate(repo, outdir):
    """Write <outdir>/loops_classif.v (only when the content changes).  {"loops_classif.v": None} when every function was translated,
    else {"loops_classif.v": "partial: f1: not translated: why; ..."}."""
    os.makedirs(outdir, exist_ok=True)
    txt, bad = generate(repo)
    fname = MODNAME + ".v"
    path = os.path.join(outdir, fname)
    old = None
    if os.path.exists(path):
        with open(path) as fh:
            old = fh.read()
    if old != txt:
        with open(path, "w") as fh:
            fh.write(txt)
    if not bad:
        return {fname: None}
    return {fname: "partial: " + "; ".join(f"{k}: not translated: {v}" for k, v in bad.items())}


if __name__ == "__main__":
    repo_ = sys.argv[1] if len(sys.argv) > 1 else "/repo"
    outdir_ = sys.argv[2] if len(sys.argv) > 2 else os.path.join(HERE, "..", "coq", "theories", "Gen")
    try:
        st = regenerate(repo_, outdir_)
    except OSError as e_:
        print(f"{MODNAME}.v: could not be written: {e_}")
        sys.exit(1)
    for k_, v_ in st.items():
        print(f"{k_}: {'ok' if v_ is None else v_}")
    sys.exit(0)
