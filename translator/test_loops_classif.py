#!/usr/bin/env python3
"""Self-test of translator/loops_classif.py + coq/theories/Props/GenTieClassif.v (same scheme as test_loops_passfail.py).

  (1) unchanged /repo: translate, build Gen/loops_classif.v, Proofs/GenTieClassifLemmas.v and the whole Props/GenTieClassif.v (theorems
      closed, non-vacuity examples evaluate);
  (2) MUTANTS: one-token changes of the translated functions in a scratch copy (/tmp/gen_classif_scratch/<id>/): each must break an
      equation (named), or fail closed in the translator, or be semantically equivalent (the reason is in the table); a mutant that
      translates, is not equivalent and still proves is reported as MISSED (exit status 1);
  (3) REFACTORINGS: behaviour-preserving rewrites: survive / translator fails closed / translated but the proof rejects.

The generated file carries the fixed text the lemma file is stated over (exceptions, floats), so every scratch copy compiles its own
copy of Proofs/GenTieClassifLemmas.v against its own generated file.  Each theorem of GenTieClassif.v is compiled on its own (header +
that theorem), only the theorems that depend on a module whose generated text changed.
usage: python3 translator/test_loops_classif.py [--jobs N] [--only base|mutants|refactorings] [--keep] [ids...]
"""
import ast
import concurrent.futures as cf
import os
import re
import shutil
import subprocess
import sys
import time

HERE = os.path.dirname(os.path.abspath(__file__))
VERIF = os.path.dirname(HERE)
sys.path.insert(0, HERE)
import loops_classif as lc  # noqa: E402
from test_decisions import apply_edit, replace_function  # noqa: E402

REPO = "/repo"
PKGDIR = os.path.join(REPO, "perception_eval", "perception_eval")
SCRATCH = "/tmp/gen_classif_scratch"
THEORIES = os.path.join(VERIF, "coq", "theories")
COQ_TIMEOUT = 400
GEN = lc.MODNAME + ".v"

APY, SPY, RPY = lc.ACCURACY_PY, lc.SCORE_PY, lc.RESULT_PY
CA, MS = "ClassificationAccuracy", "ClassificationMetricsScore"
TF, AC, PR, F1, IN, SU = "calculate_tp_fp", "calculate_accuracy", "calculate_precision_recall", "calculate_f1score", "__init__", "_summarize"
FP, WI, TL = "_get_fp_object_results", "_get_object_results_with_id", "_get_object_results_for_tlr"

INIT_MODS = ["Gen_ClassificationAccuracy___init__", "Gen_calculate_tp_fp", "Gen_calculate_accuracy", "Gen_calculate_precision_recall",
             "Gen_calculate_f1score"]
THEOREM_MODULES = {
    "GenTie_calculate_tp_fp": ["Gen_calculate_tp_fp"],
    "GenTie_calculate_tp_fp_outside": ["Gen_calculate_tp_fp"],
    "GenTie_calculate_accuracy": ["Gen_calculate_accuracy"],
    "GenTie_calculate_precision_recall": ["Gen_calculate_precision_recall"],
    "GenTie_calculate_f1score": ["Gen_calculate_f1score"],
    "GenTie_calculate_f1score_outside": ["Gen_calculate_f1score"],
    "GenTie_ClassificationAccuracy___init__": INIT_MODS,
    "GenTie_ClassificationAccuracy___init___outside": ["Gen_ClassificationAccuracy___init__", "Gen_calculate_tp_fp"],
    "GenTie__summarize": ["Gen__summarize"],
    "GenTie__get_fp_object_results": ["Gen__get_fp_object_results"],
    "GenTie__get_object_results_with_id": ["Gen__get_object_results_with_id", "Gen__get_fp_object_results"],
    "GenTie__get_object_results_for_tlr": ["Gen__get_object_results_for_tlr"],
}

S2 = "            if (\n                est_object.uuid == gt_object.uuid"
# (id, file, class, function, old, new, expected, why)   expected: caught | closed (translator fails closed) | equivalent
MUTANTS = [
    # ---- calculate_tp_fp
    ("A01", APY, CA, TF, "if obj_result.is_label_correct:", "if not obj_result.is_label_correct:", "caught", ""),
    ("A02", APY, CA, TF, "num_tp += 1", "num_tp += 2", "caught", ""),
    ("A03", APY, CA, TF, "return num_tp, num_fp", "return num_fp, num_tp", "caught", ""),
    ("A04", APY, CA, TF, "num_fp: int = 0", "num_fp: int = 1", "caught", ""),
    ("A05", APY, CA, TF, "            else:\n                num_fp += 1", "            else:\n                num_tp += 1", "caught", ""),
    # ---- calculate_accuracy
    ("B01", APY, CA, AC, "- num_tp) != 0", "- num_tp) == 0", "caught", "divides exactly when the denominator is 0"),
    ("B02", APY, CA, AC, "num_tp / (self.objects_results_num + self.num_ground_truth - num_tp)",
     "num_tp / (self.objects_results_num + self.num_ground_truth + num_tp)", "caught", ""),
    ("B03", APY, CA, AC, 'else float("inf")', "else 0.0", "caught", ""),
    ("B04", APY, CA, AC, "- num_tp) != 0", "- num_tp) > 0", "caught", "a negative denominator (TP beyond results + GT) is divided by in the source"),
    # ---- calculate_precision_recall
    ("C01", APY, CA, PR, "precision = num_tp / self.objects_results_num", "precision = num_tp / self.num_ground_truth", "caught", ""),
    ("C02", APY, CA, PR, "if self.num_ground_truth != 0", "if self.objects_results_num != 0", "caught", "the recall division loses its guard"),
    ("C03", APY, CA, PR, "return precision, recall", "return recall, precision", "caught", ""),
    ("C04", APY, CA, PR, 'self.num_ground_truth != 0 else float("inf")', "self.num_ground_truth != 0 else 0.0", "caught", ""),
    # ---- calculate_f1score
    ("D01", APY, CA, F1, 'precision != float("inf") and recall', 'precision == float("inf") and recall', "caught", ""),
    ("D02", APY, CA, F1, "            (1 + beta**2) * precision * recall", "            (1 - beta**2) * precision * recall", "caught", ""),
    ("D03", APY, CA, F1, "and (beta**2 * precision + recall) != 0", "or (beta**2 * precision + recall) != 0", "caught", ""),
    ("D04", APY, CA, F1, "beta: float = 1.0", "beta: float = 2.0", "closed", "the constructor relies on the default: its vocabulary is void"),
    ("D05", APY, CA, F1, "/ (beta**2 * precision + recall)\n            if", "/ (beta**2 * precision * recall)\n            if", "caught", ""),
    # ---- ClassificationAccuracy.__init__
    ("I01", APY, CA, IN, "len(object_results) == 0 or not isinstance", "len(object_results) == 0 and not isinstance", "caught", "IndexError on an empty list"),
    ("I02", APY, CA, IN, "self.num_tp, self.num_fp = self.calculate_tp_fp", "self.num_fp, self.num_tp = self.calculate_tp_fp", "caught", ""),
    ("I03", APY, CA, IN, "self.accuracy = self.calculate_accuracy(self.num_tp)", "self.accuracy = self.calculate_accuracy(self.num_fp)", "caught", ""),
    ("I04", APY, CA, IN, "self.objects_results_num: int = len(all_object_results)", "self.objects_results_num: int = len(object_results)", "caught",
     "the number of sub-lists for a nested argument"),
    ("I05", APY, CA, IN, "self.calculate_f1score(self.precision, self.recall)", "self.calculate_f1score(self.recall, self.precision)", "equivalent",
     "beta = 1: the formula is symmetric (as rationals; the proof compares terms, not values)"),
    ("I06", APY, CA, IN, "not isinstance(object_results[0], list)", "isinstance(object_results[0], list)", "caught", ""),
    # ---- _summarize
    ("S01", SPY, MS, SU, "num_est += acc_.objects_results_num", "num_est += acc_.num_ground_truth", "caught", ""),
    ("S02", SPY, MS, SU, "if (num_tp + num_fp) != 0", "if (num_tp + num_gt) != 0", "caught", ""),
    ("S03", SPY, MS, SU, "recall = num_tp / num_gt", "recall = num_fp / num_gt", "caught", ""),
    ("S04", SPY, MS, SU, "f1score = 2 * precision * recall", "f1score = 1 * precision * recall", "caught", ""),
    ("S05", SPY, MS, SU, "if precision + recall != 0", "if precision * recall != 0", "caught", ""),
    ("S06", SPY, MS, SU, "return accuracy, precision, recall, f1score", "return accuracy, recall, precision, f1score", "caught", ""),
    ("S07", SPY, MS, SU, "for acc_ in self.accuracies:", "for acc_ in self.accuracies[1:]:", "closed", "a slice is not translated"),
    ("S08", SPY, MS, SU, "precision = num_tp / (num_tp + num_fp)", "precision = num_tp / num_est", "caught",
     "equal only for accuracies built by the constructor (TP + FP = results); the guard would no longer dominate the division"),
    # ---- _get_fp_object_results
    ("G01", RPY, None, FP, "ground_truth_object=None", "ground_truth_object=est_obj_", "caught", ""),
    ("G02", RPY, None, FP, "for est_obj_ in estimated_objects:", "for est_obj_ in reversed(estimated_objects):", "closed", "another iteration order"),
    # ---- _get_object_results_with_id
    ("W01", RPY, None, WI, "if est_object.uuid is None or gt_object.uuid is None:", "if est_object.uuid is None and gt_object.uuid is None:", "caught", ""),
    ("W02", RPY, None, WI, "if est_object.uuid == gt_object.uuid and", "if est_object.uuid != gt_object.uuid and", "caught", ""),
    ("W03", RPY, None, WI, "estimated_objects_.remove(est_object)", "estimated_objects_.remove(gt_object)", "caught", ""),
    ("W04", RPY, None, WI, "> 0 and not any(", "> 0 and any(", "caught", ""),
    ("W05", RPY, None, WI, "FrameID.CAM_TRAFFIC_LIGHT", "FrameID.CAM_FRONT", "closed", "the model has no fact for another camera"),
    ("W06", RPY, None, WI, "for gt_object in ground_truth_objects:", "for gt_object in ground_truth_objects_:", "closed",
     "the list removed from would be the list iterated"),
    ("W07", RPY, None, WI, "len(estimated_objects_) > 0", "len(estimated_objects_) >= 0", "equivalent", "an empty remainder adds nothing"),
    ("W08", RPY, None, WI, "object_results += _get_fp_object_results(estimated_objects_)", "object_results += _get_fp_object_results(estimated_objects)", "caught", ""),
    ("W09", RPY, None, WI, "ground_truth_object=gt_object", "ground_truth_object=est_object", "caught", ""),
    ("W10", RPY, None, WI, "and est_object.frame_id == gt_object.frame_id:", "or est_object.frame_id == gt_object.frame_id:", "caught", ""),
    # ---- _get_object_results_for_tlr
    ("T01", RPY, None, TL, "est_object.semantic_label == gt_object.semantic_label\n                and est_object.uuid",
     "est_object.semantic_label != gt_object.semantic_label\n                and est_object.uuid", "caught", ""),
    ("T02", RPY, None, TL, "if uuid_matching_first:", "if not uuid_matching_first:", "caught", ""),
    ("T03", RPY, None, TL, "and est_object in estimated_objects_\n                and gt_object in ground_truth_objects_\n            ):",
     "and est_object not in estimated_objects_\n                and gt_object in ground_truth_objects_\n            ):", "caught", ""),
    ("T04", RPY, None, TL, "rest_estimated_objects_ = estimated_objects_.copy()", "rest_estimated_objects_ = estimated_objects.copy()", "equivalent",
     "estimates paired in stage 1 fail the membership test of stage 2, and every uuid was already checked in stage 1 (needs an invariant the script does not have)"),
    ("T05", RPY, None, TL, "for gt_object in rest_ground_truth_objects_:", "for gt_object in ground_truth_objects_:", "closed",
     "the list removed from would be the list iterated"),
    ("T06", RPY, None, TL, S2, S2.replace("==", "!="), "caught", ""),
    ("T07", RPY, None, TL, "if match_condition(est_object, gt_object, uuid_matching_first):", "if match_condition(gt_object, est_object, uuid_matching_first):", "caught", ""),
    ("T08", RPY, None, TL, "ground_truth_objects_.remove(gt_object)\n\n    # 2.", "ground_truth_objects_.remove(est_object)\n\n    # 2.", "caught", ""),
    ("T09", RPY, None, TL, "raise RuntimeError", "raise ValueError", "caught", "another exception class"),
    ("T10", RPY, None, TL, "and est_object in estimated_objects_\n                and gt_object in ground_truth_objects_\n            )\n        else:",
     "and est_object in ground_truth_objects_\n                and gt_object in ground_truth_objects_\n            )\n        else:", "caught", ""),
    ("T11", RPY, None, TL, "and est_object.uuid == gt_object.uuid\n", "", "caught", "uuid_matching_first no longer looks at the uuid"),
    ("T12", RPY, None, TL, "estimated_objects_ = estimated_objects.copy()", "estimated_objects_ = estimated_objects", "closed",
     "the working list would alias the caller's list (which is iterated)"),
]

RESULT_CTOR = "DynamicObjectWithPerceptionResult(estimated_object=est_object, ground_truth_object=gt_object)"
RAISE = 'raise RuntimeError(f"uuid of estimation and ground truth must be set, but got {est_object.uuid} and {gt_object.uuid}")'
# (id, description, file, class, function, new source of the whole function)
REFACTORINGS = [
    ("R01", "calculate_tp_fp: early `continue` for a wrong label", APY, CA, TF, """
def calculate_tp_fp(self, object_results):
    num_tp: int = 0
    num_fp: int = 0
    for obj_result in object_results:
        if not obj_result.is_label_correct:
            num_fp += 1
            continue
        num_tp += 1
    return num_tp, num_fp
"""),
    ("R02", "calculate_accuracy: denominator in a local, if / early return instead of a conditional expression", APY, CA, AC, """
def calculate_accuracy(self, num_tp: int) -> float:
    denominator = self.objects_results_num + self.num_ground_truth - num_tp
    if denominator == 0:
        return float("inf")
    return num_tp / denominator
"""),
    ("R03", "calculate_precision_recall: returned as a tuple of conditional expressions, `== 0` with the branches swapped", APY, CA, PR, """
def calculate_precision_recall(self, num_tp: int):
    return (
        float("inf") if self.objects_results_num == 0 else num_tp / self.objects_results_num,
        float("inf") if self.num_ground_truth == 0 else num_tp / self.num_ground_truth,
    )
"""),
    ("R04", "calculate_f1score: early returns, denominator in a local, De Morgan", APY, CA, F1, """
def calculate_f1score(self, precision: float, recall: float, beta: float = 1.0) -> float:
    if precision == float("inf") or recall == float("inf"):
        return float("inf")
    denominator = beta**2 * precision + recall
    if denominator == 0:
        return float("inf")
    return (1 + beta**2) * precision * recall / denominator
"""),
    ("R05", "ClassificationAccuracy.__init__: callees in another order, branches of the first test swapped", APY, CA, IN, """
def __init__(self, object_results, num_ground_truth: int, target_labels) -> None:
    self.target_labels = target_labels
    self.num_ground_truth: int = num_ground_truth
    if len(object_results) != 0 and isinstance(object_results[0], list):
        all_object_results = []
        for obj_results in object_results:
            all_object_results += obj_results
    else:
        all_object_results = object_results
    self.objects_results_num: int = len(all_object_results)
    self.num_tp, self.num_fp = self.calculate_tp_fp(all_object_results)
    self.precision, self.recall = self.calculate_precision_recall(self.num_tp)
    self.f1score = self.calculate_f1score(self.precision, self.recall)
    self.accuracy = self.calculate_accuracy(self.num_tp)
"""),
    ("R06", "_summarize: `x = x + ...` instead of `+=`, totals' denominators in locals, if statements", SPY, MS, SU, """
def _summarize(self):
    num_est: int = 0
    num_gt: int = 0
    num_tp: int = 0
    num_fp: int = 0
    for acc_ in self.accuracies:
        num_est = num_est + acc_.objects_results_num
        num_gt = num_gt + acc_.num_ground_truth
        num_tp = num_tp + acc_.num_tp
        num_fp = num_fp + acc_.num_fp
    union = num_est + num_gt - num_tp
    accuracy = num_tp / union if union != 0 else float("inf")
    if (num_tp + num_fp) != 0:
        precision = num_tp / (num_tp + num_fp)
    else:
        precision = float("inf")
    recall = float("inf") if num_gt == 0 else num_tp / num_gt
    f1score = 2 * precision * recall / (precision + recall) if precision + recall != 0 else float("inf")
    return accuracy, precision, recall, f1score
"""),
    ("R07", "_get_fp_object_results: as a list comprehension", RPY, None, FP, """
def _get_fp_object_results(estimated_objects):
    return [DynamicObjectWithPerceptionResult(estimated_object=est_obj_, ground_truth_object=None) for est_obj_ in estimated_objects]
"""),
    ("R08", "_get_object_results_with_id: camera test first with `continue`, nested if, remainder test as nested ifs", RPY, None, WI, """
def _get_object_results_with_id(estimated_objects, ground_truth_objects):
    object_results: List[DynamicObjectWithPerceptionResult] = []
    estimated_objects_ = estimated_objects.copy()
    ground_truth_objects_ = ground_truth_objects.copy()
    for est_object in estimated_objects:
        for gt_object in ground_truth_objects:
            if est_object.uuid is None or gt_object.uuid is None:
                """ + RAISE + """
            if est_object.frame_id != gt_object.frame_id:
                continue
            if est_object.uuid == gt_object.uuid:
                object_results.append(""" + RESULT_CTOR + """)
                estimated_objects_.remove(est_object)
                ground_truth_objects_.remove(gt_object)
    if len(estimated_objects_) > 0:
        if not any([est.frame_id == FrameID.CAM_TRAFFIC_LIGHT for est in estimated_objects_]):
            object_results += _get_fp_object_results(estimated_objects_)
    return object_results
"""),
    ("R09", "_get_object_results_with_id: truthiness of the remainder instead of len() > 0, a generator in any()", RPY, None, WI, """
def _get_object_results_with_id(estimated_objects, ground_truth_objects):
    object_results: List[DynamicObjectWithPerceptionResult] = []
    estimated_objects_ = estimated_objects.copy()
    ground_truth_objects_ = ground_truth_objects.copy()
    for est_object in estimated_objects:
        for gt_object in ground_truth_objects:
            if est_object.uuid is None or gt_object.uuid is None:
                """ + RAISE + """
            if est_object.uuid == gt_object.uuid and est_object.frame_id == gt_object.frame_id:
                object_results.append(""" + RESULT_CTOR + """)
                estimated_objects_.remove(est_object)
                ground_truth_objects_.remove(gt_object)
    if estimated_objects_ and not any(est.frame_id == FrameID.CAM_TRAFFIC_LIGHT for est in estimated_objects_):
        object_results += _get_fp_object_results(estimated_objects_)
    return object_results
"""),
    ("R10", "_get_object_results_for_tlr: match_condition as ONE return with `not uuid_matching_first or ...`", RPY, None, TL, """
def _get_object_results_for_tlr(estimated_objects, ground_truth_objects, uuid_matching_first: bool = False):
    def match_condition(est_object, gt_object, uuid_matching_first):
        return (
            est_object.semantic_label == gt_object.semantic_label
            and (not uuid_matching_first or est_object.uuid == gt_object.uuid)
            and est_object.frame_id == gt_object.frame_id
            and est_object in estimated_objects_
            and gt_object in ground_truth_objects_
        )

    object_results: List[DynamicObjectWithPerceptionResult] = []
    estimated_objects_ = estimated_objects.copy()
    ground_truth_objects_ = ground_truth_objects.copy()
    for est_object in estimated_objects:
        for gt_object in ground_truth_objects:
            if est_object.uuid is None or gt_object.uuid is None:
                """ + RAISE + """
            if match_condition(est_object, gt_object, uuid_matching_first):
                object_results.append(""" + RESULT_CTOR + """)
                estimated_objects_.remove(est_object)
                ground_truth_objects_.remove(gt_object)
    rest_estimated_objects_ = estimated_objects_.copy()
    rest_ground_truth_objects_ = ground_truth_objects_.copy()
    for est_object in rest_estimated_objects_:
        for gt_object in rest_ground_truth_objects_:
            if est_object.uuid is None or gt_object.uuid is None:
                """ + RAISE + """
            if (
                est_object.uuid == gt_object.uuid
                and est_object.frame_id == gt_object.frame_id
                and est_object in estimated_objects_
                and gt_object in ground_truth_objects_
            ):
                object_results.append(""" + RESULT_CTOR + """)
                estimated_objects_.remove(est_object)
                ground_truth_objects_.remove(gt_object)
    return object_results
"""),
    ("R11", "_get_object_results_for_tlr: no local function (condition inlined), membership tests first, stage 2 with `continue`", RPY, None, TL, """
def _get_object_results_for_tlr(estimated_objects, ground_truth_objects, uuid_matching_first: bool = False):
    object_results: List[DynamicObjectWithPerceptionResult] = []
    estimated_objects_ = estimated_objects.copy()
    ground_truth_objects_ = ground_truth_objects.copy()
    for est_object in estimated_objects:
        for gt_object in ground_truth_objects:
            if est_object.uuid is None or gt_object.uuid is None:
                """ + RAISE + """
            if est_object in estimated_objects_ and gt_object in ground_truth_objects_:
                if est_object.semantic_label == gt_object.semantic_label and est_object.frame_id == gt_object.frame_id:
                    if est_object.uuid == gt_object.uuid or not uuid_matching_first:
                        object_results.append(""" + RESULT_CTOR + """)
                        estimated_objects_.remove(est_object)
                        ground_truth_objects_.remove(gt_object)
    rest_estimated_objects_ = estimated_objects_.copy()
    rest_ground_truth_objects_ = ground_truth_objects_.copy()
    for est_object in rest_estimated_objects_:
        for gt_object in rest_ground_truth_objects_:
            if est_object.uuid is None or gt_object.uuid is None:
                """ + RAISE + """
            if est_object.uuid != gt_object.uuid or est_object.frame_id != gt_object.frame_id:
                continue
            if est_object not in estimated_objects_ or gt_object not in ground_truth_objects_:
                continue
            object_results.append(""" + RESULT_CTOR + """)
            estimated_objects_.remove(est_object)
            ground_truth_objects_.remove(gt_object)
    return object_results
"""),
    ("R12", "_get_object_results_for_tlr: stage-2 snapshots by list(...) instead of .copy()", RPY, None, TL, None),
    ("R13", "calculate_tp_fp: index loop over range(len(...))", APY, CA, TF, """
def calculate_tp_fp(self, object_results):
    num_tp: int = 0
    num_fp: int = 0
    for i in range(len(object_results)):
        if object_results[i].is_label_correct:
            num_tp += 1
        else:
            num_fp += 1
    return num_tp, num_fp
"""),
]


# ---------------------------------------------------------------------------------------------------------------------
def needed_files():
    return sorted({fn.file for fn in lc.specs()} | {rel for fn in lc.specs() for rel, _, _, _ in fn.sigs})


def make_scratch(n):
    d = os.path.join(SCRATCH, str(n))
    shutil.rmtree(d, ignore_errors=True)
    for rel in needed_files():
        dst = os.path.join(d, "repo", "perception_eval", "perception_eval", rel)
        os.makedirs(os.path.dirname(dst), exist_ok=True)
        shutil.copy(os.path.join(PKGDIR, rel), dst)
    os.makedirs(os.path.join(d, "coq"))
    return d


REQ_GEN = "From PE Require Gen.loops_classif.\nImport Gen.loops_classif."
REQ_SCR = "From SCR Require loops_classif.\nImport loops_classif."


def scratch_lemmas():
    with open(os.path.join(THEORIES, "Proofs", "GenTieClassifLemmas.v")) as f:
        txt = f.read()
    assert REQ_GEN in txt
    return txt.replace(REQ_GEN, REQ_SCR)


def split_gentie():
    with open(os.path.join(THEORIES, "Props", "GenTieClassif.v")) as f:
        txt = f.read()
    a = "From PE Require Import Base.QUtil Proofs.GenTieClassifLemmas."
    assert a in txt and REQ_GEN in txt
    whole = txt.replace(a, "From PE Require Import Base.QUtil.\nFrom SCR Require Import GenTieClassifLemmas.").replace(REQ_GEN, REQ_SCR)
    m0 = re.search(r"^\(\* ---- ", whole, flags=re.M)
    header, blocks = whole[:m0.start()], {}
    for m in re.finditer(r"(?ms)^Theorem (\w+)\b.*?^Print Assumptions \1\.", whole):
        blocks[m.group(1)] = m.group(0) + "\n"
    assert set(blocks) == set(THEOREM_MODULES), (sorted(blocks), sorted(THEOREM_MODULES))
    return whole, header, blocks


def modules_of(text):
    return {m.group(1): m.group(2) for m in re.finditer(r"(?s)Module (Gen_\w+)\.(.*?)End \1\.", text)}


def coqc(args, cwd):
    try:
        p = subprocess.run(["timeout", str(COQ_TIMEOUT), "coqc"] + args, cwd=cwd, capture_output=True, text=True)
        return p.returncode, p.stdout + p.stderr
    except Exception as e:  # noqa: BLE001
        return 99, str(e)


def check_text(d, name, text, nthm):
    fn = os.path.join(d, "coq", f"T_{name}.v")
    with open(fn, "w") as f:
        f.write(text)
    t0 = time.time()
    rc, out = coqc(["-Q", THEORIES, "PE", "-Q", os.path.join(d, "coq"), "SCR", fn], os.path.join(d, "coq"))
    dt = time.time() - t0
    if rc == 0 and out.count("Closed under the global context") == nthm and "Axioms:" not in out:
        return "ok", dt
    if rc == 124:
        return "timeout", dt
    m = re.search(r"Error:\s*(.*)", out, re.S)
    return "FAILS: " + (" ".join(m.group(1).split())[:110] if m else f"rc={rc}"), dt


def run_variant(n, edits, header, blocks, base_modules):
    """-> (translator status, {theorem: (result, seconds)}, scratch dir)"""
    d = make_scratch(n)
    for rel, fn in edits:
        path = os.path.join(d, "repo", "perception_eval", "perception_eval", rel)
        with open(path) as f:
            src = f.read()
        new = fn(src)
        ast.parse(new)
        assert new != src, "the edit changes nothing"
        with open(path, "w") as f:
            f.write(new)
    st = lc.regenerate(os.path.join(d, "repo"), os.path.join(d, "coq"))[GEN]
    with open(os.path.join(d, "coq", GEN)) as f:
        mods = modules_of(f.read())
    if base_modules is None:
        todo = list(blocks)
    else:
        changed = [m for m in base_modules if mods.get(m) != base_modules[m]]
        todo = [t for t in blocks if any(m in changed for m in THEOREM_MODULES[t])]
    if not todo:
        return st, {}, d
    cq = os.path.join(d, "coq")
    rc, out = coqc(["-Q", THEORIES, "PE", "-Q", cq, "SCR", GEN], cq)
    if rc != 0:
        return st, {"<" + GEN + ">": ("FAILS to compile: " + " ".join(out.split())[:200], 0)}, d
    with open(os.path.join(cq, "GenTieClassifLemmas.v"), "w") as f:
        f.write(scratch_lemmas())
    rc, out = coqc(["-Q", THEORIES, "PE", "-Q", cq, "SCR", "GenTieClassifLemmas.v"], cq)
    if rc != 0:
        return st, {"<GenTieClassifLemmas.v>": ("FAILS to compile: " + " ".join(out.split())[:200], 0)}, d
    res = {}
    for t in todo:
        missing = [m for m in THEOREM_MODULES[t] if m not in mods]
        if missing:
            res[t] = ("LOST: " + ", ".join(missing) + " not translated", 0)
        else:
            res[t] = check_text(d, t, header + blocks[t], 1)
    return st, res, d


def list_copy_edit(src):
    new = src.replace("rest_estimated_objects_ = estimated_objects_.copy()", "rest_estimated_objects_ = list(estimated_objects_)") \
             .replace("rest_ground_truth_objects_ = ground_truth_objects_.copy()", "rest_ground_truth_objects_ = list(ground_truth_objects_)")
    return new


def main():
    jobs = 4
    only = None
    keep = "--keep" in sys.argv
    if "--jobs" in sys.argv:
        jobs = min(4, int(sys.argv[sys.argv.index("--jobs") + 1]))
    if "--only" in sys.argv:
        only = sys.argv[sys.argv.index("--only") + 1]
    ids = [a for a in sys.argv[1:] if re.fullmatch(r"[A-Z]\d\d", a)]
    shutil.rmtree(SCRATCH, ignore_errors=True)
    os.makedirs(SCRATCH)
    whole, header, blocks = split_gentie()
    failures = 0
    # ---- (1) unchanged repo
    t0 = time.time()
    st, res, d0 = run_variant("base", [], header, blocks, None)
    with open(os.path.join(d0, "coq", GEN)) as f:
        base_modules = modules_of(f.read())
    print(f"(1) UNCHANGED /repo: translation: {'all translated' if st is None else st}")
    for k, (r, dt) in res.items():
        print(f"    {k:55s} {r}  ({dt:.1f}s)")
    bad = [k for k, v in res.items() if v[0] != "ok"]
    r, dt = check_text(d0, "whole_file", whole, len(blocks))
    print(f"    {'<the whole file, with the non-vacuity examples>':55s} {r}  ({dt:.1f}s)")
    print(f"    -> {len(res) - len(bad)}/{len(res)} theorems closed, {time.time() - t0:.0f}s")
    if bad or st is not None or r != "ok":
        failures += 1
    if only == "base":
        if not keep:
            shutil.rmtree(SCRATCH, ignore_errors=True)
        return failures
    with cf.ThreadPoolExecutor(max_workers=jobs) as pool:
        # ---- (2) mutants
        if only in (None, "mutants"):
            print("\n(2) MUTANTS (one token each)")
            tally = {}
            todo = [m for m in MUTANTS if not ids or m[0] in ids]
            futs = [pool.submit(run_variant, m[0], [(m[1], lambda s, c=m[2], f=m[3], o=m[4], n=m[5]: apply_edit(s, c, f, o, n))], header, blocks, base_modules)
                    for m in todo]
            for (mid, rel, cls, func, old, new, expected, why), fut in zip(todo, futs):
                try:
                    st, res, d = fut.result()
                except Exception as e:  # noqa: BLE001
                    print(f"  {mid} ERROR {e}")
                    failures += 1
                    continue
                badt = [f"{k} [{v[0]}]" for k, v in res.items() if v[0] != "ok"]
                if st:
                    verdict = "fails closed (translator)"
                    okv = expected in ("closed", "caught", "equivalent")
                elif not res:
                    verdict = "generated text unchanged" + (" (equivalent)" if expected == "equivalent" else "")
                    okv = expected == "equivalent"
                elif badt:
                    verdict = "caught" if expected != "equivalent" else "equivalent, proof script rejects"
                    okv = True
                else:
                    verdict = "equivalent, still proves" if expected == "equivalent" else "MISSED"
                    okv = expected == "equivalent"
                if expected == "equivalent" and st:
                    verdict = "equivalent, fails closed"
                if expected == "closed" and not st:
                    verdict += " (expected to fail closed)"
                tally[verdict] = tally.get(verdict, 0) + 1
                if not okv:
                    failures += 1
                    verdict += "  <<<<<< UNEXPECTED"
                desc = f"{func}: {' '.join(old.split())[:58]!r} -> {' '.join(new.split())[:58]!r}"
                print(f"  {mid} {verdict:34s} {desc}")
                if why:
                    print(f"        note: {why}")
                if st:
                    print(f"        translator: {st[:260]}")
                for b in badt:
                    print(f"        breaks: {b[:190]}")
                if not keep:
                    shutil.rmtree(d, ignore_errors=True)
            print("  tally:", tally)
        # ---- (3) refactorings
        if only in (None, "refactorings"):
            print("\n(3) REFACTORINGS (behaviour preserving)")
            survived = 0
            allr = [r for r in REFACTORINGS if not ids or r[0] in ids]
            futs = [pool.submit(run_variant, rid, [(rel, (list_copy_edit if new is None else
                                                          (lambda s, c=cls, f=func, n=new: replace_function(s, c, f, n))))],
                                header, blocks, base_modules)
                    for (rid, desc, rel, cls, func, new) in allr]
            for (rid, desc, rel, cls, func, new), fut in zip(allr, futs):
                try:
                    st, res, d = fut.result()
                except Exception as e:  # noqa: BLE001
                    print(f"  {rid} ERROR {e}")
                    failures += 1
                    continue
                badt = [f"{k} [{v[0]}]" for k, v in res.items() if v[0] != "ok"]
                if st:
                    verdict = "translator FAILS CLOSED"
                elif badt:
                    verdict = "translated, proof REJECTS"
                else:
                    verdict = "survives" + ("" if res else " (generated text identical)")
                    survived += 1
                print(f"  {rid} {verdict:28s} {desc}  [{len(res)} theorem(s) re-checked]")
                if st:
                    print(f"        translator: {st[:260]}")
                for b in badt:
                    print(f"        breaks: {b[:190]}")
                if not keep:
                    shutil.rmtree(d, ignore_errors=True)
            print(f"  {survived}/{len(allr)} refactorings survive")
    if not keep:
        shutil.rmtree(SCRATCH, ignore_errors=True)
    return 1 if failures else 0


if __name__ == "__main__":
    sys.exit(main())
