#!/usr/bin/env python3
"""Translator for the small LOOP FUNCTIONS at the heart of the metrics: Python `ast` -> Gallina (Gen/Loops.v).

The loop layer of the redundant tie (decisions.py is the loop-free layer): every function below is re-translated from the source
on every run and Props/GenTieLoops.v proves, for ALL inputs (lists of any length, by induction), that the generated definition
equals the hand model.  What is regenerated is the CONTROL STRUCTURE: loop bounds and direction, strictness of comparisons,
which element is appended, initial values, the order of the statements.

How a loop is rendered.  Every function lives in the error monad `Filter.res` (Ok / ErrType / ErrIndex).  A `for` statement whose
body updates the locals  a, b, ...  (those assigned, `+=`-ed, `.append`-ed or item-assigned in the body that exist before the
loop: the STATE, in order of first definition) becomes

    bind (fold_left (fun (st_ : res (A * B)) <loop var> => bind st_ (fun '(l_a, l_b) => <body> ... Ok (l_a, l_b)))
                    <iterated list> (Ok (l_a, l_b)))
         (fun '(l_a, l_b) => <rest of the function>)

  iterated list:  range(n) -> seq 0 n | range(a, b) -> seq a (b - a) | reversed(range(n)) -> rev (seq 0 n) | xs -> xs
                  | reversed(xs) -> rev xs | enumerate(xs) -> combine (seq 0 (length xs)) xs | zip(xs, ys) -> combine xs ys
  `continue`      the body's continuation `Ok (state)` at that point;   `break` / `return` inside a loop: not translated.
  an exception    once the state is an error every later iteration keeps it (bind), which is what propagation means.
Python locals are let-bound under the name `l_<name>`; a re-assignment shadows (program order = nesting order).

Nothing is silently totalised:
  xs[i]       (i a natural number: loop indices, len(), sums of those)  ->  match nth_error xs i with Some x_ => Ok x_ | None => ErrIndex end
  xs[-k]      ->  the same on index (length xs - k) under the test  k <= length xs  (ErrIndex otherwise)
  xs[i] = v   ->  if i <? length xs then Ok (firstn i xs ++ v :: skipn (S i) xs) else ErrIndex
  a - b       on natural numbers is translated ONLY as the argument of range(...) (where Python's empty range for a negative bound is
              exactly truncated subtraction); anywhere else: not translated.  Negative index expressions other than a literal: not translated.
  a / b       only when b is provably non-zero where it is evaluated (`e + k` with a positive literal k on naturals, or a name under a
              dominating `name > 0` test); otherwise not translated (ZeroDivisionError has no rendering).
  lists       `.append` / item assignment only on locals created in the function (never on a parameter: that would mutate the
              caller's list), and a list local may not be bound from another list name (aliasing).
Evaluation order: every operation that can raise is bound (`bind ... (fun eN => ...)`) in Python's left-to-right order before the
pure term that uses it; `and` / `or` / conditional expressions whose non-first operands can raise are not translated.

Optional locals: `if x is None:` / `is not None` on a local whose vocabulary type is Optional becomes a `match` that re-binds the
name to the payload in the Some branch (it stays narrowed on the path that falls through, e.g. after `if x is None: continue`); a
path on which the name is None and that continues is not translated.
Each function declares the LOOPS its equation is proved for (iteration form and the types of the state, in source order): another
loop form or another state (a running maximum kept in a local, enumerate instead of range) is reported as not translated rather
than handed to a proof script written for a different term.

Per function there is a small VOCABULARY (leaf expressions such as `self.tp_list`, and calls of other translated functions or of
library functions with a stated meaning, e.g. np.cumsum).  Fail-closed per function, like decisions.py.  Only `ast` is used.
"""
import ast
import os
import sys
from fractions import Fraction

sys.path.insert(0, os.path.dirname(os.path.abspath(__file__)))
from py_to_coq import TranslatorError, coq_str  # noqa: E402
from decisions import fail, paren, qlit, parse, find_function  # noqa: E402

Q, NAT, BOOL, NUM = "Q", "nat", "bool", "num"


def lst(t):
    return ("list", t)


def tup(*ts):
    return ("tuple", tuple(ts))


def cty(t):
    if isinstance(t, tuple) and t[0] == "list":
        return f"list {paren(cty(t[1]))}"
    if isinstance(t, tuple) and t[0] == "tuple":
        return "(" + " * ".join(paren(cty(x)) for x in t[1]) + ")"
    if isinstance(t, tuple) and t[0] == "opt":
        return f"option {paren(cty(t[1]))}"
    if isinstance(t, tuple) and t[0] == "coq":
        return t[1]
    if t in (Q, NAT, BOOL):
        return t
    fail(f"type {t} has no Coq rendering")


def is_list(t):
    return isinstance(t, tuple) and t[0] == "list"


class E:
    """a translated PURE expression (everything that can raise has been bound before it): Coq term, type;
    num: Fraction value of a literal (type NUM, coerced where it is used); isint: the literal was written as an int"""

    def __init__(self, term, ty, num=None, isint=False):
        self.term, self.ty, self.num, self.isint = term, ty, num, isint


class V:
    """vocabulary leaf: Coq term, type, eff (the term has type res <type>)"""

    def __init__(self, term, ty, eff=False):
        self.term, self.ty, self.eff = term, ty, eff


class Call:
    """vocabulary call: Python callee (ast.unparse of .func) -> Coq function applied to the translated arguments"""

    def __init__(self, coqfun, params, ret, eff=False, post=None):
        self.coqfun, self.params, self.ret, self.eff, self.post = coqfun, params, ret, eff, post   # params: [(name, type)]


class Fn:
    def __init__(self, name, file, func, params, env, ret, cls=None, vocab=None, calls=None, imports=(), needs=(), doc="", loops=None):
        self.name, self.file, self.func, self.cls = name, file, func, cls
        self.params, self.penv, self.ret = params, env, ret          # params: Coq binder text; penv: python name -> (coq term, type)
        self.vocab, self.calls, self.imports, self.needs, self.doc = vocab or {}, calls or {}, imports, needs, doc
        self.loops = loops      # the loops the proof script is written for: [(iteration kind, (state types))] in source order
        self.found = []
        self.counter = 0

    def fresh(self, hint="e"):
        self.counter += 1
        return f"{hint}{self.counter}"


class Env:
    def __init__(self, fn):
        self.fn = fn
        self.vars = {}          # python name -> (coq name, type), insertion order = order of first definition
        self.params = set()     # names that are parameters (immutable here)
        self.positive = set()   # names known to be > 0 here
        self.made = set()       # list locals created in this function (may be mutated)
        self.loop = None        # inside a loop: the state tuple [names]

    def copy(self):
        e = Env(self.fn)
        e.vars, e.params, e.positive, e.made, e.loop = dict(self.vars), set(self.params), set(self.positive), set(self.made), self.loop
        return e


# =============================================================================================
# expressions
# =============================================================================================
def to_q(e, node=None):
    if e.ty == Q:
        return e.term
    if e.ty == NUM:
        return qlit(e.num)
    if e.ty == NAT:
        return f"Qnat {paren(e.term)}"
    fail(f"a {e.ty} where a number is needed", node)


def to_nat(e, node=None):
    if e.ty == NAT:
        return e.term
    if e.ty == NUM and e.isint and e.num >= 0:
        return f"{int(e.num)}%nat"
    fail(f"a {e.ty if e.ty != NUM else 'non-natural literal'} where a natural number is needed", node)


def coerce(e, ty, node=None):
    if e.ty == ty:
        return e.term
    if ty == Q and e.ty in (NUM, NAT):
        if e.ty == NAT:
            fail("an integer used where the model has a rational (int/float mix is not translated implicitly)", node)
        return to_q(e, node)
    if ty == NAT and e.ty == NUM:
        return to_nat(e, node)
    if is_list(ty) and is_list(e.ty) and e.ty[1] == NUM:
        return e.term if e.term == "[]" else fail("list literal of the wrong type", node)
    if isinstance(ty, tuple) and ty[0] == "tuple" and isinstance(e.ty, tuple) and e.ty[0] == "tuple" and hasattr(e, "parts"):
        if len(e.parts) != len(ty[1]):
            fail("tuple of the wrong length", node)
        return "(" + ", ".join(coerce(p, t, node) for p, t in zip(e.parts, ty[1])) + ")"
    fail(f"a {e.ty} where a {ty} is needed", node)


def index_bind(xs, idx_term, env, ctx):
    v = env.fn.fresh("e")
    ctx.append((v, f"match nth_error {paren(xs)} {paren(idx_term)} with Some x_ => Ok x_ | None => ErrIndex end"))
    return v


def known_nonzero(node, e, env):
    """is the divisor provably non-zero where it is evaluated?"""
    if e.ty == NUM:
        return e.num != 0
    if isinstance(node, ast.Name) and node.id in env.positive:
        return True
    if ast.unparse(node) in env.positive:
        return True
    if e.ty == NAT and isinstance(node, ast.BinOp) and isinstance(node.op, ast.Add):
        for side in (node.left, node.right):
            if isinstance(side, ast.Constant) and isinstance(side.value, int) and not isinstance(side.value, bool) and side.value > 0:
                return True
    if isinstance(node, ast.Call) and isinstance(node.func, ast.Name) and node.func.id == "float" and len(node.args) == 1:
        return known_nonzero(node.args[0], e, env)
    return False


def const_range_len(node, env, ctx):
    """`range(n)` as the iterable of a comprehension -> the natural number n"""
    if isinstance(node, ast.Call) and isinstance(node.func, ast.Name) and node.func.id == "range" and len(node.args) == 1 and not node.keywords:
        return to_nat(tr(node.args[0], env, ctx, trunc_ok=True), node)
    fail("comprehension over something that is not range(n)", node)


def tr(node, env, ctx, trunc_ok=False):
    fn = env.fn
    key = ast.unparse(node)
    if key in fn.vocab and not (isinstance(node, ast.Name) and node.id in env.vars and node.id not in env.params):
        v = fn.vocab[key]
        if v.eff:
            b = fn.fresh("e")
            ctx.append((b, v.term))
            return E(b, v.ty)
        return E(v.term, v.ty)
    if isinstance(node, ast.Constant):
        c = node.value
        if c is True or c is False:
            return E("true" if c else "false", BOOL)
        if isinstance(c, (int, float)):
            if isinstance(c, float) and (c != c or c in (float("inf"), float("-inf"))):
                fail("non-finite constant", node)
            return E(None, NUM, num=Fraction(c), isint=isinstance(c, int))
        fail(f"constant {c!r}", node)
    if isinstance(node, ast.Name):
        if node.id in env.vars:
            t, ty = env.vars[node.id]
            return E(t, ty)
        fail(f"unknown name `{node.id}` (not a parameter, not assigned on every path before this use)", node)
    if isinstance(node, ast.UnaryOp) and isinstance(node.op, ast.USub):
        a = tr(node.operand, env, ctx)
        if a.ty == NUM:
            return E(None, NUM, num=-a.num, isint=a.isint)
        if a.ty == Q:
            return E(f"- {paren(a.term)}", Q)
        fail("unary minus on a non-rational", node)
    if isinstance(node, ast.UnaryOp) and isinstance(node.op, ast.Not):
        a = tr(node.operand, env, ctx)
        if a.ty != BOOL:
            fail("`not` of a non-boolean (truthiness is not translated)", node)
        return E(f"negb {paren(a.term)}", BOOL)
    if isinstance(node, ast.BoolOp):
        parts = []
        for k, vnode in enumerate(node.values):
            sub = []
            a = tr(vnode, env, sub)
            if sub and k > 0:
                fail("`and` / `or` whose later operand can raise", node)
            ctx.extend(sub)
            if a.ty != BOOL:
                fail("`and` / `or` on non-booleans", node)
            parts.append(paren(a.term))
        return E((" && " if isinstance(node.op, ast.And) else " || ").join(parts), BOOL)
    if isinstance(node, ast.IfExp):
        c = tr(node.test, env, ctx)
        if c.ty != BOOL:
            fail("condition of a conditional expression is not a boolean", node)
        sa, sb = [], []
        et, ef = branch_envs(node.test, env)
        a, b = tr(node.body, et, sa), tr(node.orelse, ef, sb)
        if sa or sb:
            fail("conditional expression whose branches can raise", node)
        ty = a.ty if a.ty != NUM else b.ty
        if ty == NUM:
            ty = Q
        return E(f"(if {c.term} then {coerce(a, ty, node)} else {coerce(b, ty, node)})", ty)
    if isinstance(node, ast.Compare):
        terms, left = [], tr(node.left, env, ctx)
        for op, rn in zip(node.ops, node.comparators):
            right = tr(rn, env, ctx)
            terms.append(compare(op, left, right, node))
            left = right
        return E(" && ".join(paren(t) for t in terms) if len(terms) > 1 else terms[0], BOOL)
    if isinstance(node, ast.BinOp):
        return binop(node, env, ctx, trunc_ok)
    if isinstance(node, ast.Subscript):
        a = tr(node.value, env, ctx)
        if not is_list(a.ty):
            fail(f"subscript of a {a.ty}", node)
        sl = node.slice
        if isinstance(sl, ast.UnaryOp) and isinstance(sl.op, ast.USub) and isinstance(sl.operand, ast.Constant) and isinstance(sl.operand.value, int) \
                and not isinstance(sl.operand.value, bool) and sl.operand.value > 0:
            k = sl.operand.value
            v = fn.fresh("e")
            ctx.append((v, f"match (if Nat.leb {k} (length {paren(a.term)}) then nth_error {paren(a.term)} (length {paren(a.term)} - {k})%nat else None) "
                           f"with Some x_ => Ok x_ | None => ErrIndex end"))
            return E(v, a.ty[1])
        if isinstance(sl, ast.Slice):
            fail("slices are not translated", node)
        i = tr(sl, env, ctx)
        return E(index_bind(a.term, to_nat(i, node), env, ctx), a.ty[1])
    if isinstance(node, ast.Tuple):
        parts = [tr(x, env, ctx) for x in node.elts]
        e = E("(" + ", ".join(p.term if p.ty != NUM else qlit(p.num) for p in parts) + ")", tup(*[p.ty for p in parts]))
        e.parts = parts
        return e
    if isinstance(node, ast.List):
        if not node.elts:
            return E("[]", lst(NUM))
        parts = [tr(x, env, ctx) for x in node.elts]
        ty = next((p.ty for p in parts if p.ty != NUM), Q)
        return E("[" + "; ".join(coerce(p, ty, node) for p in parts) + "]", lst(ty))
    if isinstance(node, (ast.ListComp,)):
        if len(node.generators) != 1 or node.generators[0].ifs or node.generators[0].is_async:
            fail("comprehension form", node)
        g = node.generators[0]
        if not (isinstance(g.target, ast.Name) and g.target.id not in {n.id for n in ast.walk(node.elt) if isinstance(n, ast.Name)}):
            fail("only constant comprehensions `[c for _ in range(n)]` are translated", node)
        n = const_range_len(g.iter, env, ctx)
        sub = []
        c = tr(node.elt, env, sub)
        if sub:
            fail("comprehension whose element can raise", node)
        ty = c.ty if c.ty != NUM else Q
        return E(f"repeat {paren(coerce(c, ty, node))} {paren(n)}", lst(ty))
    if isinstance(node, ast.Call):
        return call(node, env, ctx)
    fail(f"expression not translated: `{key}`", node)


def compare(op, a, b, node):
    if isinstance(op, (ast.Lt, ast.LtE, ast.Gt, ast.GtE, ast.Eq, ast.NotEq)):
        if a.ty == NAT or b.ty == NAT:
            if (a.ty == Q or b.ty == Q):
                fail("comparison between an integer and a rational", node)
            x, y = to_nat(a, node), to_nat(b, node)
            f = {ast.Lt: "Nat.ltb {x} {y}", ast.LtE: "Nat.leb {x} {y}", ast.Gt: "Nat.ltb {y} {x}", ast.GtE: "Nat.leb {y} {x}",
                 ast.Eq: "Nat.eqb {x} {y}", ast.NotEq: "negb (Nat.eqb {x} {y})"}[type(op)]
        elif a.ty in (Q, NUM) and b.ty in (Q, NUM):
            x, y = to_q(a, node), to_q(b, node)
            f = {ast.Lt: "Qltb {x} {y}", ast.LtE: "Qleb {x} {y}", ast.Gt: "Qltb {y} {x}", ast.GtE: "Qleb {y} {x}",
                 ast.Eq: "Qeqb {x} {y}", ast.NotEq: "negb (Qeqb {x} {y})"}[type(op)]
        elif a.ty == BOOL and b.ty == BOOL and isinstance(op, (ast.Eq, ast.NotEq)):
            x, y = a.term, b.term
            f = "Bool.eqb {x} {y}" if isinstance(op, ast.Eq) else "negb (Bool.eqb {x} {y})"
        else:
            fail(f"comparison of a {a.ty} with a {b.ty}", node)
        return f.format(x=paren(x), y=paren(y))
    if isinstance(op, (ast.Is, ast.IsNot)) and a.ty == BOOL and b.ty == BOOL and b.term in ("true", "false"):
        pos = (b.term == "true") == isinstance(op, ast.Is)
        return a.term if pos else f"negb {paren(a.term)}"
    fail(f"comparison operator {type(op).__name__}", node)


def binop(node, env, ctx, trunc_ok):
    a = tr(node.left, env, ctx)
    b = tr(node.right, env, ctx)
    op = node.op
    if isinstance(op, ast.Mult) and (is_list(a.ty) or is_list(b.ty)):
        l, n = (a, b) if is_list(a.ty) else (b, a)
        ln = node.left if is_list(a.ty) else node.right
        if isinstance(ln, ast.List) and len(ln.elts) == 1:
            sub = []
            c = tr(ln.elts[0], env, sub)
            ty = c.ty if c.ty != NUM else Q
            return E(f"repeat {paren(coerce(c, ty, node))} {paren(to_nat(n, node))}", lst(ty))
        fail("list repetition of something that is not a one-element literal", node)
    if isinstance(op, ast.Add) and is_list(a.ty) and is_list(b.ty):
        ty = a.ty if a.ty[1] != NUM else b.ty
        return E(f"{paren(coerce(a, ty, node))} ++ {paren(coerce(b, ty, node))}", ty)
    if a.ty == NUM and b.ty == NUM:
        fail("arithmetic between two literals", node)
    nat = NAT in (a.ty, b.ty) and all(t in (NAT, NUM) for t in (a.ty, b.ty))
    if nat:
        x, y = to_nat(a, node), to_nat(b, node)
        if isinstance(op, ast.Add):
            return E(f"({x} + {y})%nat", NAT)
        if isinstance(op, ast.Mult):
            return E(f"({x} * {y})%nat", NAT)
        if isinstance(op, ast.Sub):
            if not trunc_ok:
                fail("subtraction of integers outside the bound of a range(...) (could be negative)", node)
            return E(f"({x} - {y})%nat", NAT)
        if isinstance(op, ast.Div):
            if not known_nonzero(node.right, b, env):
                fail("division by a number that is not provably non-zero here", node)
            return E(f"Qnat {paren(x)} / Qnat {paren(y)}" if a.ty == NAT else f"{qlit(a.num)} / Qnat {paren(y)}", Q)
        fail(f"operator {type(op).__name__} on integers", node)
    if a.ty in (Q, NUM, NAT) and b.ty in (Q, NUM, NAT):
        # a float with an int: Python converts the int exactly (for the magnitudes met here)
        x, y = to_q(a, node), to_q(b, node)
        if isinstance(op, ast.Add):
            return E(f"{paren(x)} + {paren(y)}", Q)
        if isinstance(op, ast.Sub):
            return E(f"{paren(x)} - {paren(y)}", Q)
        if isinstance(op, ast.Mult):
            return E(f"{paren(x)} * {paren(y)}", Q)
        if isinstance(op, ast.Div):
            if not known_nonzero(node.right, b, env):
                fail("division by a number that is not provably non-zero here", node)
            return E(f"{paren(x)} / {paren(y)}", Q)
        fail(f"operator {type(op).__name__}", node)
    fail(f"operator {type(op).__name__} on a {a.ty} and a {b.ty}", node)


def call(node, env, ctx):
    fn = env.fn
    f = node.func
    name = ast.unparse(f)
    if isinstance(f, ast.Name) and f.id in env.vars:
        fail(f"call of the local `{f.id}`", node)
    if name == "len" and len(node.args) == 1 and not node.keywords:
        a = tr(node.args[0], env, ctx)
        if not is_list(a.ty):
            fail("len() of a non-list", node)
        return E(f"length {paren(a.term)}", NAT)
    if name == "float" and len(node.args) == 1 and not node.keywords:
        a = tr(node.args[0], env, ctx)
        return E(to_q(a, node), Q)
    if name == "abs" and len(node.args) == 1 and not node.keywords:
        a = tr(node.args[0], env, ctx)
        if a.ty != Q:
            fail("abs() of a non-rational", node)
        return E(f"qabs {paren(a.term)}", Q)
    if isinstance(f, ast.Attribute) and f.attr == "tolist" and not node.args and not node.keywords:
        a = tr(f.value, env, ctx)          # ndarray.tolist() of a value the model holds as a list
        if not is_list(a.ty):
            fail(".tolist() of a non-list", node)
        return a
    if name in fn.calls:
        c = fn.calls[name]
        if len(node.args) > len(c.params):
            fail(f"too many arguments for {name}", node)
        given = {}
        for (pn, _), a in zip(c.params, node.args):
            given[pn] = a
        for kw in node.keywords:
            if kw.arg is None or kw.arg in given or kw.arg not in [p for p, _ in c.params]:
                fail(f"keyword argument of {name}", node)
            given[kw.arg] = kw.value
        if set(given) != {p for p, _ in c.params}:
            fail(f"missing argument of {name}", node)
        # Python evaluates positional arguments, then keywords, in source order
        order = list(node.args) + [kw.value for kw in node.keywords]
        vals = {}
        for a in order:
            pn = next(p for p, v in given.items() if v is a)
            pty = dict(c.params)[pn]
            vals[pn] = coerce(tr(a, env, ctx), pty, node)
        if "{" in c.coqfun:
            term = c.coqfun
            for p_, _ in c.params:
                term = term.replace("{" + p_ + "}", paren(vals[p_]))
        else:
            term = c.coqfun + " " + " ".join(paren(vals[p]) for p, _ in c.params)
        if c.eff:
            b = fn.fresh("e")
            ctx.append((b, term))
            return E(b, c.ret)
        return E(term, c.ret)
    fail(f"call not in the vocabulary: `{name}`", node)


# =============================================================================================
# statements
# =============================================================================================
def wrap(ctx, body):
    for v, t in reversed(ctx):
        body = f"bind ({t}) (fun {v} =>\n{body})"
    return body


def lname(n):
    return "l_" + n


def assigned(stmts):
    """names (re)bound or mutated by the statements, in order of first occurrence"""
    out = []

    def add(n):
        if n not in out:
            out.append(n)

    for s in stmts:
        for n in ast.walk(s):
            if isinstance(n, ast.Name) and isinstance(n.ctx, ast.Store):
                add(n.id)
            elif isinstance(n, ast.Subscript) and isinstance(n.ctx, ast.Store) and isinstance(n.value, ast.Name):
                add(n.value.id)
            elif isinstance(n, ast.Call) and isinstance(n.func, ast.Attribute) and isinstance(n.func.value, ast.Name) \
                    and n.func.attr in ("append", "extend", "insert", "pop", "remove", "clear", "sort", "reverse"):
                add(n.func.value.id)
    return out


def escapes(stmts):
    return any(isinstance(n, (ast.Return, ast.Continue, ast.Break)) for s in stmts for n in ast.walk(s))


def state_tuple(names):
    ts = [lname(n) for n in names]
    return ts[0] if len(ts) == 1 else "(" + ", ".join(ts) + ")"


def state_pat(names):
    ts = [lname(n) for n in names]
    return ts[0] if len(ts) == 1 else "'(" + ", ".join(ts) + ")"


def state_type(names, env):
    ts = [cty(env.vars[n][1]) for n in names]
    return paren(ts[0]) if len(ts) == 1 else "(" + " * ".join(paren(t) for t in ts) + ")"


def bind_local(env, name, ty, node, made=False):
    if name in env.params:
        fail(f"parameter `{name}` is re-assigned", node)
    if name in env.vars and env.vars[name][1] != ty:
        fail(f"`{name}` changes its type from {env.vars[name][1]} to {ty}", node)
    e1 = env.copy()
    e1.vars[name] = (lname(name), ty)
    e1.positive.discard(name)
    if made:
        e1.made.add(name)
    else:
        e1.made.discard(name)
    return e1


def local_type(e, existing, ann, node):
    """type of a local bound to e (literals take the declared / previous type)"""
    if e.ty == NUM:
        if existing is not None:
            return existing
        if ann == "int" or (ann is None and e.isint):
            if not (e.isint and e.num >= 0):
                fail("an integer local initialised with something that is not a natural literal", node)
            return NAT
        return Q
    if is_list(e.ty) and e.ty[1] == NUM:
        if existing is not None:
            return existing
        fail("an empty list whose element type is not known", node)
    return e.ty


def tr_block(ss, env, k):
    """-> Coq term of type res <function result>; k(env): what follows the block (None: the end of the function)"""
    fn = env.fn
    if not ss:
        if k is None:
            fail(f"{fn.func}: control can reach the end of the function without a return")
        return k(env)
    s, rest = ss[0], ss[1:]

    def cont(e):
        return tr_block(rest, e, k)

    if isinstance(s, ast.Expr) and isinstance(s.value, ast.Constant) and isinstance(s.value.value, str):
        return cont(env)
    if isinstance(s, ast.Pass):
        return cont(env)
    if isinstance(s, ast.AnnAssign) and s.value is None:
        return cont(env)
    if isinstance(s, ast.Return):
        if env.loop is not None:
            fail("return inside a loop", s)
        if s.value is None:
            fail("bare return", s)
        ctx = []
        e = tr(s.value, env, ctx)
        return wrap(ctx, f"Ok {paren(coerce(e, fn.ret, s))}")
    if isinstance(s, ast.Continue):
        if env.loop is None:
            fail("continue outside a loop", s)
        return env.loop(env)
    if isinstance(s, ast.Break):
        fail("break is not translated", s)
    if isinstance(s, (ast.Assign, ast.AnnAssign)):
        targets = s.targets if isinstance(s, ast.Assign) else [s.target]
        if len(targets) != 1:
            fail("chained assignment", s)
        tg = targets[0]
        ann = None
        if isinstance(s, ast.AnnAssign):
            ann = ast.unparse(s.annotation)
        ctx = []
        if isinstance(tg, ast.Name):
            e = tr(s.value, env, ctx)
            if is_list(e.ty) and isinstance(s.value, ast.Name):
                fail(f"`{tg.id}` would alias the list `{s.value.id}`", s)
            ty = local_type(e, env.vars[tg.id][1] if tg.id in env.vars and tg.id not in env.params else None, ann, s)
            made = is_list(ty) and isinstance(s.value, (ast.List, ast.ListComp, ast.BinOp))
            e1 = bind_local(env, tg.id, ty, s, made=made)
            term = coerce(e, ty, s)
            return wrap(ctx, f"let {lname(tg.id)} := {term} in\n{cont(e1)}")
        if isinstance(tg, ast.Tuple) and all(isinstance(x, ast.Name) for x in tg.elts):
            e = tr(s.value, env, ctx)
            if not (isinstance(e.ty, tuple) and e.ty[0] == "tuple" and len(e.ty[1]) == len(tg.elts)):
                fail("tuple unpacking of something that is not a tuple of that length", s)
            names = [x.id for x in tg.elts]
            if len(set(names)) != len(names):
                fail("repeated name in a tuple target", s)
            e1 = env
            for nme, ty in zip(names, e.ty[1]):
                # the lists returned by a call are fresh objects: they may be mutated
                e1 = bind_local(e1, nme, ty, s, made=is_list(ty) and isinstance(s.value, ast.Call))
            return wrap(ctx, f"let '({', '.join(lname(n) for n in names)}) := {e.term} in\n{cont(e1)}")
        if isinstance(tg, ast.Subscript) and isinstance(tg.value, ast.Name):
            nme = tg.value.id
            if nme not in env.vars or nme in env.params or nme not in env.made or not is_list(env.vars[nme][1]):
                fail(f"item assignment to `{nme}`, which is not a list created in this function", s)
            ety = env.vars[nme][1][1]
            # Python evaluates the right-hand side first, then the subscript
            v = tr(s.value, env, ctx)
            i = tr(tg.slice, env, ctx)
            it = to_nat(i, s)
            x = lname(nme)
            upd = f"if Nat.ltb {paren(it)} (length {x}) then Ok (firstn {paren(it)} {x} ++ {paren(coerce(v, ety, s))} :: skipn (S {paren(it)}) {x}) else ErrIndex"
            e1 = env.copy()
            return wrap(ctx, f"bind ({upd}) (fun {x} =>\n{cont(e1)})")
        fail("assignment target", s)
    if isinstance(s, ast.AugAssign):
        if not isinstance(s.target, ast.Name):
            fail("augmented assignment to something that is not a name", s)
        nme = s.target.id
        if nme not in env.vars or nme in env.params:
            fail(f"augmented assignment to `{nme}`, which is not a local", s)
        if is_list(env.vars[nme][1]):
            fail("augmented assignment on a list", s)
        ctx = []
        new = ast.BinOp(left=ast.Name(id=nme, ctx=ast.Load()), op=s.op, right=s.value)
        ast.copy_location(new, s)
        ast.fix_missing_locations(new)
        e = tr(new, env, ctx)
        ty = env.vars[nme][1]
        e1 = bind_local(env, nme, ty, s)
        return wrap(ctx, f"let {lname(nme)} := {coerce(e, ty, s)} in\n{cont(e1)}")
    if isinstance(s, ast.Expr) and isinstance(s.value, ast.Call) and isinstance(s.value.func, ast.Attribute) \
            and isinstance(s.value.func.value, ast.Name) and s.value.func.attr == "append":
        c = s.value
        nme = c.func.value.id
        if len(c.args) != 1 or c.keywords:
            fail("append form", s)
        if nme not in env.vars or nme in env.params or nme not in env.made or not is_list(env.vars[nme][1]):
            fail(f"append to `{nme}`, which is not a list created in this function", s)
        ctx = []
        v = tr(c.args[0], env, ctx)
        ety = env.vars[nme][1][1]
        x = lname(nme)
        return wrap(ctx, f"let {x} := {x} ++ [{coerce(v, ety, s)}] in\n{cont(env.copy())}")
    if isinstance(s, ast.If):
        ctx = []
        nn = none_test(s.test, env)
        if nn is not None:
            # `x is None` / `x is not None` on an Optional local: a match that re-binds the name to the payload
            x, is_none = nn
            inner = env.vars[x][1][1]
            e_some, e_none = env.copy(), env.copy()
            e_some.vars[x] = (lname(x), inner)
            del e_none.vars[x]           # the name stands for None there: any use is not translated
            (et, ef) = (e_none, e_some) if is_none else (e_some, e_none)

            def render(a, b):
                none_b, some_b = (a, b) if is_none else (b, a)
                return f"match {lname(x)} with\n| None =>\n{none_b}\n| Some {lname(x)} =>\n{some_b}\nend"
        else:
            c = tr(s.test, env, ctx)
            if c.ty != BOOL:
                fail("condition is not a boolean (truthiness is not translated)", s)
            et, ef = branch_envs(s.test, env)

            def render(a, b):
                return f"if {c.term} then\n{a}\nelse\n{b}"
        if escapes([s]):
            def after(e, branch):
                # a name narrowed by the test stays narrowed on the path that falls through (`if x is None: continue`)
                return tr_block(rest, restrict(e, env, branch), k)
            a = tr_block(s.body, et, lambda e: after(e, s.body))
            b = tr_block(s.orelse, ef, lambda e: after(e, s.orelse))
            return wrap(ctx, render(a, b))
        ab, ao = assigned(s.body), assigned(s.orelse)
        mv = [v for v in env.vars if v in ab or v in ao] + [v for v in ab if v not in env.vars and v in ao]
        if not mv:
            fail("an `if` that neither leaves nor changes a variable that is live afterwards", s)
        seen = {}

        def kj(e):
            for v in mv:
                if v not in e.vars:
                    fail(f"`{v}` is not assigned on every path", s)
                seen.setdefault(v, set()).add(e.vars[v][1] if isinstance(e.vars[v][1], str) else repr(e.vars[v][1]))
                seen.setdefault(("t", v), e.vars[v][1])
                seen.setdefault(("m", v), []).append(v in e.made)
            return f"Ok {state_tuple(mv)}"

        a = tr_block(s.body, et, kj)
        b = tr_block(s.orelse, ef, kj)
        e1 = env.copy()
        for v in mv:
            if len(seen[v]) != 1:
                fail(f"`{v}` has different types on the two paths", s)
            e1.vars[v] = (lname(v), seen[("t", v)])
            e1.positive.discard(v)
            if all(seen[("m", v)]):
                e1.made.add(v)
            else:
                e1.made.discard(v)
        return wrap(ctx, f"bind ({render(a, b)}) (fun {state_pat(mv)} =>\n{cont(e1)})")
    if isinstance(s, ast.For):
        return tr_for(s, rest, env, k)
    fail(f"statement not translated: {type(s).__name__}", s)


def none_test(test, env):
    """`x is None` / `x is not None` / `not (...)` of those, x an Optional local -> (x, True when the test holds for None)"""
    if isinstance(test, ast.UnaryOp) and isinstance(test.op, ast.Not):
        r = none_test(test.operand, env)
        return None if r is None else (r[0], not r[1])
    if isinstance(test, ast.Compare) and len(test.ops) == 1 and isinstance(test.ops[0], (ast.Is, ast.IsNot)) \
            and isinstance(test.comparators[0], ast.Constant) and test.comparators[0].value is None and isinstance(test.left, ast.Name):
        x = test.left.id
        if x in env.vars and x not in env.params and isinstance(env.vars[x][1], tuple) and env.vars[x][1][0] == "opt":
            return x, isinstance(test.ops[0], ast.Is)
        fail(f"`{x}` is compared with None but is not an Optional local", test)
    return None


def branch_envs(test, env):
    """environments of the true / false branch of a boolean test (facts `x > 0` for the divisions)"""
    et, ef = env.copy(), env.copy()
    for fact, e_ in zip(positive_fact(test), (et, ef)):
        if fact is not None and fact.startswith("nat:"):
            # `not (x == 0)` / `not (x <= 0)` gives x > 0 only for natural numbers
            try:
                if tr(ast.parse(fact[4:], mode="eval").body, env, []).ty == NAT:
                    e_.positive.add(fact[4:])
            except TranslatorError:
                pass
        elif fact is not None:
            e_.positive.add(fact)
    return et, ef


def restrict(e, env0, branch):
    """after a branch that falls through in CPS position: locals first bound inside the branch are not visible afterwards"""
    e1 = e.copy()
    for v in list(e1.vars):
        if v not in env0.vars:
            del e1.vars[v]
    for v in env0.vars:
        if v not in e1.vars:
            fail(f"`{v}` is None on a path that continues after the test", None)
    e1.positive = set(env0.positive) & set(e1.positive)
    return e1


def positive_fact(test):
    """-> (expression known to be > 0 in the TRUE branch, expression known to be > 0 in the FALSE branch) as ast.unparse text / None.
    `x > 0`, `0 < x` (true branch);  `x == 0`, `x <= 0`, `0 >= x`, `0 == x` (false branch: only used for natural numbers);
    `not t` swaps the branches."""
    if isinstance(test, ast.UnaryOp) and isinstance(test.op, ast.Not):
        a, b = positive_fact(test.operand)
        return b, a
    if isinstance(test, ast.Compare) and len(test.ops) == 1:
        a, op, b = test.left, test.ops[0], test.comparators[0]

        def zero(n):
            return isinstance(n, ast.Constant) and not isinstance(n.value, bool) and isinstance(n.value, (int, float)) and n.value == 0

        def nonneg(n):
            return isinstance(n, ast.Constant) and not isinstance(n.value, bool) and isinstance(n.value, (int, float)) and n.value >= 0

        if isinstance(op, ast.Gt) and nonneg(b):
            return ast.unparse(a), None
        if isinstance(op, ast.Lt) and nonneg(a):
            return ast.unparse(b), None
        if isinstance(op, (ast.Eq, ast.LtE)) and zero(b):
            return None, "nat:" + ast.unparse(a)
        if isinstance(op, (ast.Eq, ast.GtE)) and zero(a):
            return None, "nat:" + ast.unparse(b)
    return None, None


def iter_of(it, env, ctx, node):
    """-> (Coq list term, binder pattern maker, [(python name, type)] given the target)"""
    def is_call(n, name, nargs):
        return isinstance(n, ast.Call) and isinstance(n.func, ast.Name) and n.func.id == name and n.func.id not in env.vars \
            and len(n.args) in nargs and not n.keywords

    if is_call(it, "range", (1, 2)):
        if len(it.args) == 1:
            n = to_nat(tr(it.args[0], env, ctx, trunc_ok=True), node)
            return f"seq 0 {paren(n)}", NAT
        a = to_nat(tr(it.args[0], env, ctx), node)
        b = to_nat(tr(it.args[1], env, ctx), node)
        return f"seq {paren(a)} ({b} - {a})%nat", NAT
    if is_call(it, "reversed", (1,)):
        t, ty = iter_of(it.args[0], env, ctx, node)
        return f"rev ({t})", ty
    if is_call(it, "enumerate", (1,)):
        t, ty = iter_of(it.args[0], env, ctx, node)
        return f"combine (seq 0 (length ({t}))) ({t})", tup(NAT, ty)
    if is_call(it, "zip", (2,)):
        (t1, ty1), (t2, ty2) = iter_of(it.args[0], env, ctx, node), iter_of(it.args[1], env, ctx, node)
        return f"combine ({t1}) ({t2})", tup(ty1, ty2)
    e = tr(it, env, ctx)
    if not is_list(e.ty) or e.ty[1] == NUM:
        fail("loop over something that is not a list / range", node)
    return e.term, e.ty[1]


def iter_kind(it):
    if isinstance(it, ast.Call) and isinstance(it.func, ast.Name) and it.func.id in ("range", "reversed", "enumerate", "zip"):
        inner = [iter_kind(a) for a in it.args] if it.func.id != "range" else []
        return it.func.id + ("(" + ",".join(inner) + ")" if inner else "")
    return "list"


def direct_lists(it):
    """the sub-expressions of a loop header that are iterated as lists (not the arguments of range)"""
    if isinstance(it, ast.Call) and isinstance(it.func, ast.Name) and it.func.id == "range":
        return []
    if isinstance(it, ast.Call) and isinstance(it.func, ast.Name) and it.func.id in ("reversed", "enumerate", "zip"):
        return [x for a in it.args for x in direct_lists(a)]
    return [it]


def bind_target(tg, ty, env, node):
    """-> (Coq pattern, env with the loop variables)"""
    if isinstance(tg, ast.Name):
        if tg.id in env.vars:
            fail(f"loop variable `{tg.id}` shadows an existing name", node)
        e1 = env.copy()
        e1.vars[tg.id] = (lname(tg.id), ty)
        return lname(tg.id), e1, [tg.id]
    if isinstance(tg, ast.Tuple) and isinstance(ty, tuple) and ty[0] == "tuple" and len(tg.elts) == len(ty[1]):
        pats, names, e1 = [], [], env
        for x, t in zip(tg.elts, ty[1]):
            p, e1, ns = bind_target(x, t, e1, node)
            pats.append(p.lstrip("'"))
            names += ns
        if len(set(names)) != len(names):
            fail("repeated loop variable", node)
        return "'(" + ", ".join(pats) + ")", e1, names
    fail("loop target", node)


def tr_for(s, rest, env, k):
    fn = env.fn
    if s.orelse:
        fail("for ... else", s)
    ctx = []
    it, ety = iter_of(s.iter, env, ctx, s)
    pat, benv, loopvars = bind_target(s.target, ety, env, s)
    ab = assigned(s.body)
    for v in loopvars:
        if v in ab:
            fail(f"loop variable `{v}` is assigned in the body", s)
    for v in ab:
        if v in env.params:
            fail(f"parameter `{v}` is changed in a loop", s)
    # a list must not change while it is iterated (the bound of a range(...) is evaluated once, before the loop: no constraint)
    for n in direct_lists(s.iter):
        for m in ast.walk(n):
            if isinstance(m, ast.Name) and m.id in ab:
                fail(f"`{m.id}` is iterated and changed in the same loop", s)
    state = [v for v in env.vars if v in ab]
    if not state:
        fail("a loop that changes no variable defined before it", s)
    benv.loop = lambda e: check_state(e, env, state, s) and f"Ok {state_tuple(state)}"
    body = tr_block(s.body, benv, benv.loop)
    sty = state_type(state, env)
    fn.found.append((iter_kind(s.iter), tuple(env.vars[v][1] for v in state)))
    e1 = env.copy()          # loop variables and locals first bound in the body are not visible after the loop
    e1.positive -= set(state)
    loop = (f"fold_left (fun (st_ : res {sty}) {pat} => bind st_ (fun {state_pat(state)} =>\n{body}))\n"
            f"({it}) (Ok {state_tuple(state)})")
    return wrap(ctx, f"bind ({loop}) (fun {state_pat(state)} =>\n{tr_block(rest, e1, k)})")


def check_state(e, env0, state, node):
    for v in state:
        if v not in e.vars or e.vars[v][1] != env0.vars[v][1]:
            fail(f"`{v}` changes its type inside the loop", node)
        if (v in env0.made) != (v in e.made):
            fail(f"`{v}` is re-bound to a list that is not fresh inside the loop", node)
    return True


# =============================================================================================
# one function
# =============================================================================================
def translate_function(fn, repo, trees):
    if fn.file not in trees:
        trees[fn.file] = parse(repo, fn.file)
    f = find_function(trees[fn.file], fn.cls, fn.func)
    fn.counter = 0
    body = list(f.body)
    if body and isinstance(body[0], ast.Expr) and isinstance(body[0].value, ast.Constant) and isinstance(body[0].value.value, str):
        body = body[1:]
    for n in ast.walk(f):
        if isinstance(n, (ast.While, ast.Try, ast.With, ast.Raise, ast.Lambda, ast.NamedExpr, ast.Global, ast.Nonlocal, ast.Delete, ast.Assert,
                          ast.Yield, ast.YieldFrom, ast.Await, ast.FunctionDef, ast.ClassDef, ast.Starred)) and n is not f:
            fail(f"unsupported construct {type(n).__name__}", n)
    pynames = [a.arg for a in f.args.args if a.arg != "self"]
    if f.args.vararg or f.args.kwarg or f.args.kwonlyargs or f.args.posonlyargs:
        fail("parameter list form")
    if sorted(pynames) != sorted(fn.penv):
        fail(f"parameters changed: {pynames} (expected {sorted(fn.penv)})")
    env = Env(fn)
    for p in pynames:
        env.vars[p] = fn.penv[p]
        env.params.add(p)
    fn.found = []
    term = tr_block(body, env, None)
    if fn.loops is not None and fn.found != fn.loops:
        def show(ls):
            return "; ".join(f"{k} over ({', '.join(cty(t) for t in ts)})" for k, ts in ls) or "none"
        fail(f"the loops of the function ({show(fn.found)}) are not the ones its equation is proved for ({show(fn.loops)})")
    out = [f"Module Gen_{fn.name}.", f"(* {fn.file}: {(fn.cls + '.') if fn.cls else ''}{fn.func} *)"]
    for m in fn.imports:
        out.append(f"Import {m}.")
    out.append(f"Definition f {fn.params} : res {paren(cty(fn.ret))} :=\n{term}.")
    out.append(f"End Gen_{fn.name}.")
    return "\n".join(out)


# =============================================================================================
# the functions and their vocabularies
# =============================================================================================
AP_PY = "evaluation/metrics/detection/ap.py"


def specs():
    S = []
    LQ = lst(Q)
    S.append(Fn("interpolate_precision_recall_list", AP_PY, "interpolate_precision_recall_list",
                "(precision_list recall_list : list Q)",
                {"precision_list": ("precision_list", LQ), "recall_list": ("recall_list", LQ)}, tup(LQ, LQ), cls="Ap",
                loops=[("reversed(range)", (LQ, LQ))]))
    S.append(Fn("_calculate_ap", AP_PY, "_calculate_ap", "(precision_list recall_list : list Q)",
                {"precision_list": ("precision_list", LQ), "recall_list": ("recall_list", LQ)}, Q, cls="Ap",
                calls={"self.interpolate_precision_recall_list":
                       Call("Gen_interpolate_precision_recall_list.f", [("precision_list", LQ), ("recall_list", LQ)], tup(LQ, LQ), eff=True)},
                needs=("interpolate_precision_recall_list",), loops=[("range", (Q,))]))
    # get_precision_recall_list reads self.tp_list (the cumulative TP list) and self.num_ground_truth (an int)
    S.append(Fn("get_precision_recall_list", AP_PY, "get_precision_recall_list", "(tp_list : list Q) (num_ground_truth : nat)",
                {}, tup(LQ, LQ), cls="Ap",
                vocab={"self.tp_list": V("tp_list", LQ), "self.num_ground_truth": V("num_ground_truth", NAT)},
                loops=[("range", (LQ, LQ))]))
    # Ap._calculate_tp_fp: the per-rank TP / FP values and their running sums.  object_results is the list already sorted by
    # confidence; self.objects_results_num is a separate input (Ap.__init__ sets it to the number of results: the guard of the equation)
    RES = ("coq", "AP.res")
    glt = ("get_label_threshold(semantic_label=obj_result.ground_truth_object.semantic_label if obj_result.ground_truth_object is not None "
           "else obj_result.estimated_object.semantic_label, target_labels=self.target_labels, threshold_list=self.matching_threshold_list)")
    S.append(Fn("Ap__calculate_tp_fp", AP_PY, "_calculate_tp_fp",
                "(m : AP.mode) (num_ground_truth objects_results_num : nat) (object_results : list AP.res)",
                {"object_results": ("object_results", lst(RES)), "tp_metrics": ("tt", ("coq", "unit"))}, tup(LQ, LQ), cls="Ap",
                vocab={"self.num_ground_truth": V("num_ground_truth", NAT), "self.objects_results_num": V("objects_results_num", NAT),
                       "self.matching_mode": V("m", ("coq", "AP.mode")),
                       glt: V("AP.thr l_obj_result", ("opt", Q)),                       # the threshold of the result's label, None = not targeted
                       "tp_metrics.get_value(obj_result)": V("AP.weight l_obj_result", Q),
                       # np.arange(1, n + 1).tolist() = [1.0, ..., n]
                       "np.arange(1, self.num_ground_truth + 1, dtype=np.float32).tolist()":
                           V("map (fun i_ => Qnat (S i_)) (seq 0 num_ground_truth)", LQ)},
                calls={"obj_result.is_result_correct":
                       Call("AP.is_result_correct {matching_mode} (Some {matching_threshold}) l_obj_result",
                            [("matching_mode", ("coq", "AP.mode")), ("matching_threshold", Q)], BOOL),
                       "np.cumsum": Call("AP.cumsum 0", [("a", LQ)], LQ)},        # running sums, left to right
                loops=[("enumerate(list)", (LQ, LQ))]))
    return S


HEADER = """(* GENERATED by translator/loops.py from the Python source of /repo on every run -- do not edit.
   One module per loop function; `f` = its body in the error monad Filter.res (Ok / ErrType / ErrIndex = IndexError).
   A `for` loop is a fold_left over the iterated list with the tuple of the locals it changes as state; xs[i] is nth_error
   with an explicit ErrIndex.  Props/GenTieLoops.v proves each `f` equal to the hand-written model for all inputs. *)
From Coq Require Import List Bool ZArith Arith.
From PE Require Import Base.QUtil.
From PE Require Model.AP Model.Filter.
Import ListNotations.
Import Filter.
Open Scope Q_scope.
"""


def generate(repo):
    """-> (text, {function: why-not-translated})"""
    trees, out, bad, done = {}, [HEADER], {}, []
    for fn in specs():
        try:
            missing = [n for n in fn.needs if n not in done]
            if missing:
                fail("depends on " + ", ".join(missing) + " (not translated)")
            txt = translate_function(fn, repo, trees)
        except (TranslatorError, SyntaxError, OSError, RecursionError) as e:
            bad[fn.name] = f"{type(e).__name__}: {e}" if not isinstance(e, TranslatorError) else str(e)
            out.append(f"(* {fn.name}: not translated: {bad[fn.name].replace('*)', '* )').replace('(*', '( *')} *)\n")
            continue
        except Exception as e:  # noqa: BLE001  -- a defect of the translator itself must not look like a translation
            bad[fn.name] = f"internal error {type(e).__name__}: {e}"
            out.append(f"(* {fn.name}: not translated: {bad[fn.name].replace('*)', '* )').replace('(*', '( *')} *)\n")
            continue
        done.append(fn.name)
        out.append(txt + "\n")
    out.append("From Coq Require Import String.\nOpen Scope string_scope.")
    out.append("Definition translated : list string := [" + "; ".join(coq_str(n) for n in done) + "].")
    return "\n".join(out) + "\n", bad


def regenerate(repo, outdir):
    """Write <outdir>/Loops.v (only when the content changes).  {"Loops.v": None} when every function was translated,
    else {"Loops.v": "partial: f1: not translated: why; ..."}."""
    os.makedirs(outdir, exist_ok=True)
    txt, bad = generate(repo)
    path = os.path.join(outdir, "Loops.v")
    old = None
    if os.path.exists(path):
        with open(path) as fh:
            old = fh.read()
    if old != txt:
        with open(path, "w") as fh:
            fh.write(txt)
    if not bad:
        return {"Loops.v": None}
    return {"Loops.v": "partial: " + "; ".join(f"{k}: not translated: {v}" for k, v in bad.items())}


if __name__ == "__main__":
    repo_ = sys.argv[1] if len(sys.argv) > 1 else "/repo"
    outdir_ = sys.argv[2] if len(sys.argv) > 2 else os.path.join(os.path.dirname(os.path.abspath(__file__)), "..", "coq", "theories", "Gen")
    try:
        st = regenerate(repo_, outdir_)
    except OSError as e_:
        print(f"Loops.v: could not be written: {e_}")
        sys.exit(1)
    for k_, v_ in st.items():
        print(f"{k_}: {'ok' if v_ is None else v_}")
    sys.exit(0)
