#!/usr/bin/env python3
"""Self-test of translator/loops_sensing.py + coq/theories/Props/GenTieSensing.v (same scheme as test_loops_classif.py).

  (1) unchanged /repo: translate, build Gen/loops_sensing.v, Proofs/GenTieSensingLemmas.v and the whole Props/GenTieSensing.v (theorems
      closed, non-vacuity examples evaluate);
  (2) MUTANTS: small changes (one token, unless the description says otherwise) of the translated functions in a scratch copy
      (/tmp/gen_sensing_scratch/<id>/): each must break an equation (named), or fail closed in the translator, or be semantically
      equivalent (the reason is in the table); a mutant that translates, is not equivalent and still proves is reported as MISSED
      (exit status 1);
  (3) REFACTORINGS: behaviour-preserving rewrites: survive / translator fails closed / translated but the proof rejects.

The generated file carries the fixed text the lemma file is stated over (exceptions, config attributes, the leaf `crop`), so every
scratch copy compiles its own copy of Proofs/GenTieSensingLemmas.v against its own generated file.  Each theorem of GenTieSensing.v is
compiled on its own (header + that theorem), only the theorems that depend on a module whose generated text changed.
usage: python3 translator/test_loops_sensing.py [--jobs N] [--only base|mutants|refactorings] [--keep] [ids...]
"""
import ast
import concurrent.futures as cf
import os
import re
import shutil
import subprocess
import sys
import time

HERE = os.path.dirname(os.path.abspath(__file__))
VERIF = os.path.dirname(HERE)
sys.path.insert(0, HERE)
import loops_sensing as ls  # noqa: E402
from test_decisions import apply_edit, replace_function  # noqa: E402

REPO = "/repo"
PKGDIR = os.path.join(REPO, "perception_eval", "perception_eval")
SCRATCH = "/tmp/gen_sensing_scratch"
THEORIES = os.path.join(VERIF, "coq", "theories")
COQ_TIMEOUT = 400
GEN = ls.MODNAME + ".v"

CPY, RPY, FPY, MPY, PPY = ls.CONFIG_PY, ls.RESULT_PY, ls.FRAME_PY, ls.MATH_PY, ls.POINT_PY
CF, SR, FR = "SensingFrameConfig", "DynamicObjectWithSensingResult", "SensingFrameResult"
IN, GS, GB, DE, ND, EF, CP = "__init__", "get_scale_factor", "get_bbox_scale", "_evaluate_pointcloud_for_detection", \
    "_evaluate_pointcloud_for_non_detection", "evaluate_frame", "crop_pointcloud"

M_CI, M_GS, M_GB, M_RI, M_DE, M_ND, M_EF, M_CP = "Gen_SensingFrameConfig___init__", "Gen_get_scale_factor", "Gen_get_bbox_scale", \
    "Gen_DynamicObjectWithSensingResult___init__", "Gen__evaluate_pointcloud_for_detection", "Gen__evaluate_pointcloud_for_non_detection", \
    "Gen_evaluate_frame", "Gen_crop_pointcloud"
THEOREM_MODULES = {
    "GenTie_SensingFrameConfig___init__": [M_CI],
    "GenTie_get_scale_factor": [M_GS],
    "GenTie_get_scale_factor_outside": [M_GS],
    "GenTie_get_bbox_scale": [M_GB],
    "GenTie_DynamicObjectWithSensingResult___init__": [M_RI],
    "GenTie_DynamicObjectWithSensingResult___init___outside": [M_RI],
    "GenTie__evaluate_pointcloud_for_detection": [M_DE, M_GS, M_RI],
    "GenTie__evaluate_pointcloud_for_detection_outside": [M_DE, M_GS, M_RI],
    "GenTie__evaluate_pointcloud_for_non_detection": [M_ND, M_GS],
    "GenTie__evaluate_pointcloud_for_non_detection_outside": [M_ND, M_GS],
    "GenTie_evaluate_frame": [M_EF, M_DE, M_ND, M_GS, M_RI],
    "GenTie_evaluate_frame_outside": [M_EF, M_DE, M_ND, M_GS, M_RI],
}

GSF = "self.sensing_frame_config.get_scale_factor(ground_truth_object.get_distance())"
# (id, file, class, function, old, new, expected, why)   expected: caught | closed (translator fails closed) | equivalent
MUTANTS = [
    # ---- SensingFrameConfig.__init__ / get_scale_factor
    ("K01", CPY, CF, IN, "0.01 * (box_scale_100m - box_scale_0m)", "0.1 * (box_scale_100m - box_scale_0m)", "caught", "the slope constant"),
    ("K02", CPY, CF, IN, "(box_scale_100m - box_scale_0m)", "(box_scale_0m - box_scale_100m)", "caught", "scale_0m / scale_100m swapped"),
    ("K03", CPY, CF, IN, "self.box_scale_0m: float = box_scale_0m", "self.box_scale_0m: float = box_scale_100m", "caught", ""),
    ("K04", CPY, CF, GS, "distance + self.box_scale_0m", "distance + self.box_scale_100m", "caught", ""),
    ("K05", CPY, CF, GS, "self.scale_slope_ * distance", "self.scale_slope_ * min(distance, 100.0)", "closed", "clamping beyond 100 m: `min` is not in the vocabulary"),
    ("K06", CPY, CF, GS, "distance + self.box_scale_0m", "distance - self.box_scale_0m", "caught", ""),
    ("K07", CPY, CF, IN, "self.min_points_threshold: int = min_points_threshold", "self.min_points_threshold: int = min_points_threshold + 1", "caught", ""),
    # ---- get_bbox_scale
    ("M01", MPY, None, GB, "slope: float = 0.01 *", "slope: float = 0.001 *", "caught", "the slope constant"),
    ("M02", MPY, None, GB, "return slope * distance + box_scale_0m", "return slope * distance + box_scale_100m", "caught", ""),
    ("M03", MPY, None, GB, "0.01 * (box_scale_100m - box_scale_0m)", "0.01 * (box_scale_0m - box_scale_100m)", "caught", ""),
    # ---- DynamicObjectWithSensingResult.__init__
    ("R01", RPY, SR, IN, "self.inside_pointcloud_num >= min_points_threshold", "self.inside_pointcloud_num > min_points_threshold", "caught", ">= to >"),
    ("R02", RPY, SR, IN, "== Visibility.NONE", "== Visibility.PARTIAL", "caught", ""),
    ("R03", RPY, SR, IN, "== Visibility.NONE", "!= Visibility.NONE", "caught", ""),
    ("R04", RPY, SR, IN, "            scale_factor,\n        )", "            scale_factor,\n            False,\n        )", "caught", "the rows OUTSIDE the box are counted"),
    ("R05", RPY, SR, IN, "len(self.inside_pointcloud)", "len(pointcloud)", "caught", "every row of the cloud is counted"),
    ("R06", RPY, SR, IN, "            scale_factor,\n        )", "            1.0,\n        )", "caught", "the scale factor is ignored"),
    ("R07", RPY, SR, IN, "self.ground_truth_object.crop_pointcloud(\n            pointcloud,", "self.ground_truth_object.crop_pointcloud(\n            self.inside_pointcloud,",
     "closed", "the crop applied to another cloud: read before it is assigned"),
    # ---- _evaluate_pointcloud_for_detection
    ("D01", FPY, FR, DE, "if sensing_result.is_occluded:", "if not sensing_result.is_occluded:", "caught", ""),
    ("D02", FPY, FR, DE, "elif sensing_result.is_detected:", "if sensing_result.is_detected:", "caught", "an occluded object is appended to two lists"),
    ("D03", FPY, FR, DE, "self.detection_success_results.append(sensing_result)", "self.detection_fail_results.append(sensing_result)", "caught", ""),
    ("D04", FPY, FR, DE, "if len(ground_truth_objects) == 0:", "if len(ground_truth_objects) != 0:", "caught", "returns early exactly when there are objects"),
    ("D05", FPY, FR, DE, GSF, "self.sensing_frame_config.get_scale_factor(0.0)", "caught", "the scale is not taken at the object's distance"),
    ("D06", FPY, FR, DE, None, None, "caught", "the scale hoisted out of the loop (computed once, from the first object)"),
    ("D07", FPY, FR, DE, "min_points_threshold=self.sensing_frame_config.min_points_threshold", "min_points_threshold=0", "caught", ""),
    ("D08", FPY, FR, DE, 'logging.warn("There is no annotated objects")\n            return', 'logging.warn("There is no annotated objects")\n            pass',
     "equivalent", "`continue`-like drop of the early return: a loop over no object does nothing (the translator refuses an `if` without effect)"),
    ("D09", FPY, FR, DE, "for ground_truth_object in ground_truth_objects:", "for ground_truth_object in ground_truth_objects[1:]:", "closed", "a slice is not translated"),
    ("D10", FPY, FR, DE, "                self.detection_warning_results.append(sensing_result)\n", "                self.detection_warning_results.append(sensing_result)\n                self.detection_fail_results.append(sensing_result)\n",
     "caught", "an object appended to two lists"),
    ("D11", FPY, FR, DE, "scale_factor=scale_factor_,", "scale_factor=self.sensing_frame_config.box_scale_0m,", "caught", "the scale at 0 m for every object"),
    ("D12", FPY, FR, DE, "ground_truth_object.get_distance()", "ground_truth_object.get_distance(None)", "equivalent", "the default argument spelled out"),
    # ---- _evaluate_pointcloud_for_non_detection
    ("N01", FPY, FR, ND, "inside=False", "inside=True", "caught", ""),
    ("N02", FPY, FR, ND, None, None, "caught", "the crop applied to the wrong cloud: every box is cut out of the ORIGINAL cloud (only the last box counts)"),
    ("N03", FPY, FR, ND, "if len(point_non_detection) != 0:", "if len(point_non_detection) == 0:", "caught", ""),
    ("N04", FPY, FR, ND, "get_corners(scale_factor_)", "get_corners()", "caught", "the box is not scaled"),
    ("N05", FPY, FR, ND, GSF, "self.sensing_frame_config.get_scale_factor(100.0)", "caught", ""),
    ("N06", FPY, FR, ND, "if len(point_non_detection) != 0:", "if len(point_non_detection) > 0:", "equivalent", "a length is never negative"),
    ("N07", FPY, FR, ND, ".append(point_non_detection)", ".append(pointcloud_for_non_detection[0])", "caught", ""),
    ("N08", FPY, FR, ND, "for ground_truth_object in ground_truth_objects:", "for ground_truth_object in ground_truth_objects[:1]:", "closed", "a slice is not translated"),
    ("N09", FPY, FR, ND, "point_non_detection,\n                    object_area_,", "point_non_detection,\n                    object_area_[:6],", "closed", "a slice is not translated"),
    # ---- evaluate_frame
    ("E01", FPY, FR, EF, "            ground_truth_objects,\n            pointcloud_for_non_detection,", "            [],\n            pointcloud_for_non_detection,", "caught",
     "the non-detection clouds are not cropped by the objects"),
    ("E02", FPY, FR, EF, "            ground_truth_objects,\n            pointcloud_for_detection,", "            ground_truth_objects,\n            pointcloud_for_non_detection,", "closed",
     "the crop applied to the wrong cloud: a list of clouds where a cloud is expected"),
    ("E03", FPY, FR, EF, "        self._evaluate_pointcloud_for_non_detection(", "        self._evaluate_pointcloud_for_detection(", "closed", "the second stage replaced by the first: argument types"),
]

HOIST_OLD = "        for ground_truth_object in ground_truth_objects:\n            scale_factor_: float = " + GSF + "\n"
HOIST_NEW = "        scale_factor_: float = self.sensing_frame_config.get_scale_factor(ground_truth_objects[0].get_distance())\n" \
            "        for ground_truth_object in ground_truth_objects:\n"
WRONG_OLD1 = "        for point_non_detection in pointcloud_for_non_detection:\n"
WRONG_NEW1 = "        for original_ in pointcloud_for_non_detection:\n            point_non_detection = original_\n"
WRONG_OLD2 = "point_non_detection = crop_pointcloud(\n                    point_non_detection,"
WRONG_NEW2 = "point_non_detection = crop_pointcloud(\n                    original_,"


def special_edit(mid):
    if mid == "D06":
        return lambda s: apply_edit(s, FR, DE, HOIST_OLD, HOIST_NEW)
    if mid == "N02":
        return lambda s: apply_edit(apply_edit(s, FR, ND, WRONG_OLD1, WRONG_NEW1), FR, ND, WRONG_OLD2, WRONG_NEW2)
    raise KeyError(mid)


# (id, description, file, class, function, new source of the whole function)
REFACTORINGS = [
    ("F01", "get_scale_factor: the sum commuted, the product commuted", CPY, CF, GS, """
def get_scale_factor(self, distance: float) -> float:
    return self.box_scale_0m + distance * self.scale_slope_
"""),
    ("F02", "get_bbox_scale: one expression, no local", MPY, None, GB, """
def get_bbox_scale(distance: float, box_scale_0m: float, box_scale_100m: float) -> float:
    return 0.01 * (box_scale_100m - box_scale_0m) * distance + box_scale_0m
"""),
    ("F03", "DynamicObjectWithSensingResult.__init__: `not (n < m)`, the count not stored before the test, locals", RPY, SR, IN, """
def __init__(self, ground_truth_object, pointcloud, scale_factor: float, min_points_threshold: int) -> None:
    self.ground_truth_object = ground_truth_object
    self.is_occluded = ground_truth_object.visibility == Visibility.NONE
    inside = self.ground_truth_object.crop_pointcloud(pointcloud, bbox_scale=scale_factor, inside=True)
    self.inside_pointcloud = inside
    self.inside_pointcloud_num = len(inside)
    self.is_detected = not (len(inside) < min_points_threshold)
    self.nearest_point = self._get_nearest_point()
"""),
    ("F04", "_evaluate_pointcloud_for_detection: `continue` after the warning, config in a local", FPY, FR, DE, """
def _evaluate_pointcloud_for_detection(self, ground_truth_objects, pointcloud_for_detection) -> None:
    if len(ground_truth_objects) == 0:
        logging.warn("There is no annotated objects")
        return
    config = self.sensing_frame_config
    for ground_truth_object in ground_truth_objects:
        scale_factor_ = config.get_scale_factor(ground_truth_object.get_distance())
        sensing_result = DynamicObjectWithSensingResult(
            ground_truth_object, pointcloud_for_detection, scale_factor=scale_factor_, min_points_threshold=config.min_points_threshold
        )
        if sensing_result.is_occluded:
            self.detection_warning_results.append(sensing_result)
            continue
        if sensing_result.is_detected:
            self.detection_success_results.append(sensing_result)
        else:
            self.detection_fail_results.append(sensing_result)
"""),
    ("F05", "_evaluate_pointcloud_for_detection: tests in another order (`not occluded and detected` first), no early return", FPY, FR, DE, """
def _evaluate_pointcloud_for_detection(self, ground_truth_objects, pointcloud_for_detection) -> None:
    for ground_truth_object in ground_truth_objects:
        sensing_result = DynamicObjectWithSensingResult(
            ground_truth_object,
            pointcloud_for_detection,
            self.sensing_frame_config.get_scale_factor(ground_truth_object.get_distance()),
            self.sensing_frame_config.min_points_threshold,
        )
        if not sensing_result.is_occluded and sensing_result.is_detected:
            self.detection_success_results.append(sensing_result)
        elif not sensing_result.is_occluded:
            self.detection_fail_results.append(sensing_result)
        else:
            self.detection_warning_results.append(sensing_result)
"""),
    ("F06", "_evaluate_pointcloud_for_non_detection: the loop variable is not re-assigned, `continue` for an empty rest, area in one step", FPY, FR, ND, """
def _evaluate_pointcloud_for_non_detection(self, ground_truth_objects, pointcloud_for_non_detection) -> None:
    for cloud_ in pointcloud_for_non_detection:
        remaining = cloud_
        for ground_truth_object in ground_truth_objects:
            scale_factor_ = self.sensing_frame_config.get_scale_factor(ground_truth_object.get_distance())
            object_area_ = [tuple(e) for e in ground_truth_object.get_corners(scale_factor_).tolist()]
            remaining = crop_pointcloud(remaining, object_area_, inside=False)
        if len(remaining) == 0:
            continue
        self.pointcloud_failed_non_detection.append(remaining)
"""),
    ("F07", "_evaluate_pointcloud_for_non_detection: the area inline in the call, `> 0`, positional `inside`", FPY, FR, ND, """
def _evaluate_pointcloud_for_non_detection(self, ground_truth_objects, pointcloud_for_non_detection) -> None:
    for point_non_detection in pointcloud_for_non_detection:
        for ground_truth_object in ground_truth_objects:
            point_non_detection = crop_pointcloud(
                point_non_detection,
                [tuple(e) for e in ground_truth_object.get_corners(
                    self.sensing_frame_config.get_scale_factor(ground_truth_object.get_distance())).tolist()],
                False,
            )
        if len(point_non_detection) > 0:
            self.pointcloud_failed_non_detection.append(point_non_detection)
"""),
    ("F08", "evaluate_frame: keyword arguments", FPY, FR, EF, """
def evaluate_frame(self, ground_truth_objects, pointcloud_for_detection, pointcloud_for_non_detection) -> None:
    self._evaluate_pointcloud_for_detection(
        pointcloud_for_detection=pointcloud_for_detection, ground_truth_objects=ground_truth_objects
    )
    self._evaluate_pointcloud_for_non_detection(
        pointcloud_for_non_detection=pointcloud_for_non_detection, ground_truth_objects=ground_truth_objects
    )
"""),
    ("F09", "SensingFrameConfig.__init__: the slope first, the difference in a local", CPY, CF, IN, """
def __init__(self, target_uuids, box_scale_0m: float, box_scale_100m: float, min_points_threshold: int) -> None:
    delta = box_scale_100m - box_scale_0m
    self.scale_slope_: float = 0.01 * delta
    self.min_points_threshold: int = min_points_threshold
    self.box_scale_100m: float = box_scale_100m
    self.box_scale_0m: float = box_scale_0m
    self.target_uuids = target_uuids
"""),
    ("F10", "_evaluate_pointcloud_for_detection: index loop over range(len(...))", FPY, FR, DE, """
def _evaluate_pointcloud_for_detection(self, ground_truth_objects, pointcloud_for_detection) -> None:
    for i in range(len(ground_truth_objects)):
        ground_truth_object = ground_truth_objects[i]
        scale_factor_ = self.sensing_frame_config.get_scale_factor(ground_truth_object.get_distance())
        sensing_result = DynamicObjectWithSensingResult(
            ground_truth_object, pointcloud_for_detection, scale_factor_, self.sensing_frame_config.min_points_threshold
        )
        if sensing_result.is_occluded:
            self.detection_warning_results.append(sensing_result)
        elif sensing_result.is_detected:
            self.detection_success_results.append(sensing_result)
        else:
            self.detection_fail_results.append(sensing_result)
"""),
]


# ---------------------------------------------------------------------------------------------------------------------
def needed_files():
    return sorted({fn.file for fn in ls.specs()} | {rel for fn in ls.specs() for rel, _, _, _ in fn.sigs})


def make_scratch(n):
    d = os.path.join(SCRATCH, str(n))
    shutil.rmtree(d, ignore_errors=True)
    for rel in needed_files():
        dst = os.path.join(d, "repo", "perception_eval", "perception_eval", rel)
        os.makedirs(os.path.dirname(dst), exist_ok=True)
        shutil.copy(os.path.join(PKGDIR, rel), dst)
    os.makedirs(os.path.join(d, "coq"))
    return d


REQ_GEN = "From PE Require Gen.loops_sensing.\nImport Gen.loops_sensing."
REQ_SCR = "From SCR Require loops_sensing.\nImport loops_sensing."


def scratch_lemmas():
    with open(os.path.join(THEORIES, "Proofs", "GenTieSensingLemmas.v")) as f:
        txt = f.read()
    assert REQ_GEN in txt
    return txt.replace(REQ_GEN, REQ_SCR)


def split_gentie():
    with open(os.path.join(THEORIES, "Props", "GenTieSensing.v")) as f:
        txt = f.read()
    a = "From PE Require Import Base.QUtil Proofs.GenTieSensingLemmas."
    assert a in txt and REQ_GEN in txt
    whole = txt.replace(a, "From PE Require Import Base.QUtil.\nFrom SCR Require Import GenTieSensingLemmas.").replace(REQ_GEN, REQ_SCR)
    m0 = re.search(r"^\(\* ---- ", whole, flags=re.M)
    header, blocks = whole[:m0.start()], {}
    for m in re.finditer(r"(?ms)^Theorem (\w+)\b.*?^Print Assumptions \1\.", whole):
        blocks[m.group(1)] = m.group(0) + "\n"
    assert set(blocks) == set(THEOREM_MODULES), (sorted(blocks), sorted(THEOREM_MODULES))
    return whole, header, blocks


def modules_of(text):
    return {m.group(1): m.group(2) for m in re.finditer(r"(?s)Module (Gen_\w+)\.(.*?)End \1\.", text)}


def coqc(args, cwd):
    try:
        p = subprocess.run(["timeout", str(COQ_TIMEOUT), "coqc"] + args, cwd=cwd, capture_output=True, text=True)
        return p.returncode, p.stdout + p.stderr
    except Exception as e:  # noqa: BLE001
        return 99, str(e)


def check_text(d, name, text, nthm):
    fn = os.path.join(d, "coq", f"T_{name}.v")
    with open(fn, "w") as f:
        f.write(text)
    t0 = time.time()
    rc, out = coqc(["-Q", THEORIES, "PE", "-Q", os.path.join(d, "coq"), "SCR", fn], os.path.join(d, "coq"))
    dt = time.time() - t0
    if rc == 0 and out.count("Closed under the global context") == nthm and "Axioms:" not in out:
        return "ok", dt
    if rc == 124:
        return "timeout", dt
    m = re.search(r"Error:\s*(.*)", out, re.S)
    return "FAILS: " + (" ".join(m.group(1).split())[:110] if m else f"rc={rc}"), dt


def run_variant(n, edits, header, blocks, base_modules):
    """-> (translator status, {theorem: (result, seconds)}, scratch dir)"""
    d = make_scratch(n)
    return _run_variant(d, edits, header, blocks, base_modules)


def _run_variant(d, edits, header, blocks, base_modules):
    for rel, fn in edits:
        path = os.path.join(d, "repo", "perception_eval", "perception_eval", rel)
        with open(path) as f:
            src = f.read()
        new = fn(src)
        ast.parse(new)
        assert new != src, "the edit changes nothing"
        with open(path, "w") as f:
            f.write(new)
    st = ls.regenerate(os.path.join(d, "repo"), os.path.join(d, "coq"))[GEN]
    with open(os.path.join(d, "coq", GEN)) as f:
        mods = modules_of(f.read())
    if base_modules is None:
        todo = list(blocks)
    else:
        changed = [m for m in base_modules if mods.get(m) != base_modules[m]]
        todo = [t for t in blocks if any(m in changed for m in THEOREM_MODULES[t])]
    if not todo:
        return st, {}, d
    cq = os.path.join(d, "coq")
    rc, out = coqc(["-Q", THEORIES, "PE", "-Q", cq, "SCR", GEN], cq)
    if rc != 0:
        return st, {"<" + GEN + ">": ("FAILS to compile: " + " ".join(out.split())[:200], 0)}, d
    with open(os.path.join(cq, "GenTieSensingLemmas.v"), "w") as f:
        f.write(scratch_lemmas())
    rc, out = coqc(["-Q", THEORIES, "PE", "-Q", cq, "SCR", "GenTieSensingLemmas.v"], cq)
    if rc != 0:
        return st, {"<GenTieSensingLemmas.v>": ("FAILS to compile: " + " ".join(out.split())[:200], 0)}, d
    res = {}
    for t in todo:
        missing = [m for m in THEOREM_MODULES[t] if m not in mods]
        if missing:
            res[t] = ("LOST: " + ", ".join(missing) + " not translated", 0)
        else:
            res[t] = check_text(d, t, header + blocks[t], 1)
    return st, res, d


def main():
    jobs = 4
    only = None
    keep = "--keep" in sys.argv
    if "--jobs" in sys.argv:
        jobs = min(4, int(sys.argv[sys.argv.index("--jobs") + 1]))
    if "--only" in sys.argv:
        only = sys.argv[sys.argv.index("--only") + 1]
    ids = [a for a in sys.argv[1:] if re.fullmatch(r"[A-Z]\d\d", a)]
    shutil.rmtree(SCRATCH, ignore_errors=True)
    os.makedirs(SCRATCH)
    whole, header, blocks = split_gentie()
    failures = 0
    # ---- (1) unchanged repo
    t0 = time.time()
    st, res, d0 = run_variant("base", [], header, blocks, None)
    with open(os.path.join(d0, "coq", GEN)) as f:
        base_modules = modules_of(f.read())
    print(f"(1) UNCHANGED /repo: translation: {'all translated' if st is None else st}")
    for k, (r, dt) in res.items():
        print(f"    {k:60s} {r}  ({dt:.1f}s)")
    bad = [k for k, v in res.items() if v[0] != "ok"]
    r, dt = check_text(d0, "whole_file", whole, len(blocks))
    print(f"    {'<the whole file, with the non-vacuity examples>':60s} {r}  ({dt:.1f}s)")
    print(f"    -> {len(res) - len(bad)}/{len(res)} theorems closed, {time.time() - t0:.0f}s")
    if bad or st is not None or r != "ok":
        failures += 1
    if only == "base":
        if not keep:
            shutil.rmtree(SCRATCH, ignore_errors=True)
        return failures
    with cf.ThreadPoolExecutor(max_workers=jobs) as pool:
        # ---- (2) mutants
        if only in (None, "mutants"):
            print("\n(2) MUTANTS")
            tally = {}
            todo = [m for m in MUTANTS if not ids or m[0] in ids]
            futs = [pool.submit(run_variant, m[0],
                                [(m[1], special_edit(m[0]) if m[4] is None else
                                  (lambda s, c=m[2], f=m[3], o=m[4], n=m[5]: apply_edit(s, c, f, o, n)))], header, blocks, base_modules)
                    for m in todo]
            for (mid, rel, cls, func, old, new, expected, why), fut in zip(todo, futs):
                try:
                    st, res, d = fut.result()
                except Exception as e:  # noqa: BLE001
                    print(f"  {mid} ERROR {type(e).__name__}: {e}")
                    failures += 1
                    continue
                badt = [f"{k} [{v[0]}]" for k, v in res.items() if v[0] != "ok"]
                if st:
                    verdict = "fails closed (translator)"
                    okv = expected in ("closed", "caught", "equivalent")
                elif not res:
                    verdict = "generated text unchanged" + (" (equivalent)" if expected == "equivalent" else "")
                    okv = expected == "equivalent"
                elif badt:
                    verdict = "caught" if expected != "equivalent" else "equivalent, proof script rejects"
                    okv = True
                else:
                    verdict = "equivalent, still proves" if expected == "equivalent" else "MISSED"
                    okv = expected == "equivalent"
                if expected == "equivalent" and st:
                    verdict = "equivalent, fails closed"
                if expected == "closed" and not st:
                    verdict += " (expected to fail closed)"
                tally[verdict] = tally.get(verdict, 0) + 1
                if not okv:
                    failures += 1
                    verdict += "  <<<<<< UNEXPECTED"
                desc = f"{func}: {' '.join((old or 'several lines').split())[:58]!r} -> {' '.join((new or 'see the note').split())[:58]!r}"
                print(f"  {mid} {verdict:34s} {desc}  ({sum(v[1] for v in res.values()):.0f}s)", flush=True)
                if why:
                    print(f"        note: {why}")
                if st:
                    print(f"        translator: {st[:260]}")
                for b in badt:
                    print(f"        breaks: {b[:190]}")
                if not keep:
                    shutil.rmtree(d, ignore_errors=True)
            print("  tally:", tally)
        # ---- (3) refactorings
        if only in (None, "refactorings"):
            print("\n(3) REFACTORINGS (behaviour preserving)")
            survived = 0
            allr = [r for r in REFACTORINGS if not ids or r[0] in ids]
            futs = [pool.submit(run_variant, rid, [(rel, (lambda s, c=cls, f=func, n=new: replace_function(s, c, f, n)))],
                                header, blocks, base_modules)
                    for (rid, desc, rel, cls, func, new) in allr]
            for (rid, desc, rel, cls, func, new), fut in zip(allr, futs):
                try:
                    st, res, d = fut.result()
                except Exception as e:  # noqa: BLE001
                    print(f"  {rid} ERROR {type(e).__name__}: {e}")
                    failures += 1
                    continue
                badt = [f"{k} [{v[0]}]" for k, v in res.items() if v[0] != "ok"]
                if st:
                    verdict = "translator FAILS CLOSED"
                elif badt:
                    verdict = "translated, proof REJECTS"
                else:
                    verdict = "survives" + ("" if res else " (generated text identical)")
                    survived += 1
                print(f"  {rid} {verdict:28s} {desc}  [{len(res)} theorem(s) re-checked]")
                if st:
                    print(f"        translator: {st[:260]}")
                for b in badt:
                    print(f"        breaks: {b[:190]}")
                if not keep:
                    shutil.rmtree(d, ignore_errors=True)
            print(f"  {survived}/{len(allr)} refactorings survive")
    if not keep:
        shutil.rmtree(SCRATCH, ignore_errors=True)
    return 1 if failures else 0


if __name__ == "__main__":
    sys.exit(main())
